"""T1 for the zone-FILE READER of muduo/base/TimeZone.cc (C20): `detail::File` (readBytes / readInt32 / readInt64 /
readUInt8 / skip), `detail::readDataBlock`, `detail::readTimeZoneFile`, `TimeZone::Data::addLocalTime` / `addTransition`,
the `Transition` / `LocalTime` constructors and `TimeZone::loadZoneFile`, from clang's AST of /repo's current source.

Two kinds of output, both in lean/MuduoVerif/Generated/TzFileSkel.lean:

A. PARAMETERS of the Lean reader (Model/TzFile.lean CALLS them, so the model reads what the code reads):
   * the three integer readers - bytes passed to `fread` (= `sizeof` of the variable read into), the byte swap
     (`be32toh` / `be64toh` / none), the RETURN TYPE (width + signedness: this is what sign-extends a 32-bit transition
     time when it is stored into `std::vector<int64_t>`), the text of the exception;
   * header: length and bytes of the magic, the comparison that rejects a file, length of version / reserved fields, the
     reader + variable type + ORDER of the six counters, the version test, the size of the first data block as
     `readTimeZoneFile` computes it (typed: every implicit conversion to `size_t` / `ssize_t` is a `conv`), the skip over the
     second header, the rewind of the v1 path, the `v1` flag passed to `readDataBlock` in each branch;
   * data block: `time_size`, counters again, the three tests that refuse a block, which reader reads a transition time for
     `v1` / not `v1`, element type of the vector it is pushed into, reader / variable / element type of the type indices,
     the readers of one ttinfo entry in order and how the values read reach `addLocalTime`'s parameters (by name, through the
     types of the locals and of the parameters), length of the designation text, the three skips behind it, the test that
     reads the footer.
B. STATEMENT SKELETONS (order and nesting of reads, tests, loops, `throw`, `try`/`catch`, `return`) of every function
   above, in the vocabulary of Model/TzFileSkelDecl.lean (walker: vlib/logskel_common.py, extended here by `for`,
   `throw`, `try`, `vector` and `string` comparisons).

Lean side: Model/TzFileSkelDecl.lean declares the value of every parameter and the skeleton the model implements;
Proofs/TzFileSkelTie.lean proves `Gen.TzFileSkel.x = Decl.x` (`rfl` / `decide`); the C20 theorems about the reader
(`tzfile_roundtrip`, `tzfile_sign_extends`, `tzfile_total`) are proved over the generated parameters.

Never guesses: a shape outside what is described here (another reader function, a count that is not initialised by one
reader call, a comparison other than `==` / `!=` with a string literal, an arithmetic operator outside `+ - *`, a
conversion to a type that is not a fixed-width integer or `bool`, ...) raises ExtractError.

Signed arithmetic (`6 * typecnt`, `8 * leapcnt`, `leapcnt * (time_size + 4)`, `-4 * 6`) is translated as exact integer
arithmetic: its overflow is undefined in C++ and outside the model (counters below 2^31 / 8).
"""
from ..extract import HEADER, ExtractError, ast_dump, body_of, ctype, kids, walk
from ..logskel_common import (CTOR_KINDS, Engine, Walker, callee_name, index_functions, lean_str, param_types, peel,
                              peel_plain, pick, render, signatures_of, type_class, type_name)

NAME = "TzFileSkel"
TU = "muduo/base/TimeZone.cc"

# ----------------------------------------------------------------------------------------------------------- types

INT_TYPES = {
    "bool": "bool",
    "char": (8, True), "signed char": (8, True), "unsigned char": (8, False),
    "short": (16, True), "unsigned short": (16, False),
    "int": (32, True), "unsigned int": (32, False),
    "long": (64, True), "unsigned long": (64, False),
    "long long": (64, True), "unsigned long long": (64, False),
}


def int_ty(t):
    """(bits, signed) | 'bool' of a clang type record {qualType, desugaredQualType}"""
    q = t.get("desugaredQualType", t.get("qualType", ""))
    q = q.replace("const ", "").replace("volatile ", "").strip()
    if q not in INT_TYPES:
        raise ExtractError("type `%s` is not a fixed-width integer type the translator knows" % t.get("qualType"))
    return INT_TYPES[q]


def ty_of(n):
    return int_ty(n.get("type", {}))


def lean_ty(t):
    if t == "bool":
        raise ExtractError("a `bool` where an integer type is expected")
    return "⟨%d, %s⟩" % (t[0], "true" if t[1] else "false")


def fits(src, dst):
    """every value of integer type `src` is a value of `dst` (the conversion changes nothing)"""
    if src == "bool" or dst == "bool":
        return False
    (sb, ss), (db, ds) = src, dst
    if ss == ds:
        return sb <= db
    return (not ss) and ds and sb < db


SIZEOF = {"int32_t": 4, "int64_t": 8, "uint8_t": 1, "uint32_t": 4, "uint64_t": 8, "int8_t": 1, "int16_t": 2, "uint16_t": 2}


def sizeof_value(n):
    """value of a `sizeof(T)` / `sizeof x` node"""
    if n.get("kind") != "UnaryExprOrTypeTraitExpr" or n.get("name") != "sizeof":
        raise ExtractError("expected sizeof")
    t = n.get("argType")
    if t is None and kids(n):
        t = kids(n)[0].get("type")
    ty = int_ty(t)
    if ty == "bool":
        return 1
    return ty[0] // 8


class TX:
    """typed integer expressions -> Lean `Int` terms; every value-changing conversion is `conv ⟨bits, signed⟩ (..)`"""

    def __init__(self, sym):
        self.sym = sym          # C name -> (Lean term, type)

    def conv(self, term, src, dst):
        if src == dst:
            return term
        if dst == "bool":
            return "(%s ≠ 0)" % term
        if src != "bool" and fits(src, dst):
            return term
        return "conv %s %s" % (lean_ty(dst), self.par(term))

    @staticmethod
    def par(s):
        return s if s.replace("_", "").replace(".", "").isalnum() else "(" + s + ")"

    def expr(self, n):
        """(term, type)"""
        k = n.get("kind")
        if k in ("ParenExpr", "ExprWithCleanups", "ConstantExpr"):
            return self.expr(kids(n)[0])
        if k == "ImplicitCastExpr" and n.get("castKind") in ("LValueToRValue", "NoOp"):
            return self.expr(kids(n)[0])
        if k in ("ImplicitCastExpr", "CStyleCastExpr", "CXXStaticCastExpr", "CXXFunctionalCastExpr") and \
                n.get("castKind") in ("IntegralCast", "IntegralToBoolean"):
            t, src = self.expr(kids(n)[0])
            dst = ty_of(n)
            return self.conv(t, src, dst), dst
        if k == "IntegerLiteral":
            return str(int(n["value"])), ty_of(n)
        if k == "UnaryExprOrTypeTraitExpr":
            return str(sizeof_value(n)), ty_of(n)
        if k == "DeclRefExpr":
            nm = n["referencedDecl"]["name"]
            if nm not in self.sym:
                raise ExtractError("variable `%s` is not in scope of the translator at this site" % nm)
            return self.sym[nm]
        if k == "UnaryOperator" and n.get("opcode") == "-":
            t, ty = self.expr(kids(n)[0])
            return "-%s" % self.par(t), ty_of(n)
        if k == "BinaryOperator" and n.get("opcode") in ("+", "-", "*"):
            (a, _), (b, _) = [self.expr(x) for x in kids(n)]
            ty = ty_of(n)
            s = "%s %s %s" % (self.par(a), n["opcode"], self.par(b))
            if ty != "bool" and not ty[1]:
                return "conv %s (%s)" % (lean_ty(ty), s), ty       # unsigned arithmetic is modular
            return s, ty                                           # signed: exact (overflow is undefined)
        if k == "ConditionalOperator":
            c, a, b = kids(n)
            c = peel_plain(c)
            if c.get("kind") != "DeclRefExpr" or int_ty(c.get("type", {})) != "bool":
                raise ExtractError("condition of `?:` is not a plain bool variable")
            cn = c["referencedDecl"]["name"]
            if cn not in self.sym:
                raise ExtractError("variable `%s` is not in scope" % cn)
            (ta, _), (tb, _) = self.expr(a), self.expr(b)
            return "if %s = true then %s else %s" % (self.sym[cn][0], ta, tb), ty_of(n)
        raise ExtractError("expression node %s is outside the typed subset" % k)


# ----------------------------------------------------------------------------------------------------------- part A

def string_literal_bytes(n):
    n = peel(n)
    if n.get("kind") != "StringLiteral":
        return None
    v = n["value"]
    if not (v.startswith('"') and v.endswith('"')) or "\\" in v:
        raise ExtractError("string literal %s has an escape the translator does not decode" % v)
    return [ord(c) for c in v[1:-1]]


def throw_message(s):
    """text of `throw std::logic_error("..")`, None if `s` is not such a statement"""
    n = peel(s)
    if n.get("kind") != "CXXThrowExpr":
        return None
    lits = [x for x in walk(n) if x.get("kind") == "StringLiteral"]
    if len(lits) != 1:
        raise ExtractError("throw without exactly one string literal")
    b = string_literal_bytes(lits[0])
    ty = [x for x in walk(n) if x.get("kind") in CTOR_KINDS]
    tn = type_name(ctype(ty[0])) if ty else "?"
    return tn, "".join(chr(c) for c in b)


def flow(expr):
    """(integer conversions innermost first, the node below them) of an expression: looks through parentheses,
    temporaries and lvalue-to-rvalue conversions only, so that no conversion on the way of a value is dropped"""
    chain, cur = [], expr
    while True:
        k = cur.get("kind")
        if k in ("ParenExpr", "ExprWithCleanups", "MaterializeTemporaryExpr", "CXXBindTemporaryExpr", "ConstantExpr") or \
                (k == "ImplicitCastExpr" and cur.get("castKind") in ("LValueToRValue", "NoOp")):
            cur = kids(cur)[0]
        elif k in ("CStyleCastExpr", "CXXStaticCastExpr", "CXXFunctionalCastExpr") and cur.get("castKind") == "NoOp":
            cur = kids(cur)[0]          # the conversion itself is the implicit cast node below
        elif k in ("ImplicitCastExpr", "CStyleCastExpr", "CXXStaticCastExpr", "CXXFunctionalCastExpr") and \
                cur.get("castKind") in ("IntegralCast", "IntegralToBoolean"):
            chain.append(ty_of(cur))
            cur = kids(cur)[0]
        else:
            return list(reversed(chain)), cur


def read_call(expr, fobj, readers, what):
    """`expr` is `f.readNN()` under integer conversions only -> (reader name, conversions innermost first)"""
    chain, cur = flow(expr)
    mc = member_call(cur, strict=True)
    if mc is None or mc[0] != fobj or mc[1] not in readers or mc[2]:
        raise ExtractError("%s is not one call of a reader of `%s` (found %s)" % (what, fobj, cur.get("kind")))
    return mc[1], chain


def only(chain, ty, what):
    """every conversion on the way is to the destination type itself (changes nothing further)"""
    if any(t != ty for t in chain):
        raise ExtractError("%s passes through %s before it becomes %s" % (what, chain, ty))


def member_call(n, strict=False):
    """(object name, method, args) of `obj.method(args)` with `obj` a plain variable, else None"""
    if not strict:
        n = peel(n)
    if n.get("kind") != "CXXMemberCallExpr":
        return None
    callee = peel_plain(kids(n)[0])
    if callee.get("kind") != "MemberExpr" or not kids(callee):
        return None
    obj = peel(kids(callee)[0])
    if obj.get("kind") != "DeclRefExpr":
        return None
    return obj["referencedDecl"]["name"], callee.get("name"), [a for a in kids(n)[1:] if a.get("kind") != "CXXDefaultArgExpr"]


def stmts(fn_or_block):
    b = fn_or_block if fn_or_block.get("kind") == "CompoundStmt" else body_of(fn_or_block)
    return kids(b)


def var_decl(s):
    if s.get("kind") == "DeclStmt" and len(kids(s)) == 1 and kids(s)[0].get("kind") == "VarDecl":
        return kids(s)[0]
    return None


def reader_of(fn):
    """File::readIntNN: `T x = 0; ssize_t nr = ::fread(&x, 1, sizeof(T), fp_); if (nr != sizeof(T)) throw ..; return swap(x);`"""
    name = fn["name"]
    ss = stmts(fn)
    if len(ss) != 4:
        raise ExtractError("File::%s no longer has the four statements of a fixed-width reader" % name)
    x = var_decl(ss[0])
    nr = var_decl(ss[1])
    if x is None or nr is None:
        raise ExtractError("File::%s: expected the declarations of the value and of the fread result" % name)
    xt = ty_of(x)
    call = peel(kids(nr)[0])
    if call.get("kind") != "CallExpr" or callee_name(call) != "fread":
        raise ExtractError("File::%s: the byte count does not come from fread" % name)
    args = kids(call)[1:]
    dst = peel(args[0])
    if not (dst.get("kind") == "UnaryOperator" and dst.get("opcode") == "&" and
            peel(kids(dst)[0]).get("referencedDecl", {}).get("id") == x.get("id")):
        raise ExtractError("File::%s: fread does not read into the value variable" % name)
    one = peel(args[1])
    if one.get("kind") != "IntegerLiteral" or int(one["value"]) != 1:
        raise ExtractError("File::%s: element size of fread is not 1" % name)
    nbytes = sizeof_value(peel(args[2]))
    if xt == "bool" or xt[0] != 8 * nbytes:
        raise ExtractError("File::%s: fread reads %d bytes into a variable of another width" % (name, nbytes))
    # the short-read test
    iff = ss[2]
    if iff.get("kind") != "IfStmt" or len(kids(iff)) != 2:
        raise ExtractError("File::%s: no short-read test" % name)
    c = peel(kids(iff)[0])
    ok = c.get("kind") == "BinaryOperator" and c.get("opcode") == "!="
    if ok:
        l, r = [peel(z) for z in kids(c)]
        ok = l.get("referencedDecl", {}).get("id") == nr.get("id") and r.get("kind") == "UnaryExprOrTypeTraitExpr" \
            and sizeof_value(r) == nbytes
    if not ok:
        raise ExtractError("File::%s: the short-read test is not `nr != sizeof(T)` with the size that was read" % name)
    tm = throw_message(kids(iff)[1])
    if tm is None:
        raise ExtractError("File::%s: a short read does not throw" % name)
    # the return value
    ret = ss[3]
    if ret.get("kind") != "ReturnStmt":
        raise ExtractError("File::%s: last statement is not a return" % name)
    rt = int_ty(fn_return_type(fn))
    e = kids(ret)[0]
    swap = 0
    conv_chain = []          # integer conversions between the swapped value and the returned one, outermost last
    cur = e
    while True:
        k = cur.get("kind")
        if k in ("ParenExpr", "ExprWithCleanups") or (k == "ImplicitCastExpr" and cur.get("castKind") in ("LValueToRValue", "NoOp")):
            cur = kids(cur)[0]
        elif k in ("ImplicitCastExpr", "CStyleCastExpr", "CXXStaticCastExpr") and cur.get("castKind") == "IntegralCast":
            conv_chain.append(ty_of(cur))
            cur = kids(cur)[0]
        else:
            break
    if cur.get("kind") == "CallExpr":
        fnm = callee_name(cur)
        if fnm not in ("__bswap_32", "__bswap_64", "__bswap_16"):
            raise ExtractError("File::%s returns the result of `%s`, not of a byte swap" % (name, fnm))
        swap = int(fnm.split("_")[-1])
        if swap != 8 * nbytes:
            raise ExtractError("File::%s swaps %d bits of a %d-byte value" % (name, swap, nbytes))
        inner = kids(cur)[1]
        # the argument: x converted to the unsigned type of the same width
        while inner.get("kind") in ("ImplicitCastExpr", "ParenExpr"):
            inner = kids(inner)[0]
        if inner.get("referencedDecl", {}).get("id") != x.get("id"):
            raise ExtractError("File::%s swaps something else than the value read" % name)
        src = (swap, False)
    elif cur.get("kind") == "DeclRefExpr" and cur.get("referencedDecl", {}).get("id") == x.get("id"):
        if nbytes != 1:
            raise ExtractError("File::%s returns a %d-byte value in host byte order" % (name, nbytes))
        src = xt
    else:
        raise ExtractError("File::%s: cannot follow the returned expression (%s)" % (name, cur.get("kind")))
    # value returned as a function of the unsigned big-endian value u of the bytes read: `src` is the type the value has
    # before the conversions of the return expression (innermost first: `chain`); accepted is at most ONE conversion,
    # to the return type, from an unsigned type or to a type of the same width - then the result is `conv rt u`
    chain = list(reversed(conv_chain))
    if rt == "bool" or rt[0] < 8 * nbytes:
        raise ExtractError("File::%s narrows the value read to its return type" % name)
    if len(chain) > 1 or (chain and chain[0] != rt):
        raise ExtractError("File::%s: the returned expression converts through %s before the return type" % (name, chain))
    if not chain and src != rt:
        raise ExtractError("File::%s: cannot see how a %s becomes the return type" % (name, src))
    if src[1] and rt[0] != src[0]:
        raise ExtractError("File::%s widens a signed %d-bit value (sign extension inside the reader)" % (name, src[0]))
    ret_ty = rt
    return {"bytes": nbytes, "swap": swap, "ret": ret_ty, "msg": tm[1], "exc": tm[0]}


def fn_return_type(fn):
    q = fn.get("type", {}).get("qualType", "")
    r = q.split("(")[0].strip()
    table = {"int32_t": "int", "int64_t": "long", "uint8_t": "unsigned char", "uint32_t": "unsigned int", "uint64_t": "unsigned long",
             "int8_t": "signed char", "int16_t": "short", "uint16_t": "unsigned short", "ssize_t": "long", "size_t": "unsigned long",
             "off_t": "long"}
    return {"qualType": r, "desugaredQualType": table.get(r, r)}


def lean_reader(r):
    return "{ bytes := %d, swapBits := %d, ret := %s, msg := %s }" % (r["bytes"], r["swap"], lean_ty(r["ret"]), lean_str(r["msg"]))


COUNT_FIELDS = {"isutccnt": "isutccnt", "isgmtcnt": "isutccnt", "isstdcnt": "isstdcnt", "leapcnt": "leapcnt",
                "timecnt": "timecnt", "typecnt": "typecnt", "charcnt": "charcnt"}
COUNT_ORDER = ["isutccnt", "isstdcnt", "leapcnt", "timecnt", "typecnt", "charcnt"]


def count_decls(ss, fobj, readers, where):
    """the run of `const int32_t X = f.readNN();` declarations in `ss`: ([(var, field, reader, type)], rest of ss)"""
    res = []
    i = 0
    while i < len(ss):
        v = var_decl(ss[i])
        if v is None or not kids(v):
            break
        try:
            rname, chain = read_call(kids(v)[0], fobj, readers, "the initialiser of `%s`" % v["name"])
        except ExtractError:
            break
        if v["name"] not in COUNT_FIELDS:
            raise ExtractError("%s: `%s` is read where a counter is expected" % (where, v["name"]))
        only(chain, ty_of(v), "%s: counter `%s`" % (where, v["name"]))
        res.append((v, COUNT_FIELDS[v["name"]], rname, ty_of(v)))
        i += 1
    if len(res) != 6 or sorted(r[1] for r in res) != sorted(COUNT_ORDER):
        raise ExtractError("%s does not read the six counters into six variables (found %s)" % (where, [r[0]["name"] for r in res]))
    if len({r[2] for r in res}) != 1 or len({r[3] for r in res}) != 1:
        raise ExtractError("%s reads its counters with different readers / into different types" % where)
    return res, ss[i:]


def counts_def(name, res, doc):
    fields = ", ".join("%s := conv %s r%d" % (f, lean_ty(t), k) if True else "" for k, (_, f, _, t) in enumerate(res))
    # the conversion from the reader's return type to the variable's type is applied by the model (`countTy`)
    fields = ", ".join("%s := r%d" % (f, k) for k, (_, f, _, _) in enumerate(res))
    return "/-- %s -/\ndef %s (r0 r1 r2 r3 r4 r5 : Int) : Counts :=\n  { %s }\n" % (doc, name, fields)


def counts_sym(res):
    return {v["name"]: ("c." + f, t) for v, f, _, t in res}


def str_cmp(cond, var_id):
    """`var == "lit"` / `var != "lit"` -> (op, bytes)"""
    c = peel(cond)
    if c.get("kind") != "CXXOperatorCallExpr" or callee_name(c) not in ("operator==", "operator!=") or len(kids(c)) != 3:
        raise ExtractError("comparison of a string that is not `==` / `!=`")
    l, r = peel(kids(c)[1]), kids(c)[2]
    if l.get("kind") != "DeclRefExpr" or l["referencedDecl"].get("id") != var_id:
        raise ExtractError("string comparison on an unexpected operand")
    b = string_literal_bytes(r)
    if b is None:
        raise ExtractError("string compared with something that is not a literal")
    return callee_name(c)[len("operator"):], b


def int_arg(tx, arg, param_ty):
    """Lean term of an argument expression converted to the parameter type"""
    t, ty = tx.expr(arg)
    return tx.conv(t, ty, param_ty)


def literal_int(n):
    t, _ = TX({}).expr(n)
    try:
        return int(eval(t.replace("(", "(")))
    except Exception:
        raise ExtractError("expected a constant integer expression, got `%s`" % t)


def param_tys(fn):
    return [(k["name"], int_ty(k.get("type", {}))) for k in kids(fn) if k["kind"] == "ParmVarDecl"]


def gen_params(funcs, data_funcs):
    out = []
    F = {f["name"]: f for o, f in funcs if o == "File"}
    free = {f["name"]: f for o, f in funcs if o is None}
    for need in ("readBytes", "readInt32", "readInt64", "readUInt8", "skip"):
        if need not in F:
            raise ExtractError("detail::File::%s not found" % need)
    readers = {}
    out.append("/-! ## A. parameters of the reader -/\n")
    for rn in ("readInt32", "readInt64", "readUInt8"):
        r = reader_of(F[rn])
        readers[rn] = r
        swap = {0: "returned as read", 16: "`be16toh`", 32: "`be32toh`", 64: "`be64toh`"}[r["swap"]]
        out.append("/-- `File::%s`: `fread` of %d byte(s), %s, returned as `%s`; a short read throws `%s(%s)` -/\ndef %s : Reader :=\n  %s\n" % (
            rn, r["bytes"], swap, fn_return_type(F[rn])["qualType"], r["exc"], lean_str(r["msg"]).replace('"', "'"), rn, lean_reader(r)))
    # readBytes
    rb = F["readBytes"]
    msgs = [throw_message(kids(i)[1]) for i in walk(body_of(rb)) if i.get("kind") == "IfStmt" and throw_message(kids(i)[1])]
    if len(msgs) != 1:
        raise ExtractError("File::readBytes: expected exactly one throw")
    ptys = param_tys(rb)
    if len(ptys) != 1:
        raise ExtractError("File::readBytes: expected one parameter")
    out.append("/-- `File::readBytes(n)`: text of the exception on a short read -/\ndef readBytesMsg : String := %s\n" % lean_str(msgs[0][1]))
    out.append("/-- type of its parameter `%s` -/\ndef readBytesArgTy : IntTy := %s\n" % (ptys[0][0], lean_ty(ptys[0][1])))
    # skip
    sk = F["skip"]
    sptys = param_tys(sk)
    calls = [x for x in walk(body_of(sk)) if x.get("kind") == "CallExpr" and callee_name(x) == "fseek"]
    if len(sptys) != 1 or len(calls) != 1 or len(stmts(sk)) != 1:
        raise ExtractError("File::skip is no longer the single fseek")
    a = kids(calls[0])[1:]
    off = peel(a[1])
    if off.get("kind") != "DeclRefExpr" or off["referencedDecl"]["name"] != sptys[0][0]:
        raise ExtractError("File::skip: fseek is not called with the parameter")
    whence = literal_int(a[2])
    out.append("/-- `File::skip(%s)`: type of the parameter handed to `fseek(fp_, bytes, whence)` -/\ndef skipArgTy : IntTy := %s\n" % (sptys[0][0], lean_ty(sptys[0][1])))
    out.append("/-- its `whence` argument (1 = SEEK_CUR) -/\ndef skipWhence : Nat := %d\n" % whence)

    # ---------------------------------------------------------------- readTimeZoneFile
    rz = free.get("readTimeZoneFile")
    rdb = free.get("readDataBlock")
    if rz is None or rdb is None:
        raise ExtractError("detail::readTimeZoneFile / readDataBlock not found")
    top = stmts(rz)
    fvar = var_decl(top[0]) if top else None
    if fvar is None or type_class(ctype(fvar)) != "File":
        raise ExtractError("readTimeZoneFile does not start by opening a File")
    fobj = fvar["name"]
    tries = [x for x in walk(body_of(rz)) if x.get("kind") == "CXXTryStmt"]
    if len(tries) != 1:
        raise ExtractError("readTimeZoneFile: expected exactly one try block")
    tb = stmts(kids(tries[0])[0])

    def expect_read_bytes(s, what):
        """`string X = f.readBytes(N);` or `f.readBytes(N);` or `X = f.readBytes(N)` -> (var id or None, N)"""
        v = var_decl(s)
        e = kids(v)[0] if v is not None and kids(v) else s
        p = peel(e)
        target = v.get("id") if v is not None else None
        while p.get("kind") in CTOR_KINDS and len(kids(p)) == 1:
            p = peel(kids(p)[0])
        if p.get("kind") == "CXXOperatorCallExpr" and callee_name(p) == "operator=" and len(kids(p)) == 3:
            lhs = peel(kids(p)[1])
            target = lhs.get("referencedDecl", {}).get("id")
            p = peel(kids(p)[2])
            while p.get("kind") in CTOR_KINDS and len(kids(p)) == 1:
                p = peel(kids(p)[0])
        mc = member_call(p)
        if mc is None or mc[0] != fobj or mc[1] != "readBytes" or len(mc[2]) != 1:
            raise ExtractError("readTimeZoneFile: expected `%s.readBytes(..)` for %s" % (fobj, what))
        return target, literal_int(mc[2][0])

    def expect_bad_head(s, var_id, what):
        if s.get("kind") != "IfStmt" or len(kids(s)) != 2:
            raise ExtractError("readTimeZoneFile: expected the test of %s" % what)
        op, b = str_cmp(kids(s)[0], var_id)
        tm = throw_message(kids(s)[1])
        if tm is None:
            raise ExtractError("readTimeZoneFile: a bad %s does not throw" % what)
        return op, b, tm[1]

    def expect_skip(s, tx):
        mc = member_call(s)
        if mc is None or mc[0] != fobj or mc[1] != "skip" or len(mc[2]) != 1:
            raise ExtractError("expected `%s.skip(..)`" % fobj)
        return int_arg(tx, mc[2][0], sptys[0][1])

    def expect_block_call(s):
        if s.get("kind") != "ReturnStmt":
            raise ExtractError("readTimeZoneFile: expected `return readDataBlock(..)`")
        c = peel(kids(s)[0])
        if c.get("kind") != "CallExpr" or callee_name(c) != "readDataBlock" or len(kids(c)) != 4:
            raise ExtractError("readTimeZoneFile: expected `return readDataBlock(f, data, v1)`")
        flag = peel(kids(c)[3])
        if flag.get("kind") != "CXXBoolLiteralExpr":
            raise ExtractError("readTimeZoneFile: the v1 flag is not a literal")
        return bool(flag["value"])

    if len(tb) < 6:
        raise ExtractError("readTimeZoneFile: the try block is too short")
    head_id, magic_len = expect_read_bytes(tb[0], "the magic")
    op1, magic, badmsg = expect_bad_head(tb[1], head_id, "magic")
    ver_id, ver_len = expect_read_bytes(tb[2], "the version")
    _, res_len = expect_read_bytes(tb[3], "the reserved bytes")
    hc, rest = count_decls(tb[4:], fobj, readers, "readTimeZoneFile")
    if len(rest) != 1 or rest[0].get("kind") != "IfStmt" or len(kids(rest[0])) != 3:
        raise ExtractError("readTimeZoneFile: after the counters there is not exactly one if/else on the version")
    vop, vbytes = str_cmp(kids(rest[0])[0], ver_id)
    thn, els = stmts(kids(rest[0])[1]), stmts(kids(rest[0])[2])
    sym = counts_sym(hc)
    tx = TX(dict(sym))
    # then-branch: size_t skip = ..; f.skip(skip); head = f.readBytes(4); if (head != ..) throw; f.skip(16); return readDataBlock(.., false)
    if len(thn) != 6:
        raise ExtractError("readTimeZoneFile: the version-2 branch no longer has its six statements")
    sv = var_decl(thn[0])
    if sv is None or not kids(sv):
        raise ExtractError("readTimeZoneFile: the version-2 branch does not start with the size of the first block")
    t0, ty0 = tx.expr(kids(sv)[0])
    tx.sym[sv["name"]] = (tx.conv(t0, ty0, ty_of(sv)), ty_of(sv))
    v1_block_skip = expect_skip(thn[1], tx)
    head2_id, magic2_len = expect_read_bytes(thn[2], "the second magic")
    op2, magic2, badmsg2 = expect_bad_head(thn[3], head2_id, "second magic")
    header2_skip = expect_skip(thn[4], tx)
    v2_flag = expect_block_call(thn[5])
    if len(els) != 2:
        raise ExtractError("readTimeZoneFile: the version-1 branch no longer has its two statements")
    rewind = expect_skip(els[0], TX({}))
    v1_flag = expect_block_call(els[1])
    if head2_id != head_id:
        pass        # another variable for the second magic is fine

    def cmp_def(name, var, op, b, doc):
        rel = {"==": "=", "!=": "≠"}[op]
        return ("/-- %s -/\ndef %s (%s : List Nat) : Prop := %s %s %s\ninstance : Decidable (%s %s) := by unfold %s; infer_instance\n"
                % (doc, name, var, var, rel, b, name, var, name))

    out.append("/-! ### `detail::readTimeZoneFile` -/\n")
    out.append("/-- length of the magic: `f.readBytes(%d)` -/\ndef magicLen : Int := %d\n" % (magic_len, magic_len))
    out.append(cmp_def("badHead", "head", op1, magic, "the file is refused when `head %s \"%s\"` (bytes of the literal)" % (op1, "".join(map(chr, magic)))))
    out.append("/-- text of the exception -/\ndef badHeadMsg : String := %s\n" % lean_str(badmsg))
    out.append("/-- `string version = f.readBytes(%d)` -/\ndef versionLen : Int := %d\n" % (ver_len, ver_len))
    out.append("/-- reserved bytes read and dropped: `f.readBytes(%d)` -/\ndef reservedLen : Int := %d\n" % (res_len, res_len))
    out.append("/-- reader of the six counters of the first header -/\ndef headerCountReader : Reader := %s\n" % hc[0][2])
    out.append("/-- type of the six variables (`%s`) -/\ndef headerCountTy : IntTy := %s\n" % (ctype(hc[0][0]), lean_ty(hc[0][3])))
    out.append(counts_def("headerCounts", hc, "the k-th value read goes to the counter of that name: %s" % ", ".join(v["name"] for v, _, _, _ in hc)))
    out.append(cmp_def("isV2", "version", vop, vbytes, "the 64-bit block is taken when `version %s \"%s\"`" % (vop, "".join(map(chr, vbytes)))))
    out.append("/-- argument of the `skip` over the first data block, as `ssize_t` (`size_t skip = ..; f.skip(skip)`) -/\n"
               "def v1BlockSkip (c : Counts) : Int :=\n  %s\n" % v1_block_skip)
    out.append("/-- length of the second magic -/\ndef magic2Len : Int := %d\n" % magic2_len)
    out.append(cmp_def("badHead2", "head", op2, magic2, "the second header is refused when `head %s \"%s\"`" % (op2, "".join(map(chr, magic2)))))
    out.append("/-- text of that exception -/\ndef badHead2Msg : String := %s\n" % lean_str(badmsg2))
    out.append("/-- skip over version, reserved bytes ... of the second header up to what `readDataBlock` reads -/\ndef header2Skip : Int := %s\n" % header2_skip)
    out.append("/-- `v1` argument of `readDataBlock` in the version-2 branch -/\ndef v2BranchV1 : Bool := %s\n" % ("true" if v2_flag else "false"))
    out.append("/-- the other branch: `f.skip(..)` back to the counters -/\ndef rewind : Int := %s\n" % rewind)
    out.append("/-- `v1` argument of `readDataBlock` there -/\ndef v1BranchV1 : Bool := %s\n" % ("true" if v1_flag else "false"))

    # ---------------------------------------------------------------- readDataBlock
    ps = [k for k in kids(rdb) if k["kind"] == "ParmVarDecl"]
    if len(ps) != 3 or int_ty(ps[2].get("type", {})) != "bool":
        raise ExtractError("readDataBlock(File&, Data*, bool) changed its parameters")
    bf, bdata, bv1 = ps[0]["name"], ps[1]["name"], ps[2]["name"]
    bs = stmts(rdb)
    ts = var_decl(bs[0])
    if ts is None or ts["name"] != "time_size":
        raise ExtractError("readDataBlock does not start with time_size")
    txb = TX({bv1: ("v1", "bool")})
    t0, ty0 = txb.expr(kids(ts)[0])
    time_size = txb.conv(t0, ty0, ty_of(ts))
    bc, rest = count_decls(bs[1:], bf, readers, "readDataBlock")
    symb = counts_sym(bc)
    symb["time_size"] = ("time_size", ty_of(ts))
    symb[bv1] = ("v1", "bool")
    txb = TX(symb)
    out.append("/-! ### `detail::readDataBlock` -/\n")
    out.append("/-- `const int time_size = ..` -/\ndef timeSize (v1 : Bool) : Int :=\n  %s\n" % time_size)
    out.append("/-- reader of the six counters of a data block -/\ndef blockCountReader : Reader := %s\n" % bc[0][2])
    out.append("/-- type of the six variables (`%s`) -/\ndef blockCountTy : IntTy := %s\n" % (ctype(bc[0][0]), lean_ty(bc[0][3])))
    out.append(counts_def("blockCounts", bc, "the k-th value read goes to the counter of that name: %s" % ", ".join(v["name"] for v, _, _, _ in bc)))
    # the three refusals: `if (cond) return false;`
    rej = []
    i = 0
    while i < len(rest) and rest[i].get("kind") == "IfStmt":
        s = rest[i]
        body = kids(s)[1]
        b2 = stmts(body) if body.get("kind") == "CompoundStmt" else [body]
        if len(kids(s)) != 2 or len(b2) != 1 or b2[0].get("kind") != "ReturnStmt" or peel(kids(b2[0])[0]).get("value") is not False:
            raise ExtractError("readDataBlock: a test after the counters is not `if (..) return false;`")
        rej.append(kids(s)[0])
        i += 1
    rest = rest[i:]
    if len(rej) != 3:
        raise ExtractError("readDataBlock: expected three refusal tests after the counters, found %d" % len(rej))

    def bool_expr(n):
        n2 = peel(n)
        if n2.get("kind") == "BinaryOperator" and n2.get("opcode") in ("&&", "||"):
            a, b = kids(n2)
            return "(%s %s %s)" % (bool_expr(a), {"&&": "∧", "||": "∨"}[n2["opcode"]], bool_expr(b))
        if n2.get("kind") == "BinaryOperator" and n2.get("opcode") in ("==", "!=", "<", "<=", ">", ">="):
            (a, _), (b, _) = [txb.expr(x) for x in kids(n2)]
            return "%s %s %s" % (a, {"==": "=", "!=": "≠", "<": "<", "<=": "≤", ">": ">", ">=": "≥"}[n2["opcode"]], b)
        if n2.get("kind") == "UnaryOperator" and n2.get("opcode") == "!":
            return "¬ %s" % bool_expr(kids(n2)[0])
        if n2.get("kind") == "DeclRefExpr" and int_ty(n2.get("type", {})) == "bool":
            return "(%s = true)" % txb.sym[n2["referencedDecl"]["name"]][0]
        raise ExtractError("condition outside the subset (%s)" % n2.get("kind"))

    def which(cond):
        names = {x["referencedDecl"]["name"] for x in walk(cond) if x.get("kind") == "DeclRefExpr"}
        return sorted(COUNT_FIELDS[n] for n in names if n in COUNT_FIELDS)
    names = {("leapcnt",): "rejectLeap", ("isutccnt", "typecnt"): "rejectIsut", ("isstdcnt", "typecnt"): "rejectIsstd"}
    order = []
    for c in rej:
        key = tuple(which(c))
        if key not in names:
            raise ExtractError("readDataBlock: a refusal test mentions %s" % (key,))
        order.append(names[key])
        out.append("/-- `if (..) return false;` on %s -/\ndef %s (c : Counts) : Prop := %s\ninstance : Decidable (%s c) := by unfold %s; infer_instance\n"
                   % (", ".join(key), names[key], unparen(bool_expr(c)), names[key], names[key]))
    out.append("/-- the order in which they are tested -/\ndef rejectOrder : List String := [%s]\n" % ", ".join(lean_str(o) for o in order))

    # what follows: trans (decl), reserve, for, localtimes (decl), reserve, for, reserve, for, for, readBytes, 3 skips, if (!v1)
    def is_for(s):
        return s.get("kind") == "ForStmt"

    fors = [s for s in rest if is_for(s)]
    if len(fors) != 4:
        raise ExtractError("readDataBlock: expected four loops, found %d" % len(fors))

    def for_shape(s):
        inner = s["inner"]
        init, cond, inc, body = inner[0], inner[2], inner[3], inner[4]
        v = var_decl(init)
        c = peel(cond)
        ok = v is not None and kids(v) and peel(kids(v)[0]).get("kind") == "IntegerLiteral" and int(peel(kids(v)[0])["value"]) == 0
        ok = ok and c.get("kind") == "BinaryOperator" and c.get("opcode") == "<"
        if ok:
            l, r = [peel(z) for z in kids(c)]
            ok = l.get("referencedDecl", {}).get("id") == v.get("id") and r.get("kind") == "DeclRefExpr"
        i2 = peel(inc)
        ok = ok and i2.get("kind") == "UnaryOperator" and i2.get("opcode") == "++"
        if not ok:
            raise ExtractError("readDataBlock: a loop is not `for (int i = 0; i < N; ++i)`")
        return r["referencedDecl"]["name"], stmts(body)

    # loop 1: transition times
    bound, body = for_shape(fors[0])
    if COUNT_FIELDS.get(bound) != "timecnt" or len(body) != 1 or body[0].get("kind") != "IfStmt" or len(kids(body[0])) != 3:
        raise ExtractError("readDataBlock: the first loop is not `for i < timecnt: if (v1) .. else ..`")
    c = peel(kids(body[0])[0])
    if c.get("kind") != "DeclRefExpr" or c["referencedDecl"]["name"] != bv1:
        raise ExtractError("readDataBlock: the first loop does not branch on v1")

    def push_of(branch):
        b = stmts(branch) if branch.get("kind") == "CompoundStmt" else [branch]
        if len(b) != 1:
            raise ExtractError("readDataBlock: a branch of the time loop has %d statements" % len(b))
        mc = member_call(b[0])
        if mc is None or mc[1] != "push_back" or len(mc[2]) != 1:
            raise ExtractError("readDataBlock: a branch of the time loop is not a push_back")
        rname, chain = read_call(mc[2][0], bf, readers, "readDataBlock: the pushed transition time")
        return mc[0], rname, chain
    vec1, r_v1, ch1 = push_of(kids(body[0])[1])
    vec2, r_v2, ch2 = push_of(kids(body[0])[2])
    if vec1 != vec2:
        raise ExtractError("readDataBlock: the two branches push into different vectors")
    tvec = [var_decl(s) for s in rest if var_decl(s) is not None and var_decl(s)["name"] == vec1]
    if len(tvec) != 1:
        raise ExtractError("readDataBlock: declaration of `%s` not found" % vec1)
    elem = vector_elem_ty(tvec[0])
    out.append("/-- which reader reads a transition time (`if (v1) trans.push_back(f.%s()) else trans.push_back(f.%s())`) -/\n"
               "def timeReader (v1 : Bool) : Reader := if v1 = true then %s else %s\n" % (r_v1, r_v2, r_v1, r_v2))
    out.append("/-- element type of `%s %s`: what the value read is converted to -/\ndef timeElemTy : IntTy := %s\n" % (ctype(tvec[0]), vec1, lean_ty(elem)))
    out.append("/-- the integer conversions the value goes through between the reader and `push_back`, innermost first "
               "(the implicit one to the element type included) -/\ndef timeConvs (v1 : Bool) : List IntTy := if v1 = true then [%s] else [%s]\n"
               % (", ".join(lean_ty(t) for t in ch1), ", ".join(lean_ty(t) for t in ch2)))
    # loop 2: type indices
    bound, body = for_shape(fors[1])
    v = var_decl(body[0]) if len(body) == 2 else None
    mc2 = member_call(body[1]) if len(body) == 2 else None
    if COUNT_FIELDS.get(bound) != "timecnt" or v is None or not kids(v) or mc2 is None or mc2[1] != "push_back" or len(mc2[2]) != 1:
        raise ExtractError("readDataBlock: the second loop is not `for i < timecnt: T local = f.readNN(); localtimes.push_back(local)`")
    rname, chain = read_call(kids(v)[0], bf, readers, "readDataBlock: the initialiser of `%s`" % v["name"])
    only(chain, ty_of(v), "readDataBlock: `%s`" % v["name"])
    mc = (bf, rname, [])
    pchain, pcur = flow(mc2[2][0])
    if pcur.get("referencedDecl", {}).get("id") != v.get("id"):
        raise ExtractError("readDataBlock: the second loop does not push the value it read")
    ivec = [var_decl(s) for s in rest if var_decl(s) is not None and var_decl(s)["name"] == mc2[0]]
    if len(ivec) != 1:
        raise ExtractError("readDataBlock: declaration of `%s` not found" % mc2[0])
    out.append("/-- reader of a transition's type index -/\ndef idxReader : Reader := %s\n" % mc[1])
    out.append("/-- type of the local it is read into (`%s %s`) -/\ndef idxVarTy : IntTy := %s\n" % (ctype(v), v["name"], lean_ty(ty_of(v))))
    only(pchain, vector_elem_ty(ivec[0]), "readDataBlock: the pushed type index")
    out.append("/-- element type of `%s %s` -/\ndef idxElemTy : IntTy := %s\n" % (ctype(ivec[0]), mc2[0], lean_ty(vector_elem_ty(ivec[0]))))
    idx_vec = mc2[0]
    # loop 3: ttinfo
    bound, body = for_shape(fors[2])
    if COUNT_FIELDS.get(bound) != "typecnt" or len(body) < 2:
        raise ExtractError("readDataBlock: the third loop is not the ttinfo loop over typecnt")
    locs = {}
    rds = []
    for s in body[:-1]:
        v = var_decl(s)
        if v is None or not kids(v):
            raise ExtractError("readDataBlock: a statement of the ttinfo loop is not `T x = f.readNN();`")
        rname, chain = read_call(kids(v)[0], bf, readers, "readDataBlock: the initialiser of `%s`" % v["name"])
        k = len(rds)
        rds.append(rname)
        term, src = "r%d" % k, readers[rname]["ret"]
        for t in chain + [ty_of(v)]:
            term, src = TX({}).conv(term, src, t), t
        locs[v["name"]] = (term, ty_of(v))
    call = peel(body[-1])
    if call.get("kind") != "CXXMemberCallExpr" or callee_name(call) != "addLocalTime":
        raise ExtractError("readDataBlock: the ttinfo loop does not end with addLocalTime")
    alt = [f for o, f in data_funcs if o == "Data" and f["name"] == "addLocalTime"]
    if len(alt) != 1:
        raise ExtractError("TimeZone::Data::addLocalTime not found")
    aps = [(k["name"], int_ty(k.get("type", {}))) for k in kids(alt[0]) if k["kind"] == "ParmVarDecl"]
    args = [a for a in kids(call)[1:] if a.get("kind") != "CXXDefaultArgExpr"]
    if [p[0] for p in aps] != ["utcOffset", "isDst", "desigIdx"] or len(args) != 3:
        raise ExtractError("addLocalTime(utcOffset, isDst, desigIdx) changed its parameters")
    txl = TX(locs)
    fields = []
    for (pn, pt), a in zip(aps, args):
        t, ty = txl.expr(a)
        term = txl.conv(t, ty, pt)
        if pt == "bool":
            term = "decide %s" % unparen_first(term)
        fields.append("%s := %s" % (pn, term))
    out.append("/-- readers of one ttinfo entry, in the order of the reads -/\ndef ttinfoReaders : List Reader := [%s]\n" % ", ".join(rds))
    out.append("/-- what reaches `addLocalTime(utcOffset, isDst, desigIdx)` from the k-th value read (through the types of the "
               "locals %s and of the parameters) -/\ndef ttinfo (%s : Int) : TTInfo :=\n  { %s }\n" % (
                   ", ".join("`%s %s`" % (lean_ty(locs[n][1]) if False else n, "") for n in locs).replace(" `", "`").replace(" ,", ","),
                   " ".join("r%d" % k for k in range(len(rds))), ", ".join(fields)))
    # loop 4: addTransition(trans[i], localIdx)
    bound, body = for_shape(fors[3])
    v = var_decl(body[0]) if len(body) == 2 else None
    call = peel(body[1]) if len(body) == 2 else {}
    if COUNT_FIELDS.get(bound) != "timecnt" or v is None or call.get("kind") != "CXXMemberCallExpr" or callee_name(call) != "addTransition":
        raise ExtractError("readDataBlock: the fourth loop is not `int localIdx = localtimes[i]; data->addTransition(trans[i], localIdx);`")
    atr = [f for o, f in data_funcs if o == "Data" and f["name"] == "addTransition"]
    if len(atr) != 1:
        raise ExtractError("TimeZone::Data::addTransition not found")
    tps = [(k["name"], int_ty(k.get("type", {}))) for k in kids(atr[0]) if k["kind"] == "ParmVarDecl"]
    if [p[0] for p in tps] != ["utcTime", "localtimeIdx"]:
        raise ExtractError("addTransition(utcTime, localtimeIdx) changed its parameters")
    targs = [a for a in kids(call)[1:] if a.get("kind") != "CXXDefaultArgExpr"]
    if len(targs) != 2:
        raise ExtractError("readDataBlock: addTransition is not called with two arguments")
    ch_t, cur_t = flow(targs[0])
    ch_i, cur_i = flow(targs[1])
    only(ch_t, tps[0][1], "readDataBlock: the time handed to addTransition")
    only(ch_i, tps[1][1], "readDataBlock: the index handed to addTransition")
    if cur_i.get("referencedDecl", {}).get("id") != v.get("id"):
        raise ExtractError("readDataBlock: addTransition does not receive `%s`" % v["name"])
    ch_l, cur_l = flow(kids(v)[0]) if kids(v) else ([], {})
    only(ch_l, ty_of(v), "readDataBlock: `%s`" % v["name"])
    for cur, vec, what in ((cur_t, vec1, "time"), (cur_l, idx_vec, "index")):
        ok = cur.get("kind") == "CXXOperatorCallExpr" and callee_name(cur) == "operator[]" and len(kids(cur)) == 3 and \
            peel(kids(cur)[1]).get("referencedDecl", {}).get("name") == vec
        if not ok:
            raise ExtractError("readDataBlock: the %s of a transition is not `%s[i]`" % (what, vec))
    out.append("/-- `%s %s = %s[i]` and the parameter `localtimeIdx` of `addTransition`: the index is converted to these -/\n"
               "def transIdxTys : List IntTy := [%s, %s]\n" % (ctype(v), v["name"], idx_vec, lean_ty(ty_of(v)), lean_ty(tps[1][1])))
    out.append("/-- type of `addTransition`'s parameter `utcTime` -/\ndef transTimeTy : IntTy := %s\n" % lean_ty(tps[0][1]))
    # the tail: abbreviation, skips, footer
    tail = rest[rest.index(fors[3]) + 1:]
    if len(tail) != 6:
        raise ExtractError("readDataBlock: after the loops there are %d statements, not the six expected" % len(tail))
    p = peel(tail[0])
    if not (p.get("kind") == "CXXOperatorCallExpr" and callee_name(p) == "operator=" and peel(kids(p)[1]).get("name") == "abbreviation"):
        raise ExtractError("readDataBlock: the designations are not stored into data->abbreviation")
    rhs = peel(kids(p)[2])
    while rhs.get("kind") in CTOR_KINDS and len(kids(rhs)) == 1:
        rhs = peel(kids(rhs)[0])
    mc = member_call(rhs)
    if mc is None or mc[0] != bf or mc[1] != "readBytes":
        raise ExtractError("readDataBlock: the designations are not read by readBytes")
    out.append("/-- `data->abbreviation = f.readBytes(..)`: the argument, as the parameter type of readBytes -/\ndef charsLen (c : Counts) : Int :=\n  %s\n"
               % int_arg(txb, mc[2][0], ptys[0][1]))
    skips = []
    for s in tail[1:4]:
        mc = member_call(s)
        if mc is None or mc[0] != bf or mc[1] != "skip":
            raise ExtractError("readDataBlock: expected three skips behind the designations")
        skips.append(int_arg(txb, mc[2][0], sptys[0][1]))
    out.append("/-- arguments of the three `f.skip(..)` behind the designations, as `ssize_t` -/\ndef blockSkips (c : Counts) (time_size : Int) : List Int :=\n  [%s]\n"
               % ",\n   ".join(skips))
    s = tail[4]
    if s.get("kind") != "IfStmt" or len(kids(s)) != 2 or "readToEnd" not in [x.get("name") for x in walk(s)]:
        raise ExtractError("readDataBlock: expected `if (!v1) data->tzstring = f.readToEnd();`")
    out.append("/-- the footer is read (`data->tzstring = f.readToEnd()`) when -/\ndef readsFooter (v1 : Bool) : Prop := %s\n"
               "instance : Decidable (readsFooter v1) := by unfold readsFooter; infer_instance\n" % unparen(bool_expr(kids(s)[0])))
    if tail[5].get("kind") != "ReturnStmt" or peel(kids(tail[5])[0]).get("value") is not True:
        raise ExtractError("readDataBlock does not end with `return true`")
    # every definition names the function it was taken from (the coverage report attributes it by that)
    section, res = None, []
    for item in out:
        if item.startswith("/-! ### `detail::readTimeZoneFile`"):
            section = "`detail::readTimeZoneFile`"
        elif item.startswith("/-! ### `detail::readDataBlock`"):
            section = "`detail::readDataBlock`"
        elif section and item.startswith("/-- ") and not item.startswith("/-- " + section):
            item = "/-- " + section + ": " + item[4:]
        res.append(item)
    return res


def unparen_first(s):
    return s if s.startswith("(") else "(" + s + ")"


def unparen(s):
    if s.startswith("(") and s.endswith(")"):
        depth = 0
        for i, ch in enumerate(s):
            depth += ch == "("
            depth -= ch == ")"
            if depth == 0 and i != len(s) - 1:
                return s
        return s[1:-1]
    return s


def vector_elem_ty(v):
    q = v.get("type", {}).get("qualType", "")
    if not (q.startswith("std::vector<") and q.endswith(">")):
        raise ExtractError("`%s` is not a std::vector" % v.get("name"))
    e = q[len("std::vector<"):-1].strip()
    table = {"int64_t": (64, True), "int32_t": (32, True), "int": (32, True), "long": (64, True), "uint8_t": (8, False),
             "uint32_t": (32, False), "uint64_t": (64, False), "unsigned int": (32, False), "unsigned long": (64, False),
             "int8_t": (8, True), "unsigned char": (8, False), "size_t": (64, False), "time_t": (64, True)}
    if e not in table:
        raise ExtractError("element type `%s` of `%s` is not known to the translator" % (e, v.get("name")))
    return table[e]


# ----------------------------------------------------------------------------------------------------------- part B

class TzEngine(Engine):
    methods = {
        "File": {"value": ("valid",), "call": ("readBytes", "readToEnd", "readInt64", "readInt32", "readUInt8", "skip")},
        "Data": {"value": (), "call": ("addLocalTime", "addTransition")},
        "vector": {"value": ("size", "empty", "front", "back"), "call": ("reserve", "push_back", "at")},
        "string": {"value": ("size", "c_str", "data", "length", "empty"), "call": ("append",)},
        "unique_ptr": {"value": ("get",), "call": ("reset",)},
        "logic_error": {"value": ("what",)},
    }
    free_value = ("__bswap_32", "__bswap_64", "__bswap_16")
    free_call = ("readDataBlock", "readTimeZoneFile")
    free_sys = ("fread", "fseek", "fopen", "fclose")
    diag_streams = ("stderr",)
    diag_pure = ("what",)
    lock_types = ()
    storage_types = ("vector",)
    object_types = ("string", "Transition", "LocalTime", "File", "TimeZone", "unique_ptr")


STRING_OPS = ("operator==", "operator!=")


class TzWalker(Walker):
    """the shared walker + `for (int i = 0; i < N; ++i)`, `throw T("..")`, `try { } catch (T) { }`, std::vector,
    `string == / != literal`, an action call as the argument of another action call"""

    def receiver_class(self, base):
        cls, obj = Walker.receiver_class(self, base)
        t = type_name(ctype(obj)) if obj.get("kind") != "CXXThisExpr" else ""
        if "vector<" in t:
            return "vector", obj
        return cls, obj

    def classify(self, n):
        k = n.get("kind")
        nm = callee_name(n)
        if k == "CXXOperatorCallExpr" and nm in STRING_OPS and len(kids(n)) == 3:
            return "value", nm
        if k == "CXXOperatorCallExpr" and nm == "operator[]" and len(kids(n)) == 3:
            return "value", nm
        if k == "CallExpr" and nm == "move" and len(kids(n)) == 2:
            return "cast", None                                         # std::move: the object itself
        return Walker.classify(self, n)

    def pp_(self, n):
        p = peel(n)
        if p.get("kind") == "CXXOperatorCallExpr" and callee_name(p) in STRING_OPS and len(kids(p)) == 3:
            return "%s %s %s" % (self.pp(kids(p)[1], 9), callee_name(p)[len("operator"):], self.pp(kids(p)[2], 9)), 8
        if p.get("kind") == "CXXOperatorCallExpr" and callee_name(p) == "operator[]" and len(kids(p)) == 3:
            return "%s[%s]" % (self.pp(kids(p)[1], 16), self.pp(kids(p)[2])), 16
        if p.get("kind") in CTOR_KINDS:
            args = [a for a in kids(p) if a.get("kind") != "CXXDefaultArgExpr"]
            if len(args) == 1 and type_class(ctype(peel(args[0]))) == type_class(ctype(p)):
                return self.pp_(args[0])                                # copy / move of a value of the same class
        if p.get("kind") == "CXXStdInitializerListExpr":
            self.err("initializer list")
        return Walker.pp_(self, n)

    def action(self, n, out):
        kind, name = self.classify(n)
        if kind not in ("call", "sys"):
            return False
        args = []
        for a in kids(n)[1:]:
            if a.get("kind") == "CXXDefaultArgExpr":
                continue
            p = peel(a)
            while p.get("kind") in CTOR_KINDS and len([x for x in kids(p) if x.get("kind") != "CXXDefaultArgExpr"]) == 1 \
                    and type_class(ctype(p)) not in ("Transition", "LocalTime"):
                p = peel([x for x in kids(p) if x.get("kind") != "CXXDefaultArgExpr"][0])
            if p.get("kind") in ("CXXMemberCallExpr", "CallExpr") and self.classify(p)[0] in ("call", "sys"):
                if "<result>" in args:
                    self.err("two action calls among the arguments of `%s`" % name)
                self.action(p, out)
                args.append("<result>")
            else:
                args.append(self.pp(a))
        out.append(("act", ".%s %s %s" % (kind, lean_str(name), lean_str(", ".join(args)))))
        return True

    def expr_stmt(self, s, out):
        n = peel(s)
        if n.get("kind") == "CXXThrowExpr":
            tm = throw_message(n)
            out.append(("act", ".throw %s %s" % (lean_str(tm[0]), lean_str(tm[1]))))
            return
        return Walker.expr_stmt(self, s, out)

    def local(self, v, out):
        init = kids(v)
        t = type_name(ctype(v))
        if "vector<" in t:
            if init and [a for a in kids(peel(init[0])) if a.get("kind") != "CXXDefaultArgExpr"]:
                self.err("a vector constructed from arguments")
            return                                                      # storage only
        if init:
            i0 = peel(init[0])
            # copy / move construction from one value (`string head = f.readBytes(4)`, `LocalTime lt = localtimes.at(i)`)
            while i0.get("kind") in CTOR_KINDS:
                args = [a for a in kids(i0) if a.get("kind") != "CXXDefaultArgExpr"]
                a0 = peel(args[0]) if len(args) == 1 else None
                if a0 is not None and (type_class(ctype(a0)) == type_class(ctype(i0)) or
                                       (a0.get("kind") in ("CXXMemberCallExpr", "CallExpr") and self.classify(a0)[0] in ("call", "sys"))):
                    i0 = a0
                else:
                    break
            if i0.get("kind") not in CTOR_KINDS:
                out.append(("act", ".assign %s %s" % (lean_str(v["name"]), lean_str(self.value_or_action(i0, out)))))
                return
        return Walker.local(self, v, out)

    def stmt(self, s, out):
        k = s.get("kind")
        if k == "ForStmt":
            inner = s["inner"]
            init, cond, inc, body = inner[0], inner[2], inner[3], inner[4]
            v = None
            if isinstance(init, dict) and init.get("kind") == "DeclStmt" and len(kids(init)) == 1:
                v = kids(init)[0]
            if v is None or not kids(v) or not isinstance(cond, dict) or not cond.get("kind") or not isinstance(inc, dict) or not inc.get("kind"):
                self.err("a `for` that is not `for (T i = a; cond; step)`")
            step = peel(inc)
            if not (step.get("kind") == "UnaryOperator" and step.get("opcode") == "++" and
                    peel(kids(step)[0]).get("referencedDecl", {}).get("id") == v.get("id")):
                self.err("a `for` whose step is not `++i`")
            b = []
            self.stmt(body, b)
            out.append(("act", ".assign %s %s" % (lean_str(v["name"]), lean_str(self.pp(kids(v)[0])))))
            out.append(("loop", ".forUp", self.cond(cond), b))
            return
        if k == "IfStmt" and not s.get("hasInit") and not s.get("hasVar") and len(kids(s)) in (2, 3):
            # `if (!f(..))` / `if (f(..))` on an action call: the call, then the test of its result
            c = peel(kids(s)[0])
            neg = ""
            if c.get("kind") == "UnaryOperator" and c.get("opcode") == "!":
                neg, c = "!", peel(kids(c)[0])
            if c.get("kind") in ("CXXMemberCallExpr", "CallExpr") and self.classify(c)[0] in ("call", "sys"):
                self.action(c, out)
                ks = kids(s)
                thn, els = [], []
                self.stmt(ks[1], thn)
                if len(ks) == 3:
                    self.stmt(ks[2], els)
                out.append(("ite", neg + "<result>", thn, els))
                return
        if k == "CXXTryStmt":
            ks = kids(s)
            if len(ks) != 2 or ks[1].get("kind") != "CXXCatchStmt":
                self.err("a try block with %d handlers" % (len(ks) - 1))
            body, handler = [], []
            self.stmt(ks[0], body)
            cs = kids(ks[1])
            exc = "..."
            if cs and cs[0].get("kind") == "VarDecl":
                exc = ctype(cs[0]).replace("muduo::", "")
            self.stmt(cs[-1], handler)
            out.append(("try", exc, body, handler))
            return
        return Walker.stmt(self, s, out)


def render2(items, ind):
    """`render` of logskel_common + the `tryCatch` node"""
    pad = " " * ind
    lines = []
    for it in items:
        if it[0] == "try":
            _, exc, body, handler = it
            s = "%s.tryCatch %s" % (pad, lean_str(exc))
            for br in (body, handler):
                s += ("\n%s  [\n%s\n%s  ]" % (pad, render2(br, ind + 4), pad)) if br else " []"
            lines.append(s)
        elif it[0] == "loop":
            _, kind, name, body = it
            s = "%s.loop %s %s" % (pad, kind, lean_str(name))
            s += ("\n%s  [\n%s\n%s  ]" % (pad, render2(body, ind + 4), pad)) if body else " []"
            lines.append(s)
        elif it[0] == "ite":
            _, name, thn, els = it
            s = "%s.ite %s" % (pad, lean_str(name))
            for br in (thn, els):
                s += ("\n%s  [\n%s\n%s  ]" % (pad, render2(br, ind + 4), pad)) if br else " []"
            lines.append(s)
        else:
            lines.append("%s.act (%s)" % (pad, it[1]))
    return ",\n".join(lines)


# (Lean name, owner class, C++ name)
FUNCTIONS = [
    ("fileReadBytes", "File", "readBytes"),
    ("fileReadInt64", "File", "readInt64"),
    ("fileReadInt32", "File", "readInt32"),
    ("fileReadUInt8", "File", "readUInt8"),
    ("fileSkip", "File", "skip"),
    ("readDataBlock", None, "readDataBlock"),
    ("readTimeZoneFile", None, "readTimeZoneFile"),
    ("transitionCtor", "Transition", "Transition"),
    ("localTimeCtor", "LocalTime", "LocalTime"),
    ("addLocalTime", "Data", "addLocalTime"),
    ("addTransition", "Data", "addTransition"),
    ("loadZoneFile", None, "loadZoneFile"),
]

HEAD_DOC = """/-!
The zone-file reader of `muduo/base/TimeZone.cc` as the source has it now.

A. Parameters that `Model/TzFile.lean` calls (readers: bytes, byte swap, return type, exception text; header and block
   layout: lengths, magic, version test, order / reader / type of the counters, block size and skips with every implicit
   conversion as `conv`, which reader reads a transition time, the types a value passes through on its way into the
   table).  Signed arithmetic is exact (its overflow is undefined in C++).
B. Statement skeletons of `detail::File::{readBytes, readInt64, readInt32, readUInt8, skip}`, `detail::readDataBlock`,
   `detail::readTimeZoneFile`, `TimeZone::Data::{Transition, LocalTime, addLocalTime, addTransition}`,
   `TimeZone::loadZoneFile`: significant actions in source order (vocabulary and what is left out:
   `Model/TzFileSkelDecl.lean`).  `for (int i = 0; i < N; ++i)` is `assign i 0` + `loop .forUp "i < N"`.
`Proofs/TzFileSkelTie.lean` proves every definition below equal to its declared counterpart.
-/
"""


def generate():
    docs = ast_dump(TU, "muduo::detail")
    data_docs = ast_dump(TU, "muduo::TimeZone::Data")
    load_docs = ast_dump(TU, "muduo::TimeZone::loadZoneFile")
    funcs = index_functions(docs)
    data_funcs = index_functions(data_docs)
    load_funcs = index_functions(load_docs)
    out = [HEADER % TU, "import MuduoVerif.Model.TzFileSkelDecl\n", HEAD_DOC,
           "set_option linter.unusedVariables false\n",
           "namespace MuduoVerif.Gen.TzFileSkel", "open MuduoVerif.TzFileSkel\n"]
    out += gen_params(funcs, data_funcs)
    out.append("/-! ## B. statement skeletons -/\n")
    sigs = {}
    for d in (docs, data_docs, load_docs):
        sigs.update(signatures_of(d))
    allf = funcs + data_funcs + [(None, f) for o, f in load_funcs]
    for lean, owner, cxx in FUNCTIONS:
        fs = pick(allf, owner, cxx)
        seen, uniq = set(), []
        for f in fs:
            if f.get("id") not in seen:
                seen.add(f.get("id"))
                uniq.append(f)
        if len(uniq) != 1:
            raise ExtractError("expected exactly one definition of %s%s, found %d" % (owner + "::" if owner else "", cxx, len(uniq)))
        fn = uniq[0]
        w = TzWalker(TzEngine, owner, fn.get("name"), {}, {})
        w.signatures = sigs
        w.local_ids = frozenset(x.get("id") for x in walk(fn) if x.get("kind") in ("VarDecl", "ParmVarDecl"))
        items = []
        if fn.get("kind") == "CXXConstructorDecl":
            w.ctor_inits(fn, items)
        w.stmt(body_of(fn), items)
        out.append("/-- `%s%s(%s)` -/" % (owner + "::" if owner else "", cxx, ", ".join(t.replace("muduo::", "") for t in param_types(fn))))
        out.append(("def %s : List Skel :=\n  [\n%s\n  ]\n" % (lean, render2(items, 4))) if items else "def %s : List Skel := []\n" % lean)
    out.append("end MuduoVerif.Gen.TzFileSkel")
    return "\n".join(out) + "\n"
