"""T1 for muduo::net::Buffer: constants and the five branch guards."""
import re

from ..extract import (HEADER, ExtractError, Tr, ast_dump, body_of, const_int, ctype, find_ifs, functions, if_cond, kids,
                       locate_if, locate_var, mentions, prop_def, the_function, unparen, walk)

NAME = "Buffer"


def locate_sites(docs, strict=True):
    """name of a generated guard / function -> the AST node (an `if` condition, `iovcnt`'s initialiser) it is translated
    from.  `generate` below translates exactly these nodes; vlib/gen/bufferskel.py names an `if` of a statement skeleton
    after the guard generated from that very node (clang's node id: both read the same cached AST dump).
    strict=False: a site that cannot be located is left out instead of stopping the extraction."""
    found = {}

    def site(name, f):
        try:
            found[name] = f()
        except ExtractError:
            if strict:
                raise
    site("retrieveKeeps", lambda: if_cond(locate_if(the_function(docs, "retrieve"), "len")))
    site("ensureNeedsSpace", lambda: if_cond(locate_if(the_function(docs, "ensureWritableBytes"), "len")))
    site("makeSpaceGrows", lambda: if_cond(locate_if(the_function(docs, "makeSpace"), "len")))
    site("readFdIovcnt", lambda: kids(locate_var(the_function(docs, "readFd"), "iovcnt"))[-1])

    def fits():
        # the `else if` that compares the (non-negative) count with the writable area
        c = [i for i in find_ifs(the_function(docs, "readFd")) if mentions(if_cond(i), "writable")]
        if not c:
            raise ExtractError("readFd: no comparison of n with writable")
        return if_cond(c[0])
    site("readFdFits", fits)
    return found


def generate():
    docs = ast_dump("muduo/net/Buffer.cc", "muduo::net::Buffer")
    consts = {"kCheapPrepend": "kCheapPrepend", "kInitialSize": "kInitialSize"}
    out = [HEADER % "muduo/net/Buffer.h, muduo/net/Buffer.cc", "namespace MuduoVerif.Gen.Buffer\n"]
    out.append("def kCheapPrepend : Nat := %d" % const_int(docs, "kCheapPrepend"))
    out.append("def kInitialSize : Nat := %d" % const_int(docs, "kInitialSize"))
    readfd = the_function(docs, "readFd")
    extrabuf = locate_var(readfd, "extrabuf")
    m = re.search(r"char\s*\[(\d+)\]", ctype(extrabuf))
    if not m:
        raise ExtractError("extrabuf is no longer a char array")
    out.append("def extrabufSize : Nat := %s\n" % m.group(1))
    # the spill area must belong to the call: a `static` one is shared by all io threads (another thread's readv
    # overwrites it between this thread's readv and its append)
    out.append("/-- `Buffer::readFd`: `extrabuf` has automatic storage (one per call) -/\ndef extrabufPerCall : Bool := %s\n"
               % ("false" if extrabuf.get("storageClass") in ("static", "extern") or extrabuf.get("tls") else "true"))

    # the line searches are hand-modelled as "first match inside [from, beginWrite())": that is what the code does as
    # long as it delegates to the library search over exactly that range
    def delegates(fn, callee, *must_mention):
        body = body_of(fn)
        if any(x.get("kind") in ("WhileStmt", "ForStmt", "DoStmt", "GotoStmt") for x in walk(body)):
            return False
        calls = [x for x in walk(body) if x.get("kind") == "CallExpr"
                 and any(y.get("kind") == "DeclRefExpr" and y.get("referencedDecl", {}).get("name") == callee for y in walk(kids(x)[0]))]
        return len(calls) == 1 and all(mentions(calls[0], m) for m in must_mention)
    crlfs = [f for f in functions(docs, "findCRLF") if body_of(f)]
    eols = [f for f in functions(docs, "findEOL") if body_of(f)]
    if len(crlfs) != 2 or len(eols) != 2:
        raise ExtractError("expected two overloads each of findCRLF and findEOL")
    out.append("/-- both `findCRLF` overloads are one `std::search(from, beginWrite(), kCRLF, kCRLF+2)`, no loop of their own -/\n"
               "def findCRLFIsSearch : Bool := %s\n" % ("true" if all(delegates(f, "search", "beginWrite", "kCRLF") for f in crlfs) else "false"))
    out.append("/-- both `findEOL` overloads are one `memchr` over the readable bytes (`readableBytes()` / `beginWrite() - start`) -/\n"
               "def findEOLIsMemchr : Bool := %s\n" % ("true" if all(delegates(f, "memchr") and (mentions(f, "readableBytes") or mentions(f, "beginWrite")) for f in eols) else "false"))

    loc = locate_sites(docs)
    t = Tr({"len": "len", "readableBytes()": "readable"}, consts)
    out.append(prop_def("retrieveKeeps", [("len", "Nat"), ("readable", "Nat")],
                        unparen(t.expr(loc["retrieveKeeps"])),
                        "`Buffer::retrieve`: the `if` that keeps part of the content"))
    t = Tr({"len": "len", "writableBytes()": "writable"}, consts)
    out.append(prop_def("ensureNeedsSpace", [("writable", "Nat"), ("len", "Nat")],
                        unparen(t.expr(loc["ensureNeedsSpace"])),
                        "`Buffer::ensureWritableBytes`: the `if` guarding `makeSpace`"))
    t = Tr({"len": "len", "writableBytes()": "writable", "prependableBytes()": "prependable"}, consts)
    out.append(prop_def("makeSpaceGrows", [("writable", "Nat"), ("prependable", "Nat"), ("len", "Nat")],
                        unparen(t.expr(loc["makeSpaceGrows"])),
                        "`Buffer::makeSpace`: grow the vector (true) or slide the content (false)"))
    t = Tr({"writable": "writable", "sizeof(extrabuf)": "extrabufSize"}, consts)
    out.append("/-- `Buffer::readFd`: `iovcnt` -/\ndef readFdIovcnt (writable : Nat) : Nat := %s\n"
               % unparen(t.expr(loc["readFdIovcnt"])))
    t = Tr({"writable": "writable", "n": "n"}, consts)
    out.append(prop_def("readFdFits", [("n", "Nat"), ("writable", "Nat")],
                        unparen(t.expr(loc["readFdFits"])),
                        "`Buffer::readFd`: everything fitted into the writable area"))
    out.append("end MuduoVerif.Gen.Buffer\n")
    return "\n".join(out)
