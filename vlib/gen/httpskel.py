"""T1 for the HTTP engine (property C18), second part - STATEMENT SKELETONS of `HttpContext::processRequestLine`,
`HttpContext::parseRequest` (muduo/net/http/HttpContext.cc) and of the `HttpRequest` setters they call
(muduo/net/http/HttpRequest.h: `setVersion`, `setMethod`, `setPath`, `setQuery`, `setReceiveTime`, `addHeader`), i.e.
of what Model/Http.lean implements, from clang's AST of /repo's current sources.

vlib/gen/http.py extracts the tables, separators, the guard on the request-target and which parse states have an arm.
What it does not see in general is the ORDER and NESTING of the statements: `retrieveUntil` before the line has been
processed, `state_ = kExpectHeaders` outside `if (ok)`, `hasMore = false` dropped from one arm, `setQuery` called on
both paths, the two independent tests `if (crlf)` / `if (colon != crlf)` merged, `addHeader` after `retrieveUntil`, the
trimming loops of `addHeader` swapped or turned into `if`s ...  This module walks each function body in source order
and emits

    Skel ::= act Act | ite <guard> <then> <else> | loop <guard> <body>

(vocabulary: lean/MuduoVerif/Model/HttpSkelDecl.lean; the walker is the one of vlib/gen/codecskel.py): every store
(`assign`: declaration with an initialiser, assignment, `++p` as the store of `p + 1`; `<result>` = the result of
the action just before), the setters of `request_` (`req`), `processRequestLine` (`call`), `buf->retrieveUntil`
(`bufOp`), mutating `std::string` operations (`strOp`: `assign`, `resize`), `headers_[k] = v` (`mapStore`), `assert`,
`return <value>`.  `while` is `loop <guard> <body>`; an `if` is named after the guard vlib/gen/http.py made from that
very condition (its registry `http.SITES`: `targetAccepted`), any other condition is printed.  The one action a
condition may perform is a setter of `request_` (`space != end && request_.setMethod(start, space)`): it precedes the
`ite`.  EVERY `if` is kept, also one whose branches are empty (`else if (state_ == kExpectBody) { }`: the arm the model
spins in).

Never guesses: see vlib/gen/codecskel.py.  IGNORED: casts, parentheses, temporaries (I2); declarations without an
initialiser (I3); `MUDUO_VERIF_POINT` and empty statements (I4).  `break` / `continue` are not in the vocabulary (the
loops of this engine leave through their guard only): one appearing stops the extraction.
"""
from ..extract import HEADER, ExtractError, ast_dump, body_of, ctype, functions, kids
from . import http
from .codecskel import (P_ATOM, SkelWalker, callee_name, deref, emit_function, lean_str, peel, peel_plain, short_type,
                        this_member, types_of)

NAME = "HttpSkel"

TU = "muduo/net/http/HttpContext.cc"
# (Lean name, class, C++ function) - HttpContext.cc in source order, then HttpRequest.h in source order
FUNCTIONS = [("processRequestLine", "HttpContext", "processRequestLine"), ("parseRequest", "HttpContext", "parseRequest"),
             ("setVersion", "HttpRequest", "setVersion"), ("setMethod", "HttpRequest", "setMethod"),
             ("setPath", "HttpRequest", "setPath"), ("setQuery", "HttpRequest", "setQuery"),
             ("setReceiveTime", "HttpRequest", "setReceiveTime"), ("addHeader", "HttpRequest", "addHeader")]

REQ_OPS = ("setMethod", "setPath", "setQuery", "setVersion", "addHeader", "setReceiveTime")
ENGINE_FNS = ("processRequestLine",)
PURE_FREE = ("find", "find_if", "equal", "isspace")
BUF_PURE = ("findCRLF", "peek", "readableBytes")
BUF_OPS = ("retrieveUntil",)
STRING_PURE = ("size", "empty", "length", "data", "c_str")
STRING_OPS = ("assign", "resize")
MAPS = ("headers_",)

FALLBACK_SITES = {"space != end && question != start && find_if(start, space, isControl) == space": "targetAccepted"}


def is_string(ty):
    return "basic_string" in ty or "std::string" in ty or "muduo::string" in ty or ty.strip() in ("string", "const string")


class HttpWalker(SkelWalker):
    COND_ACTS = (".req ",)
    VALUE_TYPES = ("string", "basic_string<", "Timestamp")
    DEFAULT_IGNORED = ()
    DEFAULT_VALUE = ()
    HAS_BREAK = False

    def classify(self, n):
        k = n.get("kind")
        nm = callee_name(n)
        if k == "CXXMemberCallExpr":
            callee = peel_plain(kids(n)[0])
            base = kids(callee)[0] if kids(callee) else None
            if base is None or peel_plain(base).get("kind") == "CXXThisExpr":
                if nm in ENGINE_FNS:
                    return "action", lambda a: ".call %s %s" % (lean_str(nm), lean_str(a))
                self.err("call of member function `%s` is not in the vocabulary" % nm)
            ty = types_of(base)
            obj = self.pp(deref(base), P_ATOM)
            if this_member(base) == "request_":
                if nm in REQ_OPS:
                    return "action", lambda a: ".req .%s %s" % (nm, lean_str(a))
                self.err("call of `%s` on `request_` is not in the vocabulary" % nm)
            if "Buffer" in ty:
                if nm in BUF_PURE:
                    return "value", None
                if nm in BUF_OPS:
                    return "action", lambda a: ".bufOp .%s %s %s" % (nm, lean_str(obj), lean_str(a))
                self.err("call of `%s` on the buffer `%s` is not in the vocabulary" % (nm, obj))
            if is_string(ty):
                if nm in STRING_PURE:
                    return "value", None
                if nm in STRING_OPS:
                    return "action", lambda a: ".strOp %s %s %s" % (lean_str(obj), lean_str(nm), lean_str(a))
            self.err("call of `%s` on `%s` is not in the vocabulary" % (nm, obj))
        if k == "CallExpr":
            if nm in PURE_FREE:
                return "value", None
            self.err("call of free function `%s` is not in the vocabulary" % nm)
        self.err("unexpected call node %s (%s)" % (k, nm))

    def check_value_op(self, n, op):
        if not all(is_string(types_of(a)) or "char" in ctype(peel(a)) for a in kids(n)[1:]):
            self.err("`%s` on something that is not a string" % op)

    def check_index(self, n):
        a = kids(n)[1]
        if not is_string(types_of(a)):
            self.err("`x[..]` on something that is not a string (on a map it may create an entry)")

    def store_act(self, lhs, value):
        l = peel(lhs)
        if l.get("kind") == "CXXOperatorCallExpr" and callee_name(l) == "operator[]" and len(kids(l)) == 3:
            m = this_member(kids(l)[1])
            if m not in MAPS:
                self.err("`x[..] = ..` on something that is not the header map")
            return ".mapStore %s %s %s" % (lean_str(m), lean_str(self.pp(kids(l)[2])), lean_str(value))
        return SkelWalker.store_act(self, lhs, value)


HEAD_DOC = """/-!
Statement skeletons of `HttpContext::processRequestLine` / `parseRequest` (HttpContext.cc) and of the `HttpRequest`
setters they call (HttpRequest.h), i.e. of what `Model/Http.lean` implements: the significant actions in source order -
every store (`assign`: declaration with an initialiser, assignment, `++p` as the store of `p + 1`; the value `<result>`
is the result of the action just before), the setters of `request_` (`req`), `processRequestLine` (`call`),
`buf->retrieveUntil` (`bufOp`), `path_.assign` / `value.resize` (`strOp`), `headers_[k] = v` (`mapStore`), `assert`,
`return <value>`.  `while` is `loop <guard> <body>`, `if` is `ite <guard> <then> <else>`; a guard is named after the
definition `Generated/Http.lean` took from that very condition (`targetAccepted`), any other condition is printed.
Expressions are canonical prints (casts dropped, `->` as `.`, minimal parentheses).  The one action a condition may
perform is a setter of `request_` (`space != end && request_.setMethod(start, space)`): it precedes the `ite`.  Every
`if` is kept, also one with empty branches (`else if (state_ == kExpectBody) { }`).
`Proofs/HttpSkelTie.lean` proves each one equal to the skeleton the model implements (`Model/HttpSkelDecl.lean`).

Not part of a skeleton:
* I2 casts of every kind, parentheses, temporaries;
* I3 declarations of locals without an initialiser;
* I4 `MUDUO_VERIF_POINT` (an empty `do { } while (0)`) and empty statements.
Value getters (`findCRLF`, `peek` of the `Buffer`; `std::find`, `std::find_if`, `std::equal`, `isspace`; `size`,
`empty`, `[i]`, `==` of a string) are not actions of their own - they appear inside the printed value that uses them;
every other call, construction or statement kind (`break` and `continue` included) must be in the vocabulary or the
extraction fails.
-/
"""


def generate():
    fallback = False
    try:
        http.generate()         # fills http.SITES for the tree as it is now (same cached AST dump)
    except ExtractError:
        fallback = True         # reported by the engine "Http" itself
    docs = ast_dump(TU, "muduo::net::Http")
    out = [HEADER % "muduo/net/http/HttpContext.cc, HttpRequest.h", "import MuduoVerif.Model.HttpSkelDecl\n", HEAD_DOC,
           "namespace MuduoVerif.Gen.HttpSkel", "open MuduoVerif.HttpSkel\n"]
    for lean, cls, cxx in FUNCTIONS:
        fs = functions(docs, cxx, kinds=("CXXMethodDecl",))
        if len(fs) != 1:
            raise ExtractError("expected exactly one definition of %s::%s, found %d" % (cls, cxx, len(fs)))
        fn = fs[0]
        w = HttpWalker("%s::%s" % (cls, cxx), lambda c: http.SITES.get(c.get("id")), FALLBACK_SITES if fallback else None)
        items = []
        w.stmt(body_of(fn), items)
        ptypes = [short_type(ctype(k)) + ("*" if ctype(k).rstrip().endswith("*") else "") for k in kids(fn) if k.get("kind") == "ParmVarDecl"]
        emit_function(out, lean, "`%s::%s(%s)`" % (cls, cxx, ", ".join(ptypes)), items)
    out.append("end MuduoVerif.Gen.HttpSkel")
    return "\n".join(out) + "\n"
