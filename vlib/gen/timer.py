"""T1 for the timer engine (TimerQueue.cc, Timer.cc/h, Timestamp.h): constants, the small integer
functions (howMuchTimeFromNow incl. its floor, addTime, Timer::restart), the sentinel of getExpired,
and every branch guard of insert / addTimerInLoop / cancelInLoop / reset, plus the order of the
sequence read and the hand-over in addTimer (fix 0550046)."""
from ..extract import (HEADER, ExtractError, Tr, ast_dump, body_of, const_int, find_ifs, if_cond, kids, locate_var,
                       prop_def, strip, the_function, unparen, walk)

NAME = "Timer"

# clang node id of an `if` condition -> name of the guard generated from it.  Filled by `generate()`; read by
# vlib/gen/timerskel.py, which names the branches of its statement skeletons after the guards located here.
SITES = {}


# ----------------------------------------------------------------------------- canonical keys of leaves
def ckey(n):
    """C-like canonical text of a small expression (iterators, member calls, copies of Timestamps);
    used to look a leaf of a guard up in the site's symbol map.  Unknown shapes -> ExtractError."""
    n = strip(n)
    k = n.get("kind")
    if k == "DeclRefExpr":
        return n["referencedDecl"]["name"]
    if k == "CXXThisExpr":
        return "this"
    if k == "IntegerLiteral":
        return str(int(n["value"]))
    if k == "MemberExpr":
        ks = kids(n)
        if not ks or strip(ks[0]).get("kind") == "CXXThisExpr":
            return n["name"]
        return ckey(ks[0]) + ("->" if n.get("isArrow") else ".") + n["name"]
    if k == "CXXMemberCallExpr":
        ks = kids(n)
        return ckey(ks[0]) + "(" + ",".join(ckey(a) for a in ks[1:]) + ")"
    if k == "CallExpr":
        ks = kids(n)
        return ckey(ks[0]) + "(" + ",".join(ckey(a) for a in ks[1:]) + ")"
    if k in ("CXXConstructExpr", "CXXFunctionalCastExpr", "CXXTemporaryObjectExpr") and len(kids(n)) == 1:
        return ckey(kids(n)[0])           # copy / conversion of one value
    if k == "ImplicitCastExpr":          # conversions do not change which object / value a leaf names
        return ckey(kids(n)[0])
    if k == "CXXOperatorCallExpr":
        ks = kids(n)
        op = strip(ks[0])["referencedDecl"]["name"]
        if op == "operator->" and len(ks) == 2:
            return ckey(ks[1])            # it->x  is keyed as  it->x  through the MemberExpr above
        if op.startswith("operator") and len(ks) == 3:
            return "%s %s %s" % (ckey(ks[1]), op[len("operator"):], ckey(ks[2]))
    if k == "CStyleCastExpr" or k == "CXXReinterpretCastExpr":
        return "cast(" + ckey(kids(n)[0]) + ")"
    raise ExtractError("timer extractor: unsupported leaf %s" % k)


def guard(n, sym, used):
    """boolean structure (&&, ||, !) over leaves that the symbol map names"""
    n = strip(n)
    k = n.get("kind")
    if k == "BinaryOperator" and n.get("opcode") in ("&&", "||"):
        a, b = kids(n)
        return "(%s %s %s)" % (guard(a, sym, used), "∧" if n["opcode"] == "&&" else "∨", guard(b, sym, used))
    if k == "UnaryOperator" and n.get("opcode") == "!":
        return "¬ (%s)" % guard(kids(n)[0], sym, used)
    key = ckey(n)
    if key not in sym:
        raise ExtractError("timer extractor: guard leaf `%s` is not in the symbol map of this site" % key)
    used.add(key)
    return sym[key]


def stmts(fn):
    return kids(body_of(fn))


def single_stmt(n):
    """the one statement of a compound (or the statement itself)"""
    if n.get("kind") == "CompoundStmt":
        ks = kids(n)
        if len(ks) != 1:
            raise ExtractError("timer extractor: expected a single statement in a branch")
        return ks[0]
    return n


def assignment(n):
    """(lhs key, rhs node) of `a = b` (built-in or a Timestamp copy assignment)"""
    n = strip(n)
    if n.get("kind") == "BinaryOperator" and n.get("opcode") == "=":
        l, r = kids(n)
        return ckey(l), r
    if n.get("kind") == "CXXOperatorCallExpr":
        ks = kids(n)
        if strip(ks[0])["referencedDecl"]["name"] == "operator=":
            return ckey(ks[1]), ks[2]
    raise ExtractError("timer extractor: expected an assignment")


def init_of(var):
    ks = kids(var)
    if not ks:
        raise ExtractError("variable %s has no initialiser" % var.get("name"))
    return ks[-1]


def generate():
    SITES.clear()
    out = [HEADER % "muduo/net/TimerQueue.cc, muduo/net/Timer.cc, muduo/net/Timer.h, muduo/base/Timestamp.h",
           "namespace MuduoVerif.Gen.Timer\n"]
    # ---------------- constants
    tdocs = ast_dump("muduo/net/TimerQueue.cc", "muduo::Timestamp")
    kus = const_int(tdocs, "kMicroSecondsPerSecond")
    out.append("/-- `Timestamp::kMicroSecondsPerSecond` -/\ndef kMicroSecondsPerSecond : Int := %d\n" % kus)
    consts = {"kMicroSecondsPerSecond": "kMicroSecondsPerSecond"}
    valid = the_function(tdocs, "valid")
    ret = [s for s in stmts(valid) if s.get("kind") == "ReturnStmt"]
    if len(ret) != 1:
        raise ExtractError("Timestamp::valid changed shape")
    t = Tr({"microSecondsSinceEpoch_": "us"}, consts, int_mode=True)
    out.append(prop_def("timestampValid", [("us", "Int")], unparen(t.expr(kids(ret[0])[0])), "`Timestamp::valid()`"))
    inv = the_function(tdocs, "invalid")
    r = [s for s in stmts(inv) if s.get("kind") == "ReturnStmt"]
    # `return Timestamp();` -- the default constructor's value
    ctor = [n for d in tdocs for n in walk(d) if n.get("kind") == "CXXConstructorDecl" and n.get("name") == "Timestamp"
            and not [p for p in kids(n) if p["kind"] == "ParmVarDecl"] and body_of(n) is not None]
    if len(r) != 1 or len(ctor) != 1:
        raise ExtractError("Timestamp::invalid / Timestamp() changed shape")
    inits = [c for c in kids(ctor[0]) if c.get("kind") == "CXXCtorInitializer"
             and c.get("anyInit", {}).get("name") == "microSecondsSinceEpoch_"]
    if len(inits) != 1 or strip(kids(inits[0])[0]).get("kind") != "IntegerLiteral":
        raise ExtractError("Timestamp() no longer initialises its field with a literal")
    out.append("/-- `Timestamp::invalid()` = `Timestamp()` -/\ndef timestampInvalid : Int := %d\n"
               % int(strip(kids(inits[0])[0])["value"]))

    # ---------------- addTime (the double product is the caller's integer `delta`)
    adocs = ast_dump("muduo/net/TimerQueue.cc", "muduo::addTime")
    at = the_function(adocs, "addTime")
    delta = locate_var(at, "delta")
    prod = init_of(delta)
    # static_cast<int64_t>(seconds * kMicroSecondsPerSecond)
    shape = [x.get("kind") for x in walk(prod)]
    mul = [x for x in walk(prod) if x.get("kind") == "BinaryOperator"]
    if (len(mul) != 1 or mul[0].get("opcode") != "*" or "FloatingToIntegral" not in [x.get("castKind") for x in walk(prod)]
            or sorted(ckey(a) for a in kids(mul[0])) != ["kMicroSecondsPerSecond", "seconds"]):
        raise ExtractError("addTime: delta is no longer (int64_t)(seconds * kMicroSecondsPerSecond): %s" % shape)
    ret = [s for s in stmts(at) if s.get("kind") == "ReturnStmt"]
    t = Tr({"timestamp.microSecondsSinceEpoch()": "timestamp", "delta": "delta"}, consts, int_mode=True)
    inner = strip(kids(ret[0])[0])
    while inner.get("kind") in ("CXXConstructExpr", "CXXFunctionalCastExpr", "CXXTemporaryObjectExpr") and len(kids(inner)) == 1:
        inner = strip(kids(inner)[0])
    out.append("/-- `addTime(timestamp, seconds)` with `delta = (int64_t)(seconds * kMicroSecondsPerSecond)` supplied "
               "as an integer -/\ndef addTime (timestamp : Int) (delta : Int) : Int := %s\n" % unparen(t.expr(inner)))

    # ---------------- howMuchTimeFromNow
    hdocs = ast_dump("muduo/net/TimerQueue.cc", "muduo::net::detail::howMuchTimeFromNow")
    hm = the_function(hdocs, "howMuchTimeFromNow")
    ss = stmts(hm)
    t = Tr({"when.microSecondsSinceEpoch()": "when", "now().microSecondsSinceEpoch()": "now",
            "microseconds": "microseconds"}, consts, int_mode=True)
    us0 = t.expr(init_of(locate_var(hm, "microseconds")))
    ifs = find_ifs(hm)
    if len(ifs) != 1 or len(kids(ifs[0])) != 2:
        raise ExtractError("howMuchTimeFromNow: expected exactly one `if` without else (the floor)")
    cond = t.expr(if_cond(ifs[0]))
    lhs, rhs = assignment(single_stmt(kids(ifs[0])[1]))
    if lhs != "microseconds":
        raise ExtractError("howMuchTimeFromNow: the floor no longer assigns `microseconds`")
    floor = t.expr(rhs)
    sec = nsec = None
    for s in ss:
        s = strip(s)
        if s.get("kind") == "BinaryOperator" and s.get("opcode") == "=":
            l, r = assignment(s)
            if l == "ts.tv_sec":
                sec = t.expr(r)
            elif l == "ts.tv_nsec":
                nsec = t.expr(r)
    if sec is None or nsec is None:
        raise ExtractError("howMuchTimeFromNow: tv_sec / tv_nsec assignments not found")
    # statement order: declaration, floor, then the two field assignments
    order = [s.get("kind") for s in ss]
    if order[:2] != ["DeclStmt", "IfStmt"]:
        raise ExtractError("howMuchTimeFromNow: statement order changed: %s" % order)
    out.append("/-- `detail::howMuchTimeFromNow(when)`: the relative time in microseconds after the floor; "
               "`now` is the clock reading it makes -/\n"
               "def howMuchUs (when : Int) (now : Int) : Int :=\n  let microseconds := %s\n"
               "  let microseconds := if %s then %s else microseconds\n  microseconds\n" % (unparen(us0), unparen(cond), floor))
    out.append("/-- the `timespec` it returns: (tv_sec, tv_nsec) -/\n"
               "def howMuchTimeFromNow (when : Int) (now : Int) : Int × Int :=\n  let microseconds := howMuchUs when now\n"
               "  (%s, %s)\n" % (unparen(sec), unparen(nsec)))

    # ---------------- Timer::restart, Timer::Timer
    rdocs = ast_dump("muduo/net/Timer.cc", "muduo::net::Timer")
    rs = the_function(rdocs, "restart")
    ifs = find_ifs(rs)
    if len(ifs) != 1 or len(kids(ifs[0])) != 3:
        raise ExtractError("Timer::restart: expected one if/else")
    c = guard(if_cond(ifs[0]), {"repeat_": "repeat_"}, set())
    l1, r1 = assignment(single_stmt(kids(ifs[0])[1]))
    l2, r2 = assignment(single_stmt(kids(ifs[0])[2]))
    if l1 != "expiration_" or l2 != "expiration_":
        raise ExtractError("Timer::restart no longer assigns expiration_ in both branches")
    vals = {"addTime(now,interval_)": "addTime now delta", "invalid()": "timestampInvalid"}
    k1, k2 = ckey(r1), ckey(r2)
    if k1 not in vals or k2 not in vals:
        raise ExtractError("Timer::restart: unexpected right-hand sides `%s`, `%s`" % (k1, k2))
    out.append("/-- `Timer::restart(now)`: the new `expiration_` (`delta` = the truncated `interval_` in microseconds) -/\n"
               "def restart (repeat_ : Bool) (now : Int) (delta : Int) : Int := if %s then %s else %s\n"
               % (unparen(c), vals[k1], vals[k2]))
    ctor = [n for d in rdocs for n in walk(d) if n.get("kind") == "CXXConstructorDecl" and n.get("name") == "Timer"
            and body_of(n) is not None]
    if len(ctor) != 1:
        raise ExtractError("Timer constructor not found")
    rep = None
    seqinit = None
    for ci in [c for c in kids(ctor[0]) if c.get("kind") == "CXXCtorInitializer"]:
        nm = ci.get("anyInit", {}).get("name")
        if nm == "repeat_":
            e = strip(kids(ci)[0])
            if (e.get("kind") == "BinaryOperator" and e.get("opcode") == ">" and ckey(kids(e)[0]) == "interval"
                    and strip(kids(e)[1]).get("kind") == "FloatingLiteral" and float(strip(kids(e)[1])["value"]) == 0.0):
                rep = "intervalPositive"
        if nm == "sequence_":
            seqinit = ckey(kids(ci)[0])
    if rep is None:
        raise ExtractError("Timer::Timer: repeat_ is no longer initialised with `interval > 0.0`")
    if seqinit != "s_numCreated_.incrementAndGet()":
        raise ExtractError("Timer::Timer: sequence_ is no longer s_numCreated_.incrementAndGet() (%s)" % seqinit)
    out.append("/-- `Timer::Timer`: `repeat_(interval > 0.0)` -/\ndef timerRepeats (intervalPositive : Bool) : Bool := %s\n" % rep)
    out.append("/-- `Timer::Timer`: `sequence_(s_numCreated_.incrementAndGet())` -/\n"
               "def nextSequence (numCreated : Nat) : Nat := numCreated + 1\n")

    # ---------------- TimerQueue
    docs = ast_dump("muduo/net/TimerQueue.cc", "muduo::net::TimerQueue")
    # getExpired: Entry sentry(now, reinterpret_cast<Timer*>(UINTPTR_MAX)); end = timers_.lower_bound(sentry)
    ge = the_function(docs, "getExpired")
    sentry = locate_var(ge, "sentry")
    args = kids(strip(init_of(sentry))) if strip(init_of(sentry)).get("kind") == "CXXConstructExpr" else None
    if not args or len(args) != 2 or ckey(args[0]) != "now":
        raise ExtractError("getExpired: sentry is no longer Entry(now, <pointer>)")
    lit = [x for x in walk(args[1]) if x.get("kind") == "IntegerLiteral"]
    casts = [x for x in walk(args[1]) if x.get("kind") == "CXXReinterpretCastExpr"]
    if len(lit) != 1 or len(casts) != 1:
        raise ExtractError("getExpired: the sentinel pointer is no longer reinterpret_cast<Timer*>(<literal>)")
    out.append("/-- `getExpired`: the sentinel pointer of `Entry sentry(now, reinterpret_cast<Timer*>(UINTPTR_MAX))` -/\n"
               "def sentinelAddr : Nat := %d\n" % int(lit[0]["value"]))
    end = locate_var(ge, "end")
    if ckey(init_of(end)) != "timers_.lower_bound(sentry)":
        raise ExtractError("getExpired: `end` is no longer timers_.lower_bound(sentry) (%s)" % ckey(init_of(end)))
    out.append("/-- `getExpired`: an entry `(exp, addr)` is taken iff it is ordered before the sentry `(now, sentinelAddr)` "
               "(`lower_bound`, lexicographic `std::pair` order) -/\n"
               "def entryExpired (exp : Int) (addr : Nat) (now : Int) : Prop := exp < now ∨ (exp = now ∧ addr < sentinelAddr)\n"
               "instance : Decidable (entryExpired exp addr now) := by unfold entryExpired; infer_instance\n")

    # insert: earliest-changed test
    ins = the_function(docs, "insert")
    if ckey(init_of(locate_var(ins, "it"))) != "timers_.begin()" or ckey(init_of(locate_var(ins, "when"))) != "timer->expiration()":
        raise ExtractError("insert: `it`/`when` are no longer timers_.begin() / timer->expiration()")
    ifs = find_ifs(ins)
    if len(ifs) != 1:
        raise ExtractError("insert: expected exactly one `if`")
    l, r = assignment(single_stmt(kids(ifs[0])[1]))
    if l != "earliestChanged" or strip(r).get("kind") != "CXXBoolLiteralExpr" or not strip(r)["value"]:
        raise ExtractError("insert: the `if` no longer sets earliestChanged = true")
    if strip(init_of(locate_var(ins, "earliestChanged"))).get("value") is not False:
        raise ExtractError("insert: earliestChanged is no longer initialised with false")
    used = set()
    g = guard(if_cond(ifs[0]), {"it == timers_.end()": "empty", "when < it->first": "when < first"}, used)
    SITES[if_cond(ifs[0]).get("id")] = "insertEarliestChanged"
    out.append(prop_def("insertEarliestChanged", [("empty", "Bool"), ("when", "Int"), ("first", "Int")], unparen(g),
                        "`TimerQueue::insert`: the new timer becomes the earliest one (`first` = deadline of `timers_.begin()`)"))

    # addTimerInLoop: re-arm iff earliestChanged
    ail = the_function(docs, "addTimerInLoop")
    ifs = find_ifs(ail)
    if len(ifs) != 1 or ckey(init_of(locate_var(ail, "earliestChanged"))) != "insert(timer)":
        raise ExtractError("addTimerInLoop: expected `bool earliestChanged = insert(timer)` and one `if`")
    body = single_stmt(kids(ifs[0])[1])
    if ckey(body) != "resetTimerfd(timerfd_,timer->expiration())":
        raise ExtractError("addTimerInLoop: the `if` no longer calls resetTimerfd(timerfd_, timer->expiration()): %s" % ckey(body))
    g = guard(if_cond(ifs[0]), {"earliestChanged": "earliestChanged"}, set())
    SITES[if_cond(ifs[0]).get("id")] = "addRearms"
    out.append(prop_def("addRearms", [("earliestChanged", "Bool")], unparen(g),
                        "`TimerQueue::addTimerInLoop`: call `resetTimerfd(timerfd_, timer->expiration())`"))

    # cancelInLoop: if (it != activeTimers_.end()) {...} else if (callingExpiredTimers_) {...}
    cil = the_function(docs, "cancelInLoop")
    if ckey(init_of(locate_var(cil, "it"))) != "activeTimers_.find(timer)":
        raise ExtractError("cancelInLoop: `it` is no longer activeTimers_.find(timer)")
    targs = kids(strip(init_of(locate_var(cil, "timer"))))
    if [ckey(a) for a in targs] != ["timerId.timer_", "timerId.sequence_"]:
        raise ExtractError("cancelInLoop: the key is no longer (timerId.timer_, timerId.sequence_)")
    top = [s for s in stmts(cil) if s.get("kind") == "IfStmt"]
    if len(top) != 1 or len(kids(top[0])) != 3 or kids(top[0])[2].get("kind") != "IfStmt" or len(kids(kids(top[0])[2])) != 2:
        raise ExtractError("cancelInLoop: expected `if (found) {..} else if (calling) {..}`")
    g1 = guard(if_cond(top[0]), {"it != activeTimers_.end()": "found"}, set())
    g2 = guard(if_cond(kids(top[0])[2]), {"callingExpiredTimers_": "calling"}, set())
    SITES[if_cond(top[0]).get("id")] = "cancelErases"
    SITES[if_cond(kids(top[0])[2]).get("id")] = "cancelRemembers"      # the `else if`: reached with ¬ found
    out.append(prop_def("cancelErases", [("found", "Bool")], unparen(g1),
                        "`TimerQueue::cancelInLoop`: the (pointer, sequence) pair is in `activeTimers_`: erase from both sets and delete"))
    out.append(prop_def("cancelRemembers", [("found", "Bool"), ("calling", "Bool")], "¬ (%s) ∧ %s" % (unparen(g1), g2),
                        "`TimerQueue::cancelInLoop`: the `else if`: remember the pair in `cancelingTimers_`"))
    erase_body = [ckey(s) for s in kids(kids(top[0])[1]) if s.get("kind") in ("CXXMemberCallExpr",)]
    rem = single_stmt(kids(kids(top[0])[2])[1])
    if ckey(rem) != "cancelingTimers_.insert(timer)":
        raise ExtractError("cancelInLoop: the else-branch no longer inserts into cancelingTimers_ (%s)" % ckey(rem))
    dels = [x for x in walk(kids(top[0])[1]) if x.get("kind") == "CXXDeleteExpr"]
    if len(dels) != 1 or "activeTimers_.erase(it)" not in erase_body:
        raise ExtractError("cancelInLoop: the erase branch changed (delete / activeTimers_.erase(it))")

    # reset: restart test, re-arm test
    rst = the_function(docs, "reset")
    ifs = find_ifs(rst)
    if len(ifs) != 3:
        raise ExtractError("reset: expected three `if`s, found %d" % len(ifs))
    tk = kids(strip(init_of(locate_var(rst, "timer"))))
    if [ckey(a) for a in tk] != ["it.second", "it.second->sequence()"]:
        raise ExtractError("reset: the key is no longer (it.second, it.second->sequence())")
    g = guard(if_cond(ifs[0]), {"it.second->repeat()": "repeat_",
                                "cancelingTimers_.find(timer) == cancelingTimers_.end()": "¬ (cancelled)"}, set())
    SITES[if_cond(ifs[0]).get("id")] = "resetRestarts"
    out.append(prop_def("resetRestarts", [("repeat_", "Bool"), ("cancelled", "Bool")], unparen(g),
                        "`TimerQueue::reset`: restart and re-insert (true) or delete (false); `cancelled` = the pair is in `cancelingTimers_`"))
    thenb = [ckey(s) for s in kids(kids(ifs[0])[1])]
    if thenb != ["it.second->restart(now)", "insert(it.second)"]:
        raise ExtractError("reset: the restart branch changed: %s" % thenb)
    if len([x for x in walk(kids(ifs[0])[2]) if x.get("kind") == "CXXDeleteExpr"]) != 1:
        raise ExtractError("reset: the else branch no longer deletes the timer")
    g = guard(if_cond(ifs[1]), {"timers_.empty()": "empty"}, set())
    SITES[if_cond(ifs[1]).get("id")] = "resetHasNext"
    l, r = assignment(single_stmt(kids(ifs[1])[1]))
    if l != "nextExpire" or ckey(r) != "timers_.begin()->second->expiration()":
        raise ExtractError("reset: nextExpire is no longer timers_.begin()->second->expiration()")
    out.append(prop_def("resetHasNext", [("empty", "Bool")], unparen(g), "`TimerQueue::reset`: `if (!timers_.empty())`"))
    g = guard(if_cond(ifs[2]), {"nextExpire.valid()": "timestampValid nextExpire"}, set())
    SITES[if_cond(ifs[2]).get("id")] = "resetRearms"
    if ckey(single_stmt(kids(ifs[2])[1])) != "resetTimerfd(timerfd_,nextExpire)":
        raise ExtractError("reset: the last `if` no longer calls resetTimerfd(timerfd_, nextExpire)")
    out.append(prop_def("resetRearms", [("nextExpire", "Int")], unparen(g),
                        "`TimerQueue::reset`: re-arm for the earliest remaining timer (`nextExpire` is `Timestamp()` when none)"))

    # handleRead: order of the steps
    hr = the_function(docs, "handleRead")
    seq = []
    for s in stmts(hr):
        try:
            if strip(s).get("kind") == "BinaryOperator" and strip(s).get("opcode") == "=":
                l, r = assignment(s)
                seq.append("%s = %s" % (l, "true" if strip(r).get("value") is True else "false" if strip(r).get("value") is False else ckey(r)))
            else:
                seq.append(ckey(s))
        except (ExtractError, KeyError, IndexError):
            seq.append(s.get("kind"))
    want = ["loop_->assertInLoopThread()", "DeclStmt", "readTimerfd(timerfd_,now)", "DeclStmt", "callingExpiredTimers_ = true",
            "cancelingTimers_.clear()", "CXXForRangeStmt", "callingExpiredTimers_ = false", "reset(expired,now)"]
    if seq != want:
        raise ExtractError("handleRead: the sequence of steps changed: %s" % seq)

    # addTimer: is the timer dereferenced after it was handed to the loop?  (F4, fix 0550046)
    adt = the_function(docs, "addTimer")
    ss = stmts(adt)
    hand = [i for i, s in enumerate(ss) if any(x.get("kind") == "MemberExpr" and x.get("name") in ("runInLoop", "queueInLoop")
                                                for x in walk(s))]
    if len(hand) != 1:
        raise ExtractError("addTimer: expected exactly one hand-over (runInLoop/queueInLoop)")

    def derefs(s):
        return [x for x in walk(s) if x.get("kind") == "MemberExpr" and x.get("isArrow") and kids(x)
                and strip(kids(x)[0]).get("kind") == "DeclRefExpr" and strip(kids(x)[0])["referencedDecl"]["name"] == "timer"]
    before = any(derefs(s) and any(x.get("name") == "sequence" for x in derefs(s)) for s in ss[:hand[0]])
    after = any(derefs(s) for s in ss[hand[0] + 1:])
    if not before and not after:
        raise ExtractError("addTimer: the sequence number is read nowhere")
    out.append("/-- `TimerQueue::addTimer`: the new `Timer` is dereferenced after it was handed to the loop "
               "(the loop thread may already have run and deleted it) -/\n"
               "def addTimerDerefsAfterHandOver : Bool := %s\n" % ("true" if after else "false"))
    out.append("end MuduoVerif.Gen.Timer\n")
    return "\n".join(out)
