"""T1 for the timer engine (TimerQueue.cc, Timer.cc/h, Timestamp.h): constants, the small integer
functions (howMuchTimeFromNow incl. its floor, addTime, Timer::restart), the sentinel of getExpired,
and every branch guard of insert / addTimerInLoop / cancelInLoop / reset, plus the order of the
sequence read and the hand-over in addTimer (fix 0550046)."""
import re
from fractions import Fraction

from ..extract import (HEADER, ExtractError, Tr, ast_dump, body_of, const_int, find_ifs, if_cond, kids, locate_var,
                       prop_def, strip, the_function, unparen, walk)

NAME = "Timer"

# clang node id of an `if` condition -> name of the guard generated from it.  Filled by `generate()`; read by
# vlib/gen/timerskel.py, which names the branches of its statement skeletons after the guards located here.
SITES = {}


# ----------------------------------------------------------------------------- canonical keys of leaves
def ckey(n):
    """C-like canonical text of a small expression (iterators, member calls, copies of Timestamps);
    used to look a leaf of a guard up in the site's symbol map.  Unknown shapes -> ExtractError."""
    n = strip(n)
    k = n.get("kind")
    if k == "DeclRefExpr":
        return n["referencedDecl"]["name"]
    if k == "CXXThisExpr":
        return "this"
    if k == "IntegerLiteral":
        return str(int(n["value"]))
    if k == "MemberExpr":
        ks = kids(n)
        if not ks or strip(ks[0]).get("kind") == "CXXThisExpr":
            return n["name"]
        return ckey(ks[0]) + ("->" if n.get("isArrow") else ".") + n["name"]
    if k == "CXXMemberCallExpr":
        ks = kids(n)
        return ckey(ks[0]) + "(" + ",".join(ckey(a) for a in ks[1:]) + ")"
    if k == "CallExpr":
        ks = kids(n)
        return ckey(ks[0]) + "(" + ",".join(ckey(a) for a in ks[1:]) + ")"
    if k in ("CXXConstructExpr", "CXXFunctionalCastExpr", "CXXTemporaryObjectExpr") and len(kids(n)) == 1:
        return ckey(kids(n)[0])           # copy / conversion of one value
    if k == "ImplicitCastExpr":          # conversions do not change which object / value a leaf names
        return ckey(kids(n)[0])
    if k == "CXXOperatorCallExpr":
        ks = kids(n)
        op = strip(ks[0])["referencedDecl"]["name"]
        if op == "operator->" and len(ks) == 2:
            return ckey(ks[1])            # it->x  is keyed as  it->x  through the MemberExpr above
        if op.startswith("operator") and len(ks) == 3:
            return "%s %s %s" % (ckey(ks[1]), op[len("operator"):], ckey(ks[2]))
    if k == "CStyleCastExpr" or k == "CXXReinterpretCastExpr":
        return "cast(" + ckey(kids(n)[0]) + ")"
    raise ExtractError("timer extractor: unsupported leaf %s" % k)


def guard(n, sym, used):
    """boolean structure (&&, ||, !) over leaves that the symbol map names"""
    n = strip(n)
    k = n.get("kind")
    if k == "BinaryOperator" and n.get("opcode") in ("&&", "||"):
        a, b = kids(n)
        return "(%s %s %s)" % (guard(a, sym, used), "∧" if n["opcode"] == "&&" else "∨", guard(b, sym, used))
    if k == "UnaryOperator" and n.get("opcode") == "!":
        return "¬ (%s)" % guard(kids(n)[0], sym, used)
    key = ckey(n)
    if key not in sym:
        raise ExtractError("timer extractor: guard leaf `%s` is not in the symbol map of this site" % key)
    used.add(key)
    return sym[key]


def stmts(fn):
    return kids(body_of(fn))


def single_stmt(n):
    """the one statement of a compound (or the statement itself)"""
    if n.get("kind") == "CompoundStmt":
        ks = kids(n)
        if len(ks) != 1:
            raise ExtractError("timer extractor: expected a single statement in a branch")
        return ks[0]
    return n


def assignment(n):
    """(lhs key, rhs node) of `a = b` (built-in or a Timestamp copy assignment)"""
    n = strip(n)
    if n.get("kind") == "BinaryOperator" and n.get("opcode") == "=":
        l, r = kids(n)
        return ckey(l), r
    if n.get("kind") == "CXXOperatorCallExpr":
        ks = kids(n)
        if strip(ks[0])["referencedDecl"]["name"] == "operator=":
            return ckey(ks[1]), ks[2]
    raise ExtractError("timer extractor: expected an assignment")


def init_of(var):
    ks = kids(var)
    if not ks:
        raise ExtractError("variable %s has no initialiser" % var.get("name"))
    return ks[-1]


# ----------------------------------------------------------------------------- typed arithmetic (C integer widths, doubles)
# The small arithmetic functions (addTime, howMuchTimeFromNow) are translated with the C type of every
# intermediate value, taken from the clang AST:
#   * an operation or conversion whose C type is a 32-bit integer is wrapped (`wrapI32` = Int.bmod _ 2^32: the value
#     g++ computes on x86-64; the overflow itself is formally undefined) - so `int * int` widened afterwards is NOT the
#     exact product;
#   * 64-bit operations are exact integers in the definitions the model uses (microseconds since the epoch stay inside
#     int64_t until the year 294247); a second, "machine" variant `...W` of each function wraps them too (`wrapI64`), and
#     Props/C06.lean proves that the two agree on the whole int64 range (addTime_exact_in_range, arm_exact_in_range);
#   * a `double` is an exact rational `num / den` (`num` a Lean Int term, `den` a positive literal known here): the
#     `seconds` argument of addTime stands for `us / 10^6` with `us` the integer handed to the model, + - * and
#     comparisons are exact, a conversion to an integer type truncates towards zero (Int.tdiv) and wraps to the width of
#     the target.  That double arithmetic agrees with this on the values used is the stated, trusted part (the harness
#     refuses delays for which the unchanged code's double product is not the integer: `inexact-interval`).
INT_TYPES = {
    "int": (32, True), "unsigned int": (32, False), "long": (64, True), "unsigned long": (64, False),
    "long long": (64, True), "unsigned long long": (64, False),
}


def _ty(n):
    t = n.get("type", {})
    q = t.get("desugaredQualType") or t.get("qualType", "")
    q = re.sub(r"\b(const|volatile)\b", "", q).strip()
    return re.sub(r"\s+", " ", q)


def tstrip(n):
    """skip nodes that change neither value nor type"""
    while True:
        k = n.get("kind")
        if k in ("ParenExpr", "ExprWithCleanups", "MaterializeTemporaryExpr", "CXXBindTemporaryExpr", "ConstantExpr"):
            n = kids(n)[0]
        elif k in ("ImplicitCastExpr", "CStyleCastExpr", "CXXStaticCastExpr", "CXXFunctionalCastExpr") and \
                n.get("castKind") in ("LValueToRValue", "NoOp"):
            n = kids(n)[0]
        else:
            return n


class I:      # integer value: Lean Int term + C width/signedness
    def __init__(self, text, bits, signed):
        self.text, self.bits, self.signed = text, bits, signed


class F:      # double value: num / den, den a positive Python int
    def __init__(self, num, den):
        self.num, self.den = num, den


class B:      # truth value (Lean Prop)
    def __init__(self, text):
        self.text = text


def _mul(t, k):
    return t if k == 1 else "(%s * %d)" % (t, k)


class TTr:
    """typed expression translator; `sym`: canonical key (ckey) -> I/F value; `machine`: wrap 64-bit results as well"""

    def __init__(self, sym, machine=False):
        self.sym, self.machine = dict(sym), machine

    def wrap(self, text, bits, signed):
        if bits == 64 and not self.machine:
            return text
        return "(wrap%s%d %s)" % ("I" if signed else "U", bits, text)

    def int_type(self, n):
        t = _ty(n)
        if t not in INT_TYPES:
            raise ExtractError("typed translator: integer type `%s` is not supported" % t)
        return INT_TYPES[t]

    def val(self, n):
        n = tstrip(n)
        k = n.get("kind")
        if k == "IntegerLiteral":
            bits, signed = self.int_type(n)
            return I(str(int(n["value"])), bits, signed)
        if k == "FloatingLiteral":
            if _ty(n) != "double":
                raise ExtractError("typed translator: floating type `%s`" % _ty(n))
            fr = Fraction(float(n["value"]))
            if fr.denominator > (1 << 20):
                raise ExtractError("typed translator: literal %s is not a small binary fraction" % n["value"])
            return F(str(fr.numerator), fr.denominator)
        if k in ("ImplicitCastExpr", "CStyleCastExpr", "CXXStaticCastExpr", "CXXFunctionalCastExpr"):
            ck = n.get("castKind")
            a = self.val(kids(n)[0])
            if ck == "IntegralToFloating" and isinstance(a, I) and _ty(n) == "double":
                return F(a.text, 1)
            if ck == "FloatingToIntegral" and isinstance(a, F):
                bits, signed = self.int_type(n)
                q = a.num if a.den == 1 else "(Int.tdiv %s %d)" % (a.num, a.den)
                return I(self.wrap(q, bits, signed), bits, signed)
            if ck == "IntegralCast" and isinstance(a, I):
                bits, signed = self.int_type(n)
                if (bits, signed) == (a.bits, a.signed) or (bits > a.bits and not (a.signed and not signed)):
                    return I(a.text, bits, signed)          # same type, or a widening that keeps every value
                if re.fullmatch(r"\d+", a.text) and int(a.text) < (1 << (bits - 1)):
                    return I(a.text, bits, signed)          # a small non-negative literal
                return I("(wrap%s%d %s)" % ("I" if signed else "U", bits, a.text), bits, signed)
            raise ExtractError("typed translator: cast %s to `%s`" % (ck, _ty(n)))
        if k == "UnaryOperator" and n.get("opcode") == "-":
            a = self.val(kids(n)[0])
            if isinstance(a, F):
                return F("(-%s)" % a.num, a.den)
            if isinstance(a, I):
                bits, signed = self.int_type(n)
                return I(self.wrap("(-%s)" % a.text, bits, signed), bits, signed)
        if k == "UnaryOperator" and n.get("opcode") == "!":
            a = self.val(kids(n)[0])
            if isinstance(a, B):
                return B("¬ (%s)" % a.text)
        if k == "BinaryOperator":
            op = n["opcode"]
            a, b = [self.val(x) for x in kids(n)]
            cmp = {"<": "<", "<=": "≤", ">": ">", ">=": "≥", "==": "=", "!=": "≠"}
            if isinstance(a, F) and isinstance(b, F):
                if op in ("+", "-"):
                    return F("(%s %s %s)" % (_mul(a.num, b.den), op, _mul(b.num, a.den)), a.den * b.den)
                if op == "*":
                    return F("(%s * %s)" % (a.num, b.num), a.den * b.den)
                if op == "/" and re.fullmatch(r"-?\d+", b.num) and int(b.num) != 0:
                    sgn = -1 if int(b.num) < 0 else 1
                    return F(_mul(a.num, sgn * b.den), a.den * abs(int(b.num)))
                if op in cmp:
                    return B("(%s %s %s)" % (_mul(a.num, b.den), cmp[op], _mul(b.num, a.den)))
            if isinstance(a, I) and isinstance(b, I):
                if (a.bits, a.signed) != (b.bits, b.signed):
                    raise ExtractError("typed translator: operands of `%s` have different types" % op)
                if op in cmp:
                    return B("(%s %s %s)" % (a.text, cmp[op], b.text))
                bits, signed = self.int_type(n)
                if op in ("+", "-", "*"):
                    return I(self.wrap("(%s %s %s)" % (a.text, op, b.text), bits, signed), bits, signed)
                if op in ("/", "%") and signed:
                    # INT_MIN / -1 is the only quotient that leaves the type
                    return I(self.wrap("(Int.%s %s %s)" % ("tdiv" if op == "/" else "tmod", a.text, b.text), bits, signed),
                             bits, signed)
            if isinstance(a, B) and isinstance(b, B) and op in ("&&", "||"):
                return B("(%s %s %s)" % (a.text, "∧" if op == "&&" else "∨", b.text))
            raise ExtractError("typed translator: binary operator `%s` on these operands" % op)
        if k == "ConditionalOperator":
            c, a, b = [self.val(x) for x in kids(n)]
            if isinstance(c, B) and isinstance(a, F) and isinstance(b, F):
                return F("(if %s then %s else %s)" % (c.text, _mul(a.num, b.den), _mul(b.num, a.den)), a.den * b.den)
            if isinstance(c, B) and isinstance(a, I) and isinstance(b, I) and (a.bits, a.signed) == (b.bits, b.signed):
                return I("(if %s then %s else %s)" % (c.text, a.text, b.text), a.bits, a.signed)
            raise ExtractError("typed translator: conditional operator on these operands")
        try:
            key = ckey(n)
        except (ExtractError, KeyError, IndexError):
            key = None
        if key is not None and key in self.sym:
            return self.sym[key]
        raise ExtractError("typed translator: unsupported expression %s%s" % (k, " `%s`" % key if key else ""))

    def expr(self, n):
        """Lean text of an integer or truth value"""
        v = self.val(n)
        if isinstance(v, F):
            raise ExtractError("typed translator: a double where an integer is expected")
        return v.text

    def bind(self, var):
        """`T x = init;`: returns the Lean `let` line and makes `x` known"""
        v = self.val(init_of(var))
        name = var["name"]
        if isinstance(v, I):
            bits, signed = self.int_type(var)
            if (bits, signed) != (v.bits, v.signed):
                raise ExtractError("typed translator: initialiser of `%s` has another type than the variable" % name)
            self.sym[name] = I(name, bits, signed)
            return "let %s := %s" % (name, unparen(v.text))
        if isinstance(v, F) and _ty(var) == "double":
            self.sym[name] = F(name, v.den)
            return "let %s := %s" % (name, unparen(v.num))
        raise ExtractError("typed translator: variable `%s` of type `%s`" % (name, _ty(var)))


WRAPS = """/-- the value of a signed 32-bit C expression whose mathematical result is `x`: two's-complement wrap-around (what
g++ computes on x86-64 at -O0 .. -O2; the overflow itself is formally undefined) -/
def wrapI32 (x : Int) : Int := Int.bmod x 4294967296
/-- unsigned 32-bit: reduction modulo 2^32 -/
def wrapU32 (x : Int) : Int := x % 4294967296
/-- signed 64-bit.  Only the machine variants (`addTimeW`, `howMuchUsW`, `howMuchTimeFromNowW`) use it: in the definitions
the model is built from, 64-bit quantities are exact integers; `Props/C06.lean` proves both agree on the int64 range -/
def wrapI64 (x : Int) : Int := Int.bmod x 18446744073709551616
/-- unsigned 64-bit -/
def wrapU64 (x : Int) : Int := x % 18446744073709551616
"""


def generate():
    SITES.clear()
    out = [HEADER % "muduo/net/TimerQueue.cc, muduo/net/Timer.cc, muduo/net/Timer.h, muduo/base/Timestamp.h",
           "namespace MuduoVerif.Gen.Timer\n"]
    # ---------------- constants
    tdocs = ast_dump("muduo/net/TimerQueue.cc", "muduo::Timestamp")
    kus = const_int(tdocs, "kMicroSecondsPerSecond")
    out.append("/-- `Timestamp::kMicroSecondsPerSecond` -/\ndef kMicroSecondsPerSecond : Int := %d\n" % kus)
    consts = {"kMicroSecondsPerSecond": "kMicroSecondsPerSecond"}
    valid = the_function(tdocs, "valid")
    ret = [s for s in stmts(valid) if s.get("kind") == "ReturnStmt"]
    if len(ret) != 1:
        raise ExtractError("Timestamp::valid changed shape")
    t = Tr({"microSecondsSinceEpoch_": "us"}, consts, int_mode=True)
    out.append(prop_def("timestampValid", [("us", "Int")], unparen(t.expr(kids(ret[0])[0])), "`Timestamp::valid()`"))
    inv = the_function(tdocs, "invalid")
    r = [s for s in stmts(inv) if s.get("kind") == "ReturnStmt"]
    # `return Timestamp();` -- the default constructor's value
    ctor = [n for d in tdocs for n in walk(d) if n.get("kind") == "CXXConstructorDecl" and n.get("name") == "Timestamp"
            and not [p for p in kids(n) if p["kind"] == "ParmVarDecl"] and body_of(n) is not None]
    if len(r) != 1 or len(ctor) != 1:
        raise ExtractError("Timestamp::invalid / Timestamp() changed shape")
    inits = [c for c in kids(ctor[0]) if c.get("kind") == "CXXCtorInitializer"
             and c.get("anyInit", {}).get("name") == "microSecondsSinceEpoch_"]
    if len(inits) != 1 or strip(kids(inits[0])[0]).get("kind") != "IntegerLiteral":
        raise ExtractError("Timestamp() no longer initialises its field with a literal")
    out.append("/-- `Timestamp::invalid()` = `Timestamp()` -/\ndef timestampInvalid : Int := %d\n"
               % int(strip(kids(inits[0])[0])["value"]))

    out.append(WRAPS)

    # ---------------- addTime: every statement, with the C type of every intermediate value
    adocs = ast_dump("muduo/net/TimerQueue.cc", "muduo::addTime")
    at = the_function(adocs, "addTime")
    ps = [p for p in kids(at) if p.get("kind") == "ParmVarDecl"]
    if [(p.get("name"), _ty(p)) for p in ps] != [("timestamp", "muduo::Timestamp"), ("seconds", "double")]:
        raise ExtractError("addTime: the parameters are no longer (Timestamp timestamp, double seconds)")
    if kus <= 0:
        raise ExtractError("kMicroSecondsPerSecond is not positive")
    cint = {"kMicroSecondsPerSecond": I("kMicroSecondsPerSecond", 32, True)}

    def add_time(machine):
        # `seconds` stands for the rational us / kMicroSecondsPerSecond
        t = TTr(dict(cint, **{"timestamp.microSecondsSinceEpoch()": I("timestamp", 64, True), "seconds": F("us", kus)}), machine)
        lets, res = [], None
        for s in stmts(at):
            if res is not None:
                raise ExtractError("addTime: statements after the return")
            if s.get("kind") == "DeclStmt" and len(kids(s)) == 1 and kids(s)[0].get("kind") == "VarDecl":
                lets.append(t.bind(kids(s)[0]))
            elif s.get("kind") == "ReturnStmt":
                inner = tstrip(kids(s)[0])
                while inner.get("kind") in ("CXXConstructExpr", "CXXFunctionalCastExpr", "CXXTemporaryObjectExpr") and \
                        len(kids(inner)) == 1 and _ty(inner) == "muduo::Timestamp":
                    inner = tstrip(kids(inner)[0])
                v = t.val(inner)
                if not isinstance(v, I) or (v.bits, v.signed) != (64, True):
                    raise ExtractError("addTime: the Timestamp is no longer built from an int64_t")
                res = unparen(v.text)
            else:
                raise ExtractError("addTime: unsupported statement %s" % s.get("kind"))
        if res is None:
            raise ExtractError("addTime: no return statement")
        return "".join("  %s\n" % l for l in lets) + "  %s\n" % res

    out.append("/-- `addTime(timestamp, seconds)`; the `double seconds` is supplied as the integer `us` and stands for "
               "`us / kMicroSecondsPerSecond` seconds exactly (doubles are exact rationals here: the trusted part).  32-bit "
               "intermediate values wrap, 64-bit ones are exact -/\n"
               "def addTime (timestamp : Int) (us : Int) : Int :=\n" + add_time(False))
    out.append("/-- the same with every 64-bit operation and conversion wrapped as well (the machine's arithmetic) -/\n"
               "def addTimeW (timestamp : Int) (us : Int) : Int :=\n" + add_time(True))

    # ---------------- howMuchTimeFromNow
    hdocs = ast_dump("muduo/net/TimerQueue.cc", "muduo::net::detail::howMuchTimeFromNow")
    hm = the_function(hdocs, "howMuchTimeFromNow")
    ss = stmts(hm)
    ifs = find_ifs(hm)
    if len(ifs) != 1 or len(kids(ifs[0])) != 2:
        raise ExtractError("howMuchTimeFromNow: expected exactly one `if` without else (the floor)")
    # statement order: declaration, floor, then the two field assignments
    order = [s.get("kind") for s in ss]
    if order[:2] != ["DeclStmt", "IfStmt"]:
        raise ExtractError("howMuchTimeFromNow: statement order changed: %s" % order)
    usvar = locate_var(hm, "microseconds")
    if (_ty(usvar), _ty(locate_var(hm, "ts"))) != ("long", "timespec"):
        raise ExtractError("howMuchTimeFromNow: `microseconds` is no longer an int64_t / `ts` no longer a timespec")

    def how_much(machine, sfx):
        t = TTr(dict(cint, **{"when.microSecondsSinceEpoch()": I("when", 64, True),
                              "now().microSecondsSinceEpoch()": I("now", 64, True)}), machine)
        let0 = t.bind(usvar)
        cond = t.expr(if_cond(ifs[0]))
        lhs, rhs = assignment(single_stmt(kids(ifs[0])[1]))
        if lhs != "microseconds":
            raise ExtractError("howMuchTimeFromNow: the floor no longer assigns `microseconds`")
        floor = t.expr(rhs)
        sec = nsec = None
        for s in ss:
            s = strip(s)
            if s.get("kind") == "BinaryOperator" and s.get("opcode") == "=":
                l, r = assignment(s)
                fld = tstrip(kids(s)[0])
                if l in ("ts.tv_sec", "ts.tv_nsec") and (_ty(fld), _ty(s)) != ("long", "long"):
                    raise ExtractError("howMuchTimeFromNow: %s is not a 64-bit field here (%s)" % (l, _ty(fld)))
                if l == "ts.tv_sec":
                    sec = t.expr(r)
                elif l == "ts.tv_nsec":
                    nsec = t.expr(r)
        if sec is None or nsec is None:
            raise ExtractError("howMuchTimeFromNow: tv_sec / tv_nsec assignments not found")
        return ("def howMuchUs%s (when : Int) (now : Int) : Int :=\n  %s\n"
                "  let microseconds := if %s then %s else microseconds\n  microseconds\n" % (sfx, let0, unparen(cond), floor),
                "def howMuchTimeFromNow%s (when : Int) (now : Int) : Int × Int :=\n  let microseconds := howMuchUs%s when now\n"
                "  (%s, %s)\n" % (sfx, sfx, unparen(sec), unparen(nsec)))

    h_us, h_ts = how_much(False, "")
    out.append("/-- `detail::howMuchTimeFromNow(when)`: the relative time in microseconds after the floor; "
               "`now` is the clock reading it makes -/\n" + h_us)
    out.append("/-- the `timespec` it returns: (tv_sec, tv_nsec); both fields are 64 bits wide here -/\n" + h_ts)
    h_us, h_ts = how_much(True, "W")
    out.append("/-- the same with the 64-bit operations wrapped (the machine's arithmetic) -/\n" + h_us)
    out.append(h_ts)

    # ---------------- Timer::restart, Timer::Timer
    rdocs = ast_dump("muduo/net/Timer.cc", "muduo::net::Timer")
    rs = the_function(rdocs, "restart")
    ifs = find_ifs(rs)
    if len(ifs) != 1 or len(kids(ifs[0])) != 3:
        raise ExtractError("Timer::restart: expected one if/else")
    c = guard(if_cond(ifs[0]), {"repeat_": "repeat_"}, set())
    l1, r1 = assignment(single_stmt(kids(ifs[0])[1]))
    l2, r2 = assignment(single_stmt(kids(ifs[0])[2]))
    if l1 != "expiration_" or l2 != "expiration_":
        raise ExtractError("Timer::restart no longer assigns expiration_ in both branches")
    vals = {"addTime(now,interval_)": "addTime now delta", "invalid()": "timestampInvalid"}
    k1, k2 = ckey(r1), ckey(r2)
    if k1 not in vals or k2 not in vals:
        raise ExtractError("Timer::restart: unexpected right-hand sides `%s`, `%s`" % (k1, k2))
    out.append("/-- `Timer::restart(now)`: the new `expiration_` (`delta` = the truncated `interval_` in microseconds) -/\n"
               "def restart (repeat_ : Bool) (now : Int) (delta : Int) : Int := if %s then %s else %s\n"
               % (unparen(c), vals[k1], vals[k2]))
    ctor = [n for d in rdocs for n in walk(d) if n.get("kind") == "CXXConstructorDecl" and n.get("name") == "Timer"
            and body_of(n) is not None]
    if len(ctor) != 1:
        raise ExtractError("Timer constructor not found")
    rep = None
    seqinit = None
    for ci in [c for c in kids(ctor[0]) if c.get("kind") == "CXXCtorInitializer"]:
        nm = ci.get("anyInit", {}).get("name")
        if nm == "repeat_":
            e = strip(kids(ci)[0])
            if (e.get("kind") == "BinaryOperator" and e.get("opcode") == ">" and ckey(kids(e)[0]) == "interval"
                    and strip(kids(e)[1]).get("kind") == "FloatingLiteral" and float(strip(kids(e)[1])["value"]) == 0.0):
                rep = "intervalPositive"
        if nm == "sequence_":
            seqinit = ckey(kids(ci)[0])
    if rep is None:
        raise ExtractError("Timer::Timer: repeat_ is no longer initialised with `interval > 0.0`")
    if seqinit != "s_numCreated_.incrementAndGet()":
        raise ExtractError("Timer::Timer: sequence_ is no longer s_numCreated_.incrementAndGet() (%s)" % seqinit)
    out.append("/-- `Timer::Timer`: `repeat_(interval > 0.0)` -/\ndef timerRepeats (intervalPositive : Bool) : Bool := %s\n" % rep)
    out.append("/-- `Timer::Timer`: `sequence_(s_numCreated_.incrementAndGet())` -/\n"
               "def nextSequence (numCreated : Nat) : Nat := numCreated + 1\n")

    # ---------------- TimerQueue
    docs = ast_dump("muduo/net/TimerQueue.cc", "muduo::net::TimerQueue")
    # getExpired: Entry sentry(now, reinterpret_cast<Timer*>(UINTPTR_MAX)); end = timers_.lower_bound(sentry)
    ge = the_function(docs, "getExpired")
    sentry = locate_var(ge, "sentry")
    args = kids(strip(init_of(sentry))) if strip(init_of(sentry)).get("kind") == "CXXConstructExpr" else None
    if not args or len(args) != 2 or ckey(args[0]) != "now":
        raise ExtractError("getExpired: sentry is no longer Entry(now, <pointer>)")
    lit = [x for x in walk(args[1]) if x.get("kind") == "IntegerLiteral"]
    casts = [x for x in walk(args[1]) if x.get("kind") == "CXXReinterpretCastExpr"]
    if len(lit) != 1 or len(casts) != 1:
        raise ExtractError("getExpired: the sentinel pointer is no longer reinterpret_cast<Timer*>(<literal>)")
    out.append("/-- `getExpired`: the sentinel pointer of `Entry sentry(now, reinterpret_cast<Timer*>(UINTPTR_MAX))` -/\n"
               "def sentinelAddr : Nat := %d\n" % int(lit[0]["value"]))
    end = locate_var(ge, "end")
    if ckey(init_of(end)) != "timers_.lower_bound(sentry)":
        raise ExtractError("getExpired: `end` is no longer timers_.lower_bound(sentry) (%s)" % ckey(init_of(end)))
    out.append("/-- `getExpired`: an entry `(exp, addr)` is taken iff it is ordered before the sentry `(now, sentinelAddr)` "
               "(`lower_bound`, lexicographic `std::pair` order) -/\n"
               "def entryExpired (exp : Int) (addr : Nat) (now : Int) : Prop := exp < now ∨ (exp = now ∧ addr < sentinelAddr)\n"
               "instance : Decidable (entryExpired exp addr now) := by unfold entryExpired; infer_instance\n")

    # insert: earliest-changed test
    ins = the_function(docs, "insert")
    if ckey(init_of(locate_var(ins, "it"))) != "timers_.begin()" or ckey(init_of(locate_var(ins, "when"))) != "timer->expiration()":
        raise ExtractError("insert: `it`/`when` are no longer timers_.begin() / timer->expiration()")
    ifs = find_ifs(ins)
    if len(ifs) != 1:
        raise ExtractError("insert: expected exactly one `if`")
    l, r = assignment(single_stmt(kids(ifs[0])[1]))
    if l != "earliestChanged" or strip(r).get("kind") != "CXXBoolLiteralExpr" or not strip(r)["value"]:
        raise ExtractError("insert: the `if` no longer sets earliestChanged = true")
    if strip(init_of(locate_var(ins, "earliestChanged"))).get("value") is not False:
        raise ExtractError("insert: earliestChanged is no longer initialised with false")
    used = set()
    g = guard(if_cond(ifs[0]), {"it == timers_.end()": "empty", "when < it->first": "when < first"}, used)
    SITES[if_cond(ifs[0]).get("id")] = "insertEarliestChanged"
    out.append(prop_def("insertEarliestChanged", [("empty", "Bool"), ("when", "Int"), ("first", "Int")], unparen(g),
                        "`TimerQueue::insert`: the new timer becomes the earliest one (`first` = deadline of `timers_.begin()`)"))

    # addTimerInLoop: re-arm iff earliestChanged
    ail = the_function(docs, "addTimerInLoop")
    ifs = find_ifs(ail)
    if len(ifs) != 1 or ckey(init_of(locate_var(ail, "earliestChanged"))) != "insert(timer)":
        raise ExtractError("addTimerInLoop: expected `bool earliestChanged = insert(timer)` and one `if`")
    body = single_stmt(kids(ifs[0])[1])
    if ckey(body) != "resetTimerfd(timerfd_,timer->expiration())":
        raise ExtractError("addTimerInLoop: the `if` no longer calls resetTimerfd(timerfd_, timer->expiration()): %s" % ckey(body))
    g = guard(if_cond(ifs[0]), {"earliestChanged": "earliestChanged"}, set())
    SITES[if_cond(ifs[0]).get("id")] = "addRearms"
    out.append(prop_def("addRearms", [("earliestChanged", "Bool")], unparen(g),
                        "`TimerQueue::addTimerInLoop`: call `resetTimerfd(timerfd_, timer->expiration())`"))

    # cancelInLoop: if (it != activeTimers_.end()) {...} else if (callingExpiredTimers_) {...}
    cil = the_function(docs, "cancelInLoop")
    if ckey(init_of(locate_var(cil, "it"))) != "activeTimers_.find(timer)":
        raise ExtractError("cancelInLoop: `it` is no longer activeTimers_.find(timer)")
    targs = kids(strip(init_of(locate_var(cil, "timer"))))
    if [ckey(a) for a in targs] != ["timerId.timer_", "timerId.sequence_"]:
        raise ExtractError("cancelInLoop: the key is no longer (timerId.timer_, timerId.sequence_)")
    top = [s for s in stmts(cil) if s.get("kind") == "IfStmt"]
    if len(top) != 1 or len(kids(top[0])) != 3 or kids(top[0])[2].get("kind") != "IfStmt" or len(kids(kids(top[0])[2])) != 2:
        raise ExtractError("cancelInLoop: expected `if (found) {..} else if (calling) {..}`")
    g1 = guard(if_cond(top[0]), {"it != activeTimers_.end()": "found"}, set())
    g2 = guard(if_cond(kids(top[0])[2]), {"callingExpiredTimers_": "calling"}, set())
    SITES[if_cond(top[0]).get("id")] = "cancelErases"
    SITES[if_cond(kids(top[0])[2]).get("id")] = "cancelRemembers"      # the `else if`: reached with ¬ found
    out.append(prop_def("cancelErases", [("found", "Bool")], unparen(g1),
                        "`TimerQueue::cancelInLoop`: the (pointer, sequence) pair is in `activeTimers_`: erase from both sets and delete"))
    out.append(prop_def("cancelRemembers", [("found", "Bool"), ("calling", "Bool")], "¬ (%s) ∧ %s" % (unparen(g1), g2),
                        "`TimerQueue::cancelInLoop`: the `else if`: remember the pair in `cancelingTimers_`"))
    erase_body = [ckey(s) for s in kids(kids(top[0])[1]) if s.get("kind") in ("CXXMemberCallExpr",)]
    rem = single_stmt(kids(kids(top[0])[2])[1])
    if ckey(rem) != "cancelingTimers_.insert(timer)":
        raise ExtractError("cancelInLoop: the else-branch no longer inserts into cancelingTimers_ (%s)" % ckey(rem))
    dels = [x for x in walk(kids(top[0])[1]) if x.get("kind") == "CXXDeleteExpr"]
    if len(dels) != 1 or "activeTimers_.erase(it)" not in erase_body:
        raise ExtractError("cancelInLoop: the erase branch changed (delete / activeTimers_.erase(it))")

    # reset: restart test, re-arm test
    rst = the_function(docs, "reset")
    ifs = find_ifs(rst)
    if len(ifs) != 3:
        raise ExtractError("reset: expected three `if`s, found %d" % len(ifs))
    tk = kids(strip(init_of(locate_var(rst, "timer"))))
    if [ckey(a) for a in tk] != ["it.second", "it.second->sequence()"]:
        raise ExtractError("reset: the key is no longer (it.second, it.second->sequence())")
    g = guard(if_cond(ifs[0]), {"it.second->repeat()": "repeat_",
                                "cancelingTimers_.find(timer) == cancelingTimers_.end()": "¬ (cancelled)"}, set())
    SITES[if_cond(ifs[0]).get("id")] = "resetRestarts"
    out.append(prop_def("resetRestarts", [("repeat_", "Bool"), ("cancelled", "Bool")], unparen(g),
                        "`TimerQueue::reset`: restart and re-insert (true) or delete (false); `cancelled` = the pair is in `cancelingTimers_`"))
    thenb = [ckey(s) for s in kids(kids(ifs[0])[1])]
    if thenb != ["it.second->restart(now)", "insert(it.second)"]:
        raise ExtractError("reset: the restart branch changed: %s" % thenb)
    if len([x for x in walk(kids(ifs[0])[2]) if x.get("kind") == "CXXDeleteExpr"]) != 1:
        raise ExtractError("reset: the else branch no longer deletes the timer")
    g = guard(if_cond(ifs[1]), {"timers_.empty()": "empty"}, set())
    SITES[if_cond(ifs[1]).get("id")] = "resetHasNext"
    l, r = assignment(single_stmt(kids(ifs[1])[1]))
    if l != "nextExpire" or ckey(r) != "timers_.begin()->second->expiration()":
        raise ExtractError("reset: nextExpire is no longer timers_.begin()->second->expiration()")
    out.append(prop_def("resetHasNext", [("empty", "Bool")], unparen(g), "`TimerQueue::reset`: `if (!timers_.empty())`"))
    g = guard(if_cond(ifs[2]), {"nextExpire.valid()": "timestampValid nextExpire"}, set())
    SITES[if_cond(ifs[2]).get("id")] = "resetRearms"
    if ckey(single_stmt(kids(ifs[2])[1])) != "resetTimerfd(timerfd_,nextExpire)":
        raise ExtractError("reset: the last `if` no longer calls resetTimerfd(timerfd_, nextExpire)")
    out.append(prop_def("resetRearms", [("nextExpire", "Int")], unparen(g),
                        "`TimerQueue::reset`: re-arm for the earliest remaining timer (`nextExpire` is `Timestamp()` when none)"))

    # handleRead: order of the steps
    hr = the_function(docs, "handleRead")
    seq = []
    for s in stmts(hr):
        try:
            if strip(s).get("kind") == "BinaryOperator" and strip(s).get("opcode") == "=":
                l, r = assignment(s)
                seq.append("%s = %s" % (l, "true" if strip(r).get("value") is True else "false" if strip(r).get("value") is False else ckey(r)))
            else:
                seq.append(ckey(s))
        except (ExtractError, KeyError, IndexError):
            seq.append(s.get("kind"))
    want = ["loop_->assertInLoopThread()", "DeclStmt", "readTimerfd(timerfd_,now)", "DeclStmt", "callingExpiredTimers_ = true",
            "cancelingTimers_.clear()", "CXXForRangeStmt", "callingExpiredTimers_ = false", "reset(expired,now)"]
    if seq != want:
        raise ExtractError("handleRead: the sequence of steps changed: %s" % seq)

    # addTimer: is the timer dereferenced after it was handed to the loop?  (F4, fix 0550046)
    adt = the_function(docs, "addTimer")
    ss = stmts(adt)
    hand = [i for i, s in enumerate(ss) if any(x.get("kind") == "MemberExpr" and x.get("name") in ("runInLoop", "queueInLoop")
                                                for x in walk(s))]
    if len(hand) != 1:
        raise ExtractError("addTimer: expected exactly one hand-over (runInLoop/queueInLoop)")

    def derefs(s):
        return [x for x in walk(s) if x.get("kind") == "MemberExpr" and x.get("isArrow") and kids(x)
                and strip(kids(x)[0]).get("kind") == "DeclRefExpr" and strip(kids(x)[0])["referencedDecl"]["name"] == "timer"]
    before = any(derefs(s) and any(x.get("name") == "sequence" for x in derefs(s)) for s in ss[:hand[0]])
    after = any(derefs(s) for s in ss[hand[0] + 1:])
    if not before and not after:
        raise ExtractError("addTimer: the sequence number is read nowhere")
    out.append("/-- `TimerQueue::addTimer`: the new `Timer` is dereferenced after it was handed to the loop "
               "(the loop thread may already have run and deleted it) -/\n"
               "def addTimerDerefsAfterHandOver : Bool := %s\n" % ("true" if after else "false"))
    out.append("end MuduoVerif.Gen.Timer\n")
    return "\n".join(out)
