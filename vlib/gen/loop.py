"""T1 for the `Loop` engine (C04 + C05): the guards and the statement order of
EventLoop::loop / quit / runInLoop / queueInLoop / doPendingFunctors (muduo/net/EventLoop.cc) and of
EventLoopThread::~EventLoopThread / startLoop / threadFunc (muduo/net/EventLoopThread.cc).

Guards are translated expression by expression (`wakeGuard`, `runInline`, `quitWakes`); everything the
hand-written transition system takes from the *shape* of the code is extracted as a Boolean that says
whether the code has that shape now:

  loop():              quitResetAtEntry / quitResetAtExit (where `quit_ = false` stands relative to the `while`),
                       whileTestsQuit, drainEachIteration, finalDrain (none | once | untilEmpty), loopingBracket
  quit():              quitStoresFirst
  doPendingFunctors(): callingSetBeforeSwap, callingResetAfterRun, batchDestroyedBeforeReset, drainSwaps
  queueInLoop():       appendUnderLock
  ~EventLoopThread():  dtorLocks, dtorJoinsIfStarted
  threadFunc():        publishLocks, publishNotifies, clearLocks, finishSets, finishNotifies
  startLoop():         startWaitsWhile, startChecksFinished

`Proofs/Loop.lean` states the value each proof needs (`…_tie : flag = true := rfl`), so a change of the code's
shape breaks the proofs that rest on it.  A function whose body cannot be read as a sequence of the statement
kinds below raises ExtractError (never guessed).
"""
from ..extract import HEADER, ExtractError, Tr, ast_dump, body_of, const_int, ctype, kids, mentions, prop_def, strip, the_function, unparen, walk

NAME = "Loop"


# ----------------------------------------------------------------------------- statement classification

def _is_this_member(n, name=None):
    n = strip(n)
    if n.get("kind") != "MemberExpr":
        return False
    ks = kids(n)
    if ks and strip(ks[0]).get("kind") != "CXXThisExpr":
        return False
    return name is None or n.get("name") == name


def _member_name(n):
    """`f_` for this->f_ (also through an atomic's conversion operator), else None"""
    n = strip(n)
    if n.get("kind") == "CXXMemberCallExpr" and len(kids(n)) == 1:
        callee = strip(kids(n)[0])
        if callee.get("kind") == "MemberExpr" and callee.get("name", "").startswith("operator ") and kids(callee):
            return _member_name(kids(callee)[0])
    if _is_this_member(n):
        return n.get("name")
    return None


def _is_null(n):
    n = strip(n)
    while n.get("kind") == "ImplicitCastExpr" and n.get("castKind") == "NullToPointer":
        n = strip(kids(n)[0])
    return n.get("kind") in ("GNUNullExpr", "CXXNullPtrLiteralExpr") or (n.get("kind") == "IntegerLiteral" and n.get("value") == "0")


def _is_assert_or_noise(st):
    k = st.get("kind")
    if k == "NullStmt":
        return True
    if k == "DoStmt":
        # MUDUO_VERIF_POINT with the guard off: `do { } while (0)`
        ks = kids(st)
        return len(ks) == 2 and ks[0].get("kind") == "CompoundStmt" and not kids(ks[0])
    if k in ("ParenExpr", "ConditionalOperator", "CStyleCastExpr", "CXXFunctionalCastExpr"):
        # glibc assert(): `((e) ? (void)0 : __assert_fail(..))` or `((void)0)`
        fns = set()
        for x in walk(st):
            rd = x.get("referencedDecl")
            if x.get("kind") == "DeclRefExpr" and rd and rd.get("kind") == "FunctionDecl":
                fns.add(rd.get("name"))
        if fns - {"__assert_fail"}:
            return False
        for x in walk(st):
            if x.get("kind") in ("BinaryOperator", "CompoundAssignOperator") and x.get("opcode") in ("=", "+=", "-="):
                return False
            if x.get("kind") == "UnaryOperator" and x.get("opcode") in ("++", "--"):
                return False
            if x.get("kind") == "CXXOperatorCallExpr":
                return False
        return True
    if k == "IfStmt":
        # LOG_TRACE / LOG_DEBUG: `if (Logger::logLevel() <= Logger::X) ...`
        return mentions(kids(st)[0], "logLevel")
    return False


class S:
    """one effective statement: tag + payload"""

    def __init__(self, tag, node, **kw):
        self.tag, self.node = tag, node
        self.__dict__.update(kw)

    def __repr__(self):
        return "S(%s %s)" % (self.tag, {k: v for k, v in self.__dict__.items() if k not in ("tag", "node")})


def _classify(st, what):
    """one statement -> S, or None for noise"""
    if _is_assert_or_noise(st):
        return None
    n = strip(st)
    k = n.get("kind")
    if k == "CompoundStmt":
        return S("block", n, body=_stmts(n, what))
    if k == "IfStmt":
        ks = kids(n)
        if n.get("hasInit") or n.get("hasVar") or len(ks) not in (2, 3):
            raise ExtractError("%s: unsupported `if` form" % what)
        return S("if", n, cond=ks[0], then=_stmts(ks[1], what), els=_stmts(ks[2], what) if len(ks) == 3 else None)
    if k == "WhileStmt":
        ks = kids(n)
        if len(ks) != 2:
            raise ExtractError("%s: unsupported `while` form" % what)
        return S("while", n, cond=ks[0], body=_stmts(ks[1], what))
    if k == "DoStmt":
        ks = kids(n)
        if len(ks) != 2:
            raise ExtractError("%s: unsupported `do` form" % what)
        return S("dowhile", n, cond=ks[1], body=_stmts(ks[0], what))
    if k == "CXXForRangeStmt":
        ks = kids(n)
        rng = None
        for x in walk(ks[0]):
            if x.get("kind") == "VarDecl" and x.get("name", "").startswith("__range") and kids(x):
                r = strip(kids(x)[-1])
                rng = _member_name(r) or (r.get("referencedDecl", {}).get("name") if r.get("kind") == "DeclRefExpr" else None)
        return S("for", n, range=rng, body=_stmts(ks[-1], what))
    if k == "ReturnStmt":
        return S("return", n)
    if k == "DeclStmt":
        vs = [v for v in kids(n) if v.get("kind") == "VarDecl"]
        if len(vs) == 1 and "MutexLockGuard" in ctype(vs[0]):
            m = None
            for x in walk(vs[0]):
                if x.get("kind") == "MemberExpr" and _is_this_member(x):
                    m = x.get("name")
            return S("lock", n, mutex=m)
        return S("decl", n, names=[v.get("name") for v in vs], types=[ctype(v) for v in vs])
    # assignments: plain `=` and the atomic's operator=
    if k == "BinaryOperator" and n.get("opcode") == "=":
        l, r = kids(n)
        return _assignment(n, l, r)
    if k == "CXXOperatorCallExpr":
        ks = kids(n)
        callee = strip(ks[0])
        nm = callee.get("referencedDecl", {}).get("name") if callee.get("kind") == "DeclRefExpr" else None
        if nm == "operator=" and len(ks) == 3:
            return _assignment(n, ks[1], ks[2])
        if nm == "operator()" and len(ks) >= 2:
            t = strip(ks[1])
            who = _member_name(t) or (t.get("referencedDecl", {}).get("name") if t.get("kind") == "DeclRefExpr" else None)
            return S("invoke", n, target=who)
        return S("other", n)
    if k == "CXXMemberCallExpr":
        callee = strip(kids(n)[0])
        if callee.get("kind") == "MemberExpr":
            base = strip(kids(callee)[0]) if kids(callee) else None
            if base is None or base.get("kind") == "CXXThisExpr":
                return S("call", n, obj="this", name=callee.get("name"))
            bm = _member_name(base)
            if bm is not None:
                return S("call", n, obj=bm, name=callee.get("name"))
            if base.get("kind") == "DeclRefExpr":
                return S("call", n, obj="local:" + base["referencedDecl"]["name"], name=callee.get("name"))
        return S("other", n)
    if k == "UnaryOperator" and n.get("opcode") in ("++", "--"):
        return S("other", n)
    return S("other", n)


def _assignment(n, l, r):
    lm = _member_name(l)
    ls = strip(l)
    target = lm if lm is not None else ("local:" + ls["referencedDecl"]["name"] if ls.get("kind") == "DeclRefExpr" else None)
    rs = strip(r)
    if rs.get("kind") == "CXXBoolLiteralExpr":
        val = bool(rs["value"])
    elif _is_null(r):
        val = "null"
    elif rs.get("kind") == "UnaryOperator" and rs.get("opcode") == "&":
        val = "addr"
    else:
        val = "expr"
    return S("set", n, target=target, value=val)


def _stmts(block, what):
    sts = kids(block) if block.get("kind") == "CompoundStmt" else [block]
    res = []
    for st in sts:
        s = _classify(st, what)
        if s is not None:
            res.append(s)
    return res


def _flat(sts):
    """every statement in source order, descending into blocks / if / while / for"""
    for s in sts:
        yield s
        for sub in ("body", "then", "els"):
            v = getattr(s, sub, None)
            if v:
                yield from _flat(v)


def _index(sts, pred):
    return [i for i, s in enumerate(sts) if pred(s)]


def _is_set(s, target, value):
    return s.tag == "set" and s.target == target and s.value == value


def _is_call(s, obj, name):
    return s.tag == "call" and s.obj == obj and s.name == name


def _bool(b):
    return "true" if b else "false"


def _only(sts, what, *preds):
    """every statement of `sts` must satisfy one of `preds` (anything else would be code the model does not have)"""
    for s in sts:
        if not any(p(s) for p in preds):
            raise ExtractError("%s: statement not covered by the model: %s" % (what, _describe(s)))


def _describe(s):
    extra = {k: v for k, v in s.__dict__.items() if k not in ("tag", "node", "body", "then", "els", "cond")}
    return "%s %s" % (s.tag, extra)


def _is_block_of(s, *preds):
    return s.tag == "block" and all(any(p(x) for p in preds) for x in s.body)


def _is_lock(s):
    return s.tag == "lock" and s.mutex == "mutex_"


def _flag(out, name, value, doc):
    out.append("/-- %s -/\ndef %s : Bool := %s" % (doc, name, _bool(value)))


# ----------------------------------------------------------------------------- guards around wakeup()

def _wake_condition(sts, what, sym):
    """(index, Lean Prop text) of the statement that calls wakeup(): an `if` whose branch is exactly `wakeup()`,
    an unconditional call (`True`), or no call at all (`False`, index = len)"""
    hits = []
    for i, s in enumerate(sts):
        if _is_call(s, "this", "wakeup"):
            hits.append((i, "True"))
        elif s.tag == "if" and any(_is_call(x, "this", "wakeup") for x in _flat(s.then + (s.els or []))):
            if len(s.then) != 1 or not _is_call(s.then[0], "this", "wakeup") or s.els:
                raise ExtractError("%s: the `if` around wakeup() does more than call wakeup()" % what)
            hits.append((i, unparen(Tr(sym).expr(s.cond))))
        elif any(_is_call(x, "this", "wakeup") for x in _flat([s])):
            raise ExtractError("%s: wakeup() is called from a nested statement the translator does not follow" % what)
    if not hits:
        return len(sts), "False"
    if len(hits) > 1:
        raise ExtractError("%s: more than one wakeup() site" % what)
    return hits[0]


# ----------------------------------------------------------------------------- EventLoop

def _queue_in_loop(docs, out):
    fn = the_function(docs, "queueInLoop", nparams=1)
    what = "EventLoop::queueInLoop"
    sts = _stmts(body_of(fn), what)
    push = [s for s in _flat(sts) if _is_call(s, "pendingFunctors_", "push_back") or _is_call(s, "pendingFunctors_", "emplace_back")]
    if len(push) != 1:
        raise ExtractError("%s: expected exactly one push_back on pendingFunctors_, found %d" % (what, len(push)))
    # the scope that holds the push_back
    under_lock = False
    at = None
    for i, s in enumerate(sts):
        if s.tag == "block" and push[0] in s.body:
            j = s.body.index(push[0])
            under_lock = any(x.tag == "lock" and x.mutex == "mutex_" for x in s.body[:j])
            at = i
        elif s is push[0]:
            under_lock = any(x.tag == "lock" and x.mutex == "mutex_" for x in sts[:i])
            at = i
    if at is None:
        raise ExtractError("%s: the push_back is nested deeper than one block" % what)
    is_push = lambda x: x is push[0]
    is_wake = lambda x: _is_call(x, "this", "wakeup") or (x.tag == "if" and any(_is_call(y, "this", "wakeup") for y in x.then))
    _only(sts, what, is_push, _is_lock, is_wake, lambda x: _is_block_of(x, is_push, _is_lock))
    wi, cond = _wake_condition(sts, what, {"isInLoopThread()": "isLoopThread = true", "callingPendingFunctors_": "calling = true",
                                           "looping_": "looping = true"})
    if wi < at:
        raise ExtractError("%s: wakeup() precedes the append" % what)
    if any(s.tag == "lock" for s in sts[:wi]) and wi < len(sts):
        raise ExtractError("%s: wakeup() is called with mutex_ held (not modelled)" % what)
    out.append(prop_def("wakeGuard", [("isLoopThread", "Bool"), ("calling", "Bool"), ("looping", "Bool")], cond,
                        "`EventLoop::queueInLoop`: the `if` guarding `wakeup()`"))
    return under_lock


def _run_in_loop(docs, out):
    fn = the_function(docs, "runInLoop", nparams=1)
    what = "EventLoop::runInLoop"
    sts = _stmts(body_of(fn), what)
    if len(sts) != 1 or sts[0].tag != "if" or sts[0].els is None:
        raise ExtractError("%s: expected `if (..) cb(); else queueInLoop(..);`" % what)
    s = sts[0]
    if len(s.then) != 1 or s.then[0].tag != "invoke" or s.then[0].target != "local:cb" and s.then[0].target != "cb":
        raise ExtractError("%s: the first branch does not just call the functor" % what)
    if len(s.els) != 1 or not _is_call(s.els[0], "this", "queueInLoop"):
        raise ExtractError("%s: the second branch does not just call queueInLoop" % what)
    out.append(prop_def("runInline", [("isLoopThread", "Bool")], unparen(Tr({"isInLoopThread()": "isLoopThread = true"}).expr(s.cond)),
                        "`EventLoop::runInLoop`: the `if` choosing the inline call"))


def _quit(docs, out):
    fn = the_function(docs, "quit", nparams=0)
    what = "EventLoop::quit"
    sts = _stmts(body_of(fn), what)
    store = _index(sts, lambda s: _is_set(s, "quit_", True))
    if len(store) != 1:
        raise ExtractError("%s: expected exactly one `quit_ = true` at the top level, found %d" % (what, len(store)))
    _only(sts, what, lambda x: _is_set(x, "quit_", True),
          lambda x: _is_call(x, "this", "wakeup") or (x.tag == "if" and any(_is_call(y, "this", "wakeup") for y in x.then)))
    wi, cond = _wake_condition(sts, what, {"isInLoopThread()": "isLoopThread = true"})
    out.append(prop_def("quitWakes", [("isLoopThread", "Bool")], cond,
                        "`EventLoop::quit`: the condition under which `wakeup()` is called after the flag store"))
    _flag(out, "quitStoresFirst", store[0] < wi, "`EventLoop::quit`: `quit_ = true` precedes the wake-up")
    out.append("")


def _loop(docs, out):
    fn = the_function(docs, "loop", nparams=0)
    what = "EventLoop::loop"
    sts = _stmts(body_of(fn), what)
    wh = _index(sts, lambda s: s.tag == "while")
    if len(wh) != 1:
        raise ExtractError("%s: expected exactly one `while` at the top level, found %d" % (what, len(wh)))
    w = wh[0]
    loop = sts[w]
    before, after = sts[:w], sts[w + 1:]
    for s in _flat(loop.body):
        if s.tag == "set" and s.target == "quit_":
            raise ExtractError("%s: quit_ is assigned inside the `while`" % what)
    for s in _flat(before + after):
        if _is_set(s, "quit_", True):
            raise ExtractError("%s: loop() itself sets quit_" % what)
    cond = Tr({"quit_": "q"}).expr(loop.cond)
    tests_quit = cond == "¬ (q)"
    body = loop.body
    is_drain = lambda x: _is_call(x, "this", "doPendingFunctors")

    def is_drain_until_empty(x):
        """`do { doPendingFunctors(); } while (queueSize() > 0);` (also `!= 0`)"""
        if x.tag != "dowhile" or len(x.body) != 1 or not is_drain(x.body[0]):
            return False
        try:
            c = Tr({"queueSize()": "n"}).expr(x.cond)
        except ExtractError:
            return False
        return c in ("(n > 0)", "(n ≠ 0)", "(0 < n)", "(0 ≠ n)")
    for x in before + after:
        if x.tag == "dowhile" and not is_drain_until_empty(x):
            raise ExtractError("%s: a `do … while` the model does not have (expected `do { doPendingFunctors(); } "
                               "while (queueSize() > 0);`)" % what)
    _only(before + after, what, is_drain_until_empty, lambda x: x.tag == "set" and x.target in ("looping_", "quit_") and x.value in (True, False),
          is_drain, lambda x: _is_call(x, "this", "assertInLoopThread"))
    _only(body, what, is_drain,
          lambda x: _is_call(x, "activeChannels_", "clear"),
          lambda x: x.tag == "other" and (mentions(x.node, "poll") or mentions(x.node, "iteration_")),
          lambda x: x.tag == "set" and x.target in ("eventHandling_", "currentActiveChannel_", "pollReturnTime_"),
          lambda x: x.tag == "call" and x.obj == "this" and x.name == "printActiveChannels",
          lambda x: x.tag == "for" and x.range == "activeChannels_")
    disp = [x for x in body if x.tag == "for" and x.range == "activeChannels_"]
    if len(disp) == 1:
        _only(disp[0].body, what, lambda x: x.tag == "set" and x.target == "currentActiveChannel_",
              lambda x: x.tag == "call" and x.name == "handleEvent")
    drains = _index(body, lambda s: _is_call(s, "this", "doPendingFunctors"))
    dispatch = _index(body, lambda s: s.tag == "for" and s.range == "activeChannels_")
    polls = [i for i, s in enumerate(body) if any(x.get("kind") == "MemberExpr" and x.get("name") == "poll" for x in walk(s.node))]
    if len(polls) != 1 or len(dispatch) != 1 or polls[0] > dispatch[0]:
        raise ExtractError("%s: the `while` body is not poll; dispatch over activeChannels_; …" % what)
    drain_each = len(drains) == 1 and drains[0] == len(body) - 1 and drains[0] > dispatch[0]
    final = _index(after, lambda s: is_drain(s) or is_drain_until_empty(s))
    if len(final) > 1 or _index(before, lambda s: is_drain(s) or is_drain_until_empty(s)):
        raise ExtractError("%s: doPendingFunctors() is called outside the `while` at an unexpected place" % what)
    lt = _index(before, lambda s: _is_set(s, "looping_", True))
    lf = _index(after, lambda s: _is_set(s, "looping_", False))
    bracket = len(lt) == 1 and len(lf) == 1 and (not final or final[0] < lf[0]) \
        and not any(s.tag == "set" and s.target == "looping_" for s in _flat(body))
    reset_entry = bool(_index(before, lambda s: _is_set(s, "quit_", False)))
    reset_exit = _index(after, lambda s: _is_set(s, "quit_", False))
    if reset_exit and final and reset_exit[0] < final[0]:
        raise ExtractError("%s: quit_ is re-armed before the final drain (not modelled)" % what)
    _flag(out, "quitResetAtEntry", reset_entry, "`EventLoop::loop`: `quit_ = false` occurs before the `while`")
    _flag(out, "quitResetAtExit", bool(reset_exit), "`EventLoop::loop`: `quit_ = false` occurs after the `while`")
    _flag(out, "whileTestsQuit", tests_quit, "`EventLoop::loop`: the `while` tests `!quit_`")
    _flag(out, "drainEachIteration", drain_each,
          "`EventLoop::loop`: `doPendingFunctors()` is the last call of the `while` body, after the channel dispatch")
    shape = "none" if not final else ("untilEmpty" if is_drain_until_empty(after[final[0]]) else "once")
    out.append("/-- how `loop()` treats the functor queue after its `while` -/\ninductive FinalDrain\n"
               "  /-- nothing: what is queued then is never run -/\n  | none\n"
               "  /-- one `doPendingFunctors()`: what that batch queues in turn is never run -/\n  | once\n"
               "  /-- `do { doPendingFunctors(); } while (queueSize() > 0);` -/\n  | untilEmpty\n"
               "deriving DecidableEq, Repr")
    out.append("/-- `EventLoop::loop`: the drain that follows the `while` -/\ndef finalDrain : FinalDrain := .%s" % shape)
    _flag(out, "loopingBracket", bracket, "`EventLoop::loop`: `looping_ = true` before the `while`, `looping_ = false` after it")
    out.append("")


def _do_pending(docs, out, append_under_lock):
    fn = the_function(docs, "doPendingFunctors", nparams=0)
    what = "EventLoop::doPendingFunctors"
    sts = _stmts(body_of(fn), what)
    local = [n for s in sts if s.tag == "decl" for n in s.names]
    if len(local) != 1:
        raise ExtractError("%s: expected one local batch vector, found %s" % (what, local))
    batch = local[0]
    # where the batch is taken
    take, swaps, locked = None, None, False
    for i, s in enumerate(sts):
        scope = s.body if s.tag == "block" else [s]
        for j, x in enumerate(scope):
            is_swap = (_is_call(x, "local:" + batch, "swap") and mentions(x.node, "pendingFunctors_")) or \
                      (_is_call(x, "pendingFunctors_", "swap") and mentions(x.node, batch))
            is_copy = x.tag in ("set", "other") and mentions(x.node, "pendingFunctors_") and mentions(x.node, batch) and not is_swap
            if is_swap or is_copy:
                if take is not None:
                    raise ExtractError("%s: the batch is taken twice" % what)
                take, swaps = i, is_swap
                held = (scope[:j] if s.tag == "block" else sts[:i])
                locked = any(y.tag == "lock" and y.mutex == "mutex_" for y in held)
    if take is None:
        raise ExtractError("%s: no statement moves pendingFunctors_ into the local batch" % what)
    if not locked:
        raise ExtractError("%s: pendingFunctors_ is read without mutex_ (the model's atomic step does not apply)" % what)
    runs = _index(sts, lambda s: s.tag == "for" and s.range == batch)
    if len(runs) != 1 or runs[0] < take:
        raise ExtractError("%s: no `for` over the local batch after it is taken" % what)
    if not any(x.tag == "invoke" for x in sts[runs[0]].body):
        raise ExtractError("%s: the `for` does not call the functors" % what)
    if any(s.tag == "lock" for s in sts[:runs[0] + 1]):
        raise ExtractError("%s: functors run with mutex_ held (not modelled)" % what)
    is_clear = lambda x: _is_call(x, "local:" + batch, "clear") and not kids(x.node)[1:]
    _only(sts, what, lambda x: x.tag == "decl" and x.names == [batch],
          lambda x: x.tag == "set" and x.target == "callingPendingFunctors_" and x.value in (True, False),
          lambda x: x is sts[take], lambda x: x.tag == "for" and x.range == batch, _is_lock, is_clear)
    if sts[take].tag == "block":
        _only(sts[take].body, what, _is_lock, lambda x: mentions(x.node, "pendingFunctors_") and mentions(x.node, batch))
    _only(sts[runs[0]].body, what, lambda x: x.tag == "invoke")
    st = _index(sts, lambda s: _is_set(s, "callingPendingFunctors_", True))
    sf = _index(sts, lambda s: _is_set(s, "callingPendingFunctors_", False))
    _flag(out, "callingSetBeforeSwap", len(st) == 1 and st[0] < take,
          "`EventLoop::doPendingFunctors`: `callingPendingFunctors_ = true` precedes the swap")
    _flag(out, "callingResetAfterRun", len(sf) == 1 and sf[0] > runs[0],
          "`EventLoop::doPendingFunctors`: `callingPendingFunctors_ = false` follows the `for`")
    # where the functor OBJECTS of the batch die (and with them whatever they own: the destructor of a captured object
    # may call queueInLoop()).  Two shapes are understood: `<batch>.clear();` once, at the top level, after the `for`
    # (before or after the flag reset), or no such statement: the vector dies at the closing brace, after everything
    # else.  Any other statement that could empty or replace the vector is not in the whitelist above.
    clears = _index(sts, is_clear)
    if len(clears) > 1:
        raise ExtractError("%s: the batch vector is cleared more than once" % what)
    if clears and clears[0] < runs[0]:
        raise ExtractError("%s: the batch vector is cleared before the `for` that runs it (not modelled)" % what)
    if any(is_clear(x) for s in sts for x in _flat([s]) if x is not s):
        raise ExtractError("%s: the batch vector is cleared inside a nested statement (not modelled)" % what)
    destroyed_first = bool(clears) and len(sf) == 1 and sf[0] > runs[0] and clears[0] < sf[0]
    _flag(out, "batchDestroyedBeforeReset", destroyed_first,
          "`EventLoop::doPendingFunctors`: the functor objects of the batch are destroyed (`functors.clear()` after the `for`) "
          "while `callingPendingFunctors_` is still set; false: they die after the reset (a `clear()` placed after it, or "
          "the vector's own destruction at the end of the function)")
    _flag(out, "drainSwaps", bool(swaps),
          "`EventLoop::doPendingFunctors`: the batch is taken with `swap` (the queue is left empty) under `mutex_`")
    _flag(out, "appendUnderLock", append_under_lock, "`EventLoop::queueInLoop`: `push_back` under `mutex_`, before the wake-up test")
    out.append("")


def _eventfd_call(docs, fn_name, callee_name, what):
    """`sockets::<callee>(wakeupFd_, &v, sizeof v)` with a local `uint64_t v`: (value `v` is initialised with, or None)"""
    fn = the_function(docs, fn_name, nparams=0)
    calls = []
    for n in walk(body_of(fn)):
        if n.get("kind") == "CallExpr":
            c = strip(kids(n)[0])
            if c.get("kind") == "DeclRefExpr" and c.get("referencedDecl", {}).get("name") == callee_name:
                calls.append(n)
    if len(calls) != 1:
        raise ExtractError("%s: expected exactly one %s() call, found %d" % (what, callee_name, len(calls)))
    args = kids(calls[0])[1:]
    if len(args) != 3 or _member_name(args[0]) != "wakeupFd_":
        raise ExtractError("%s: %s() is not called on wakeupFd_" % (what, callee_name))
    buf = strip(args[1])
    while buf.get("kind") in ("ImplicitCastExpr", "CStyleCastExpr") and kids(buf):
        buf = strip(kids(buf)[0])
    if buf.get("kind") != "UnaryOperator" or buf.get("opcode") != "&":
        raise ExtractError("%s: the buffer is not the address of a local" % what)
    var = strip(kids(buf)[0])
    if var.get("kind") != "DeclRefExpr":
        raise ExtractError("%s: the buffer is not the address of a local" % what)
    name = var["referencedDecl"]["name"]
    decl = None
    for n in walk(body_of(fn)):
        if n.get("kind") == "VarDecl" and n.get("name") == name:
            decl = n
    if decl is None or "uint64_t" not in ctype(decl):
        return False, None
    size = strip(args[2])
    ok = False
    if size.get("kind") == "UnaryExprOrTypeTraitExpr" and size.get("name") == "sizeof":
        ks = kids(size)
        if ks and strip(ks[0]).get("kind") == "DeclRefExpr" and strip(ks[0])["referencedDecl"]["name"] == name:
            ok = True
        if not ks and "uint64_t" in size.get("argType", {}).get("qualType", ""):
            ok = True
    elif size.get("kind") == "IntegerLiteral" and int(size["value"]) == 8:
        ok = True
    init = strip(kids(decl)[-1]) if kids(decl) else None
    val = int(init["value"]) if init is not None and init.get("kind") == "IntegerLiteral" else None
    return ok, val


def _eventfd(docs, out):
    ok_w, val = _eventfd_call(docs, "wakeup", "write", "EventLoop::wakeup")
    ok_r, _ = _eventfd_call(docs, "handleRead", "read", "EventLoop::handleRead")
    _flag(out, "wakeupWritesOne", bool(ok_w and val is not None and val > 0),
          "`EventLoop::wakeup`: writes a whole non-zero `uint64_t` to `wakeupFd_` (the eventfd counter becomes positive)")
    _flag(out, "handleReadDrains", bool(ok_r),
          "`EventLoop::handleRead`: reads a whole `uint64_t` from `wakeupFd_` (the eventfd counter is reset)")
    out.append("")


# ----------------------------------------------------------------------------- EventLoopThread

def _loop_ptr_test(cond, op):
    c = strip(cond)
    if c.get("kind") != "BinaryOperator" or c.get("opcode") != op:
        return False
    l, r = kids(c)
    return (_member_name(l) == "loop_" and _is_null(r)) or (_member_name(r) == "loop_" and _is_null(l))


def _elt_dtor(docs, out):
    fn = the_function(docs, "~EventLoopThread")
    what = "EventLoopThread::~EventLoopThread"
    sts = _stmts(body_of(fn), what)
    # the `if (loop_ != NULL)` that calls quit
    found = []

    def scan(scope, locked):
        held = locked
        for s in scope:
            if s.tag == "lock" and s.mutex == "mutex_":
                held = True
            elif s.tag == "block":
                scan(s.body, held)
            elif s.tag == "if":
                if _loop_ptr_test(s.cond, "!=") and any(_is_call(x, "loop_", "quit") for x in _flat(s.then)):
                    found.append((s, held))
                else:
                    scan(s.then, held)
                    if s.els:
                        scan(s.els, held)
    scan(sts, False)
    if len(found) != 1:
        raise ExtractError("%s: expected one `if (loop_ != NULL) { … loop_->quit(); … }`, found %d" % (what, len(found)))
    test, locked = found[0]
    joins = [s for s in _flat(sts) if _is_call(s, "thread_", "join")]
    if len(joins) != 1:
        raise ExtractError("%s: expected exactly one thread_.join(), found %d" % (what, len(joins)))
    inside = joins[0] in list(_flat(test.then))
    top_if = [s for s in sts if s.tag == "if" and joins[0] in s.then]
    def only_started(cond):
        try:
            return Tr({"thread_.started()": "started"}).expr(cond) == "started"
        except ExtractError:
            return False
    independent = (not inside) and (joins[0] in sts or (len(top_if) == 1 and only_started(top_if[0].cond)
                                                        and len(top_if[0].then) == 1 and not top_if[0].els))
    if not inside and not independent:
        raise ExtractError("%s: thread_.join() is guarded by something the translator does not follow" % what)
    if not inside and any(s.tag == "lock" for s in sts):
        raise ExtractError("%s: join() with mutex_ held (not modelled)" % what)
    _flag(out, "dtorLocks", locked,
          "`EventLoopThread::~EventLoopThread`: a `MutexLockGuard` on `mutex_` encloses the test of `loop_` and `loop_->quit()`")
    _flag(out, "dtorJoinsIfStarted", independent,
          "`EventLoopThread::~EventLoopThread`: `thread_.join()` does not depend on the test of `loop_`")


def _elt_thread_func(docs, out):
    fn = the_function(docs, "threadFunc", nparams=0)
    what = "EventLoopThread::threadFunc"
    sts = _stmts(body_of(fn), what)
    run = _index(sts, lambda s: s.tag == "call" and s.obj == "local:loop" and s.name == "loop")
    if len(run) != 1:
        raise ExtractError("%s: expected exactly one `loop.loop()` at the top level" % what)
    r = run[0]
    if not any(s.tag == "decl" and "loop" in s.names for s in sts[:r]):
        raise ExtractError("%s: the EventLoop is not a local object constructed before `loop.loop()`" % what)

    def find_set(scope_list, value):
        """[(locked, following statements in the same scope)] for every `loop_ = <value>` in these statements"""
        res = []

        def scan(scope, locked):
            held = locked
            for i, s in enumerate(scope):
                if s.tag == "lock" and s.mutex == "mutex_":
                    held = True
                elif s.tag == "block":
                    scan(s.body, held)
                elif _is_set(s, "loop_", value):
                    res.append((held, scope[i + 1:]))
                elif s.tag in ("if", "while", "for") and any(x.tag == "set" and x.target == "loop_" for x in _flat([s])):
                    raise ExtractError("%s: loop_ is assigned conditionally (not modelled)" % what)
        scan(scope_list, False)
        return res
    pub = find_set(sts[:r], "addr")
    if len(pub) != 1:
        raise ExtractError("%s: expected exactly one `loop_ = &loop` before `loop.loop()`, found %d" % (what, len(pub)))
    if any(s.tag == "lock" for s in sts[:r + 1]):
        raise ExtractError("%s: `loop.loop()` runs with mutex_ held (not modelled)" % what)
    clr = find_set(sts[r + 1:], "null")
    if len(clr) != 1:
        raise ExtractError("%s: expected exactly one `loop_ = NULL` after `loop.loop()`, found %d" % (what, len(clr)))
    notifies = any(_is_call(x, "cond_", "notify") or _is_call(x, "cond_", "notifyAll") for x in pub[0][1])
    _flag(out, "publishLocks", pub[0][0], "`EventLoopThread::threadFunc`: `loop_ = &loop` and the notification happen under `mutex_`")
    _flag(out, "publishNotifies", notifies, "`EventLoopThread::threadFunc`: `cond_.notify()` / `notifyAll()` follows the publication")
    _flag(out, "clearLocks", clr[0][0], "`EventLoopThread::threadFunc`: `loop_ = NULL` after `loop.loop()` happens under `mutex_`")
    # `finished_ = true` (+ notification) next to the clearing of loop_: what lets startLoop() stop waiting for a loop
    # that has come and gone
    for s in _flat(sts[:r + 1]):
        if s.tag == "set" and s.target == "finished_":
            raise ExtractError("%s: finished_ is assigned before `loop.loop()` returned (not modelled)" % what)
    after_clear = clr[0][1]
    fin = _index(after_clear, lambda s: s.tag == "set" and s.target == "finished_")
    stray = [s for s in _flat(sts[r + 1:]) if s.tag == "set" and s.target == "finished_" and s not in after_clear]
    if stray or len(fin) > 1 or (fin and after_clear[fin[0]].value is not True):
        raise ExtractError("%s: finished_ is assigned in a way the model does not have" % what)
    fin_sets = bool(fin) and clr[0][0]
    fin_notifies = fin_sets and any(_is_call(x, "cond_", "notify") or _is_call(x, "cond_", "notifyAll")
                                    for x in after_clear[fin[0] + 1:])
    _flag(out, "finishSets", fin_sets,
          "`EventLoopThread::threadFunc`: `finished_ = true` follows `loop_ = NULL` under `mutex_`")
    _flag(out, "finishNotifies", fin_notifies,
          "`EventLoopThread::threadFunc`: `cond_.notify()` / `notifyAll()` follows `finished_ = true`")


def _start_wait_cond(cond):
    """`loop_ == NULL` -> False, `loop_ == NULL && !finished_` (either order) -> True, anything else -> None"""
    if _loop_ptr_test(cond, "=="):
        return False
    c = strip(cond)
    if c.get("kind") == "BinaryOperator" and c.get("opcode") == "&&":
        l, r = kids(c)

        def not_finished(n):
            n = strip(n)
            return n.get("kind") == "UnaryOperator" and n.get("opcode") == "!" and _member_name(kids(n)[0]) == "finished_"
        if (_loop_ptr_test(l, "==") and not_finished(r)) or (_loop_ptr_test(r, "==") and not_finished(l)):
            return True
    return None


def _elt_start_loop(docs, out):
    fn = the_function(docs, "startLoop", nparams=0)
    what = "EventLoopThread::startLoop"
    sts = _stmts(body_of(fn), what)
    start = _index(sts, lambda s: _is_call(s, "thread_", "start"))
    if len(start) != 1:
        raise ExtractError("%s: expected exactly one thread_.start() at the top level" % what)
    found = []

    def scan(scope, locked):
        held = locked
        for s in scope:
            if s.tag == "lock" and s.mutex == "mutex_":
                held = True
            elif s.tag == "block":
                scan(s.body, held)
            elif s.tag in ("while", "if") and _start_wait_cond(s.cond) is not None:
                body = s.body if s.tag == "while" else s.then
                if any(_is_call(x, "cond_", "wait") for x in body):
                    found.append((s.tag, held, _start_wait_cond(s.cond)))
    scan(sts[start[0] + 1:], False)
    if len(found) != 1:
        raise ExtractError("%s: expected one `while/if (loop_ == NULL [&& !finished_]) cond_.wait();` after thread_.start(), found %d" % (what, len(found)))
    if not found[0][1]:
        raise ExtractError("%s: cond_.wait() without mutex_" % what)
    _flag(out, "startWaitsWhile", found[0][0] == "while",
          "`EventLoopThread::startLoop`: waits in a `while (loop_ == NULL …)` (re-tests after every wake-up) under `mutex_`")
    _flag(out, "startChecksFinished", found[0][2],
          "`EventLoopThread::startLoop`: the wait condition is `loop_ == NULL && !finished_` (it does not wait for a loop that is gone)")


def generate():
    docs = ast_dump("muduo/net/EventLoop.cc", "muduo::net::EventLoop")
    cdocs = ast_dump("muduo/net/EventLoop.cc", "kPollTimeMs")
    tdocs = ast_dump("muduo/net/EventLoopThread.cc", "muduo::net::EventLoopThread")
    out = [HEADER % "muduo/net/EventLoop.cc, muduo/net/EventLoopThread.cc", "namespace MuduoVerif.Gen.Loop\n"]
    out.append("def kPollTimeMs : Nat := %d\n" % const_int(cdocs, "kPollTimeMs"))
    under_lock = _queue_in_loop(docs, out)
    _run_in_loop(docs, out)
    _quit(docs, out)
    _loop(docs, out)
    _do_pending(docs, out, under_lock)
    _eventfd(docs, out)
    _elt_dtor(tdocs, out)
    _elt_thread_func(tdocs, out)
    _elt_start_loop(tdocs, out)
    out.append("\nend MuduoVerif.Gen.Loop\n")
    return "\n".join(out)
