"""T1 for the Owner engine (C02: the multi-loop ownership protocol of TcpServer), second part - STATEMENT SKELETONS of
every function of muduo/net/TcpServer.cc, from clang's AST of /repo's current sources.

vlib/gen/owner.py extracts the constants of the protocol (dispatch kind / target / hold of each hand-off, name format,
id increment, life token, final drain) and pins a few orders by hand.  What it does not see in general is the ORDER of
the statements of each function: in `TcpServer::newConnection` the model (`Owner.accept`) is ONE atomic step of the
acceptor thread that ends with the hand-over `ioLoop->runInLoop(bind(&TcpConnection::connectEstablished, conn))` - from
that statement on the connection belongs to its io loop's thread, which may run `connectEstablished`, poll the
descriptor and reach `handleClose()` before the acceptor thread executes its next instruction.  The atomic step is a
faithful model only as long as NOTHING the acceptor thread does to the connection follows the hand-over (all four
callback installations and the map insertion precede it).  This module walks each function body in source order and
emits a tree

    Skel ::= act Act | ite <printed condition> <then : List Skel> <else : List Skel> | each <var> <range> <body>

of the significant actions (vocabulary: lean/MuduoVerif/Model/OwnerSkelDecl.lean): `assertInLoopThread()`, assertions
(by their source text), constructor initialisers and stores to members, declarations of locals with an initialiser and
assignments, `new T(..)` (`create`), calls on other objects (`conn->set*Callback`, `acceptor_->..`, `threadPool_->..`,
`alive_.reset()`, `item.second.reset()`, `server->removeConnectionInLoop`), the operations of `connections_`
(`connections_[k] = v`, `erase`), system / libc calls (`sockets::getLocalAddr`, `snprintf`), hand-offs
(`<loop>->runInLoop / queueInLoop(std::bind(&C::f, args..))`: dispatch, loop expression, `C::f(args)`), `return`.

Lean side: Model/OwnerSkelDecl.lean declares the skeleton each step of Model/Owner.lean assumes;
Proofs/OwnerSkelTie.lean proves `Gen.OwnerSkel.<fn> = Decl.<fn>` by `decide` and the reading lemmas
(`handover_is_last`, ..); Props/C02.lean re-exports them as `server_statement_order_tied`.

Never guesses: a call that is neither significant nor in one of the (short, explicit) lists of value-only getters, a
statement kind outside {compound, if, range-for, return, declaration, expression, empty}, a side effect inside a
condition other than the once-only test `started_.getAndSet(1)`, a functor whose target cannot be named, a lambda
-> ExtractError.

IGNORED (the model abstracts from exactly these; listed again in the header of the generated file):
  I1  log statements (LOG_*): `if (logLevel() <= L) Logger(..).stream() << ..` and unconditional
      `Logger(..).stream() << ..` - only value getters may be called inside (LOG_PURE), anything else is an error
  I2  `(void)x;`, casts, `CHECK_NOTNULL(p)` (printed as `p`)
  I3  declarations of locals without an initialiser (`char buf[64]`); default-constructed members in the constructor's
      initialiser list
  I4  MUDUO_VERIF_POINT (an empty `do { } while (0)` in a normal build)
"""
import re

from ..extract import HEADER, ExtractError, ast_dump, body_of, ctype, kids, walk

NAME = "OwnerSkel"
TU = "muduo/net/TcpServer.cc"
CLS = "TcpServer"

# (Lean name, C++ name) in source order
FUNCTIONS = [("ctor", "TcpServer"), ("dtor", "~TcpServer"), ("setThreadNum", "setThreadNum"), ("start", "start"),
             ("newConnection", "newConnection"), ("removeConnection", "removeConnection"),
             ("removeConnectionGuarded", "removeConnectionGuarded"), ("removeConnectionIfAlive", "removeConnectionIfAlive"),
             ("removeConnectionInLoop", "removeConnectionInLoop")]

HANDOFF = {"runInLoop": "run", "queueInLoop": "queue"}
MAP_MEMBER = "connections_"
# calls that are actions, by the (printed) object they are made on
ON_OPS = {"conn": ("setConnectionCallback", "setMessageCallback", "setWriteCompleteCallback", "setCloseCallback",
                   "setHighWaterMarkCallback", "connectEstablished", "connectDestroyed", "forceClose", "shutdown", "setTcpNoDelay"),
          "acceptor_": ("setNewConnectionCallback", "listen"),
          "threadPool_": ("setThreadNum", "start", "getNextLoop"),
          "alive_": ("reset",),
          "item.second": ("reset",),
          "server": ("removeConnectionInLoop", "removeConnection")}
SYS_FREE = ("getLocalAddr", "getPeerAddr", "snprintf", "close")
# value-only getters
PURE_METHODS = ("name", "getLoop", "toIpPort", "c_str", "expired", "listening", "get", "lock", "unique", "use_count", "size",
                "empty", "connected", "disconnected")
COND_OPS = ("getAndSet",)                       # atomic test-and-set: allowed inside an `if` condition (printed there)
PURE_FREE = ("get_pointer", "CheckNotNull", "implicit_cast")
PURE_OPERATORS = ("operator->", "operator*", "operator+", "operator==", "operator!=", "operator[]")
LOG_PURE = ("operator<<", "stream", "name", "toIpPort", "c_str", "logLevel", "operator->", "operator*", "get", "get_pointer",
            "size", "getLoop")
VALUE_TYPES = ("std::", "const std::", "shared_ptr<", "const shared_ptr<", "weak_ptr<", "muduo::net::TcpConnectionPtr",
               "TcpConnectionPtr", "const muduo::net::TcpConnectionPtr", "muduo::string", "string", "basic_string<",
               "muduo::net::InetAddress", "InetAddress", "const muduo::net::InetAddress", "muduo::net::EventLoop::Functor",
               "Functor", "muduo::net::CloseCallback", "const muduo::net::CloseCallback", "muduo::net::ConnectionCallback",
               "muduo::net::MessageCallback", "muduo::net::WriteCompleteCallback", "const muduo::net::ConnectionCallback",
               "const muduo::net::MessageCallback", "const muduo::net::WriteCompleteCallback",
               "muduo::net::Acceptor::NewConnectionCallback", "const muduo::net::Acceptor::NewConnectionCallback",
               "const muduo::net::EventLoopThreadPool::ThreadInitCallback", "muduo::net::TcpServer::ThreadInitCallback",
               "typename _Bind_helper<", "Logger::SourceFile", "struct sockaddr_in6", "const struct sockaddr_in6")


PEEL_KINDS = ("ParenExpr", "ExprWithCleanups", "MaterializeTemporaryExpr", "CXXBindTemporaryExpr", "ConstantExpr",
              "ImplicitCastExpr", "CStyleCastExpr", "CXXStaticCastExpr", "CXXReinterpretCastExpr", "CXXConstCastExpr")
CALL_KINDS = ("CXXMemberCallExpr", "CallExpr", "CXXOperatorCallExpr")
CTOR_KINDS = ("CXXConstructExpr", "CXXTemporaryObjectExpr")


def is_void_cast(n):
    return n.get("kind") in ("CStyleCastExpr", "CXXFunctionalCastExpr", "CXXStaticCastExpr") and n.get("castKind") == "ToVoid"


def peel(n):
    """skip parentheses, temporaries and every cast (casts are not actions); a cast to void is kept (I2 is decided by
    the statement walker)"""
    while True:
        k = n.get("kind")
        if is_void_cast(n):
            return n
        if k in PEEL_KINDS and kids(n):
            n = kids(n)[0]
        elif k == "CXXFunctionalCastExpr" and kids(n) and n.get("castKind") != "ConstructorConversion":
            n = kids(n)[0]
        else:
            return n


def lean_str(s):
    return '"' + s.replace("\\", "\\\\").replace('"', '\\"').replace("\n", "\\n") + '"'


def callee_name(n):
    """name of the function a call node calls (member, operator or free function), else None"""
    ks = kids(n)
    if not ks:
        return None
    c = peel(ks[0])
    if c.get("kind") == "MemberExpr":
        return c.get("name")
    if c.get("kind") == "DeclRefExpr":
        return c.get("referencedDecl", {}).get("name")
    return None


def deref(n):
    """the object a (smart) pointer expression points to: `p->`, `*p`"""
    n = peel(n)
    if n.get("kind") == "CXXOperatorCallExpr" and callee_name(n) in ("operator->", "operator*") and len(kids(n)) == 2:
        return deref(kids(n)[1])
    if n.get("kind") == "UnaryOperator" and n.get("opcode") == "*":
        return deref(kids(n)[0])
    return n


def this_member(n):
    """name of the member when `n` is `this->m` / `m` (through `->`/`*` of a smart pointer member), else None"""
    n = deref(n)
    if n.get("kind") == "MemberExpr" and kids(n) and peel(kids(n)[0]).get("kind") == "CXXThisExpr":
        return n.get("name")
    return None


def is_this(n):
    return deref(n).get("kind") == "CXXThisExpr"


def is_assert(n):
    n = peel(n)
    return n.get("kind") == "ConditionalOperator" and any(
        x.get("referencedDecl", {}).get("name") in ("__assert_fail", "__assert_perror_fail") for x in walk(n))


def assert_text(n):
    for x in walk(peel(n)):
        if x.get("kind") == "CallExpr" and callee_name(x) == "__assert_fail":
            lits = [y for y in walk(kids(x)[1]) if y.get("kind") == "StringLiteral"]
            if lits:
                v = lits[0]["value"]
                return v[1:-1] if v.startswith('"') and v.endswith('"') else v
    raise ExtractError("assertion without text")


def is_log_expr(n):
    """`Logger(..).stream() << ..`"""
    n = peel(n)
    if n.get("kind") != "CXXOperatorCallExpr" or callee_name(n) != "operator<<":
        return False
    return any(x.get("kind") in CTOR_KINDS and ctype(x).replace("muduo::", "") == "Logger" for x in walk(n))


def is_log_stmt(n):
    n0 = peel(n)
    if is_log_expr(n0):
        return True
    if n0.get("kind") == "IfStmt":
        ks = kids(n0)
        if len(ks) == 2 and any(x.get("kind") == "DeclRefExpr" and x.get("referencedDecl", {}).get("name") == "logLevel"
                                for x in walk(ks[0])) and is_log_expr(ks[1]):
            return True
    return False


def short_type(t):
    t = t.strip()
    for p in ("const ", "struct ", "class "):
        while t.startswith(p):
            t = t[len(p):]
    t = t.replace("muduo::net::", "").replace("muduo::", "")
    while t.endswith("*") or t.endswith("&"):
        t = t[:-1].strip()
    return t


class Walker:
    """one function body -> list of Skel (as nested Python tuples)"""

    def __init__(self, fname, methods):
        self.fname, self.methods = fname, methods        # methods: names of the member functions of TcpServer

    def err(self, msg):
        raise ExtractError("%s::%s: %s" % (CLS, self.fname, msg))

    # ------------------------------------------------------------------ canonical printing (values only)
    def pp(self, n, top=True):
        n = peel(n)
        k = n.get("kind")
        if k == "IntegerLiteral":
            return str(int(n["value"]))
        if k == "CXXBoolLiteralExpr":
            return "true" if n["value"] else "false"
        if k in ("CXXNullPtrLiteralExpr", "GNUNullExpr"):
            return "nullptr"
        if k == "StringLiteral":
            return n["value"]
        if k == "CXXThisExpr":
            return "this"
        if k == "DeclRefExpr":
            return n["referencedDecl"]["name"]
        if k == "MemberExpr":
            if not kids(n) or peel(kids(n)[0]).get("kind") == "CXXThisExpr":
                return n["name"]
            return self.pp(deref(kids(n)[0]), False) + "." + n["name"]
        if k == "CXXMemberCallExpr":
            callee = peel(kids(n)[0])
            if callee.get("kind") != "MemberExpr":
                self.err("cannot print a call through %s" % callee.get("kind"))
            if callee.get("name", "").startswith("operator ") and len(kids(n)) == 1:
                return self.pp(deref(kids(callee)[0]), False)          # conversion operator: the object itself
            return "%s(%s)" % (self.pp(callee, False), ", ".join(self.pp(a) for a in kids(n)[1:]))
        if k == "CXXOperatorCallExpr":
            op = callee_name(n) or "operator?"
            args = kids(n)[1:]
            if op in ("operator->", "operator*") and len(args) == 1:
                return self.pp(args[0], False)
            if op == "operator[]" and len(args) == 2:
                return "%s[%s]" % (self.pp(args[0], False), self.pp(args[1]))
            sym = op[len("operator"):]
            if len(args) == 2:
                s = "%s %s %s" % (self.pp(args[0], False), sym, self.pp(args[1], False))
                return s if top else "(" + s + ")"
            self.err("cannot print operator call %s" % op)
        if k == "CallExpr":
            nm = callee_name(n)
            if nm is None:
                self.err("cannot print an indirect call")
            if nm == "CheckNotNull" and len(kids(n)) == 5:
                return self.pp(kids(n)[4], top)                        # I2: CHECK_NOTNULL(p) is p
            if nm == "bind":
                return self.bind_text(n)
            return "%s(%s)" % (nm, ", ".join(self.pp(a) for a in kids(n)[1:]))
        if k == "UnaryOperator":
            op = n.get("opcode")
            a = kids(n)[0]
            if op == "&":
                t = peel(a)
                if t.get("kind") == "DeclRefExpr" and t.get("referencedDecl", {}).get("kind") in ("CXXMethodDecl", "FunctionDecl"):
                    return self.fn_name(n)
            if n.get("isPostfix"):
                return self.pp(a, False) + op
            return op + self.pp(a, False)
        if k in ("BinaryOperator", "CompoundAssignOperator"):
            l, r = kids(n)
            s = "%s %s %s" % (self.pp(l, False), n.get("opcode"), self.pp(r, False))
            return s if top else "(" + s + ")"
        if k == "ConditionalOperator":
            c, a, b = kids(n)
            return "(%s ? %s : %s)" % (self.pp(c, False), self.pp(a, False), self.pp(b, False))
        if k in CTOR_KINDS or k == "CXXFunctionalCastExpr":
            args = [a for a in kids(n) if a.get("kind") != "CXXDefaultArgExpr"]
            t = short_type(ctype(n))
            if len(args) == 1 and t.startswith(("weak_ptr<", "std::weak_ptr<")):
                inner = self.pp(args[0])                                # a weak reference made from a shared one
                return inner if inner.startswith("weak(") else "weak(%s)" % inner
            if len(args) == 1 and k != "CXXTemporaryObjectExpr":
                return self.pp(args[0], top)                           # copy / conversion: the value itself
            return "%s(%s)" % (t, ", ".join(self.pp(a) for a in args))
        if k == "UnaryExprOrTypeTraitExpr":
            return "%s(%s)" % (n.get("name", "sizeof"), ", ".join(self.pp(a) for a in kids(n)) or n.get("argType", {}).get("qualType", ""))
        if k == "CXXDefaultArgExpr":
            return "<default>"
        if k == "CXXNewExpr":
            ty, args = self.new_parts(n)
            return "new %s(%s)" % (ty, args)
        self.err("cannot print expression node %s" % k)

    def new_parts(self, n):
        ks = kids(n)
        t = short_type(ctype(n))
        if len(ks) != 1:
            self.err("`new` of an unexpected shape")
        c = peel(ks[0])
        if c.get("kind") in CTOR_KINDS:
            return t, ", ".join(self.pp(a) for a in kids(c) if a.get("kind") != "CXXDefaultArgExpr")
        return t, self.pp(c)                                            # `new int(0)`

    def fn_name(self, amp):
        """`&C::f` -> `C::f` (the class from the member-pointer type; a static member / free function: from the list of
        TcpServer's own functions)"""
        t = peel(kids(amp)[0])
        name = t["referencedDecl"]["name"]
        m = re.search(r"\((?:muduo::net::|muduo::)?(\w+)::\*\)", ctype(amp))
        if m:
            return "%s::%s" % (m.group(1), name)
        if t["referencedDecl"].get("kind") == "CXXMethodDecl" and name in self.methods:
            return "%s::%s" % (CLS, name)
        return name

    def bind_text(self, b):
        """`std::bind(&C::f, a, b)` -> `C::f(a, b)`"""
        args = kids(b)[1:]
        if not args:
            self.err("std::bind without a function")
        f = peel(args[0])
        if not (f.get("kind") == "UnaryOperator" and f.get("opcode") == "&"):
            self.err("std::bind of something that is not `&function`")
        for x in walk(b):
            if x.get("kind") == "LambdaExpr":
                self.err("a lambda inside a functor")
            if x is not b and x.get("kind") in CALL_KINDS and callee_name(x) not in ("get_pointer", "operator->", "operator*", "bind"):
                self.err("call of `%s` while building a functor" % callee_name(x))
        return "%s(%s)" % (self.pp(f), ", ".join(self.pp(a) for a in args[1:]))

    def args(self, call):
        return lean_str(", ".join(self.pp(a) for a in kids(call)[1:] if a.get("kind") != "CXXDefaultArgExpr"))

    # ------------------------------------------------------------------ calls
    def handoff(self, call, kind, loop):
        a = kids(call)[1:]
        if len(a) != 1:
            self.err("%sInLoop with %d arguments" % (kind, len(a)))
        f = a[0]
        for x in walk(f):
            if x.get("kind") == "LambdaExpr":
                self.err("a lambda is handed to the loop (cannot name what it runs)")
        binds = [x for x in walk(f) if x.get("kind") == "CallExpr" and callee_name(x) == "bind"]
        if len(binds) != 1:
            self.err("the functor handed to %sInLoop is not one std::bind expression" % kind)
        return ".handoff .%s %s %s" % (kind, lean_str(loop), lean_str(self.bind_text(binds[0])))

    def classify(self, n):
        """(act or None, descend into the arguments?) of one call node; unknown -> ExtractError"""
        k = n.get("kind")
        nm = callee_name(n)
        if k == "CXXMemberCallExpr":
            callee = peel(kids(n)[0])
            base = kids(callee)[0] if kids(callee) else None
            if nm is not None and nm.startswith("operator ") and len(kids(n)) == 1:
                return None, True                                       # conversion operator: a value
            if base is None or is_this(base):
                return ".call %s %s" % (lean_str(nm), self.args(n)), True
            obj = self.pp(deref(base), False)
            if nm == "assertInLoopThread":
                return ".assertLoop %s" % lean_str(obj), False
            if nm in HANDOFF:
                return self.handoff(n, HANDOFF[nm], obj), False
            if this_member(base) == MAP_MEMBER:
                if nm == "erase" and len(kids(n)) == 2:
                    return ".mapErase %s" % self.args(n), True
                if nm in ("find", "end", "begin", "size", "empty", "count"):
                    return None, True
                self.err("operation `%s` on `connections_` is not in the vocabulary" % nm)
            if nm in ON_OPS.get(obj, ()):
                return ".on %s %s %s" % (lean_str(obj), lean_str(nm), self.args(n)), False
            if nm in PURE_METHODS or nm in COND_OPS:
                return None, True
            self.err("call of `%s` on `%s` is not in the vocabulary" % (nm, obj))
        if k == "CXXOperatorCallExpr":
            if nm in PURE_OPERATORS:
                return None, True
            self.err("operator call `%s` is not in the vocabulary" % nm)
        if k == "CallExpr":
            if nm in SYS_FREE:
                return ".sys %s %s" % (lean_str(nm), self.args(n)), True
            if nm in PURE_FREE:
                return None, True
            if nm == "bind":
                self.bind_text(n)                                       # checked; a value
                return None, False
            self.err("call of free function `%s` is not in the vocabulary" % nm)
        self.err("unexpected call node %s" % k)

    def lhs_name(self, n):
        n = peel(n)
        if n.get("kind") == "DeclRefExpr" and n.get("referencedDecl", {}).get("kind") in ("VarDecl", "ParmVarDecl"):
            return n["referencedDecl"]["name"], False
        m = this_member(n) if n.get("kind") == "MemberExpr" else None
        if m is not None:
            return m, True
        self.err("assignment to something that is neither a local nor a member (%s)" % n.get("kind"))

    def expr(self, n, out, in_cond=False):
        """append the acts of expression `n` to `out`, in evaluation order (arguments before the call)"""
        n = peel(n)
        k = n.get("kind")
        if k == "LambdaExpr":
            self.err("lambda expression")
        if k == "CXXOperatorCallExpr" and callee_name(n) == "operator=" and len(kids(n)) == 3:
            _, l, r = kids(n)
            pl = peel(l)
            if pl.get("kind") == "CXXOperatorCallExpr" and callee_name(pl) == "operator[]" and this_member(kids(pl)[1]) == MAP_MEMBER:
                if in_cond:
                    self.err("map insertion inside a condition")
                self.expr(kids(pl)[2], out)
                self.expr(r, out)
                out.append(("act", ".mapInsert %s %s" % (lean_str(self.pp(kids(pl)[2])), lean_str(self.pp(r)))))
                return
            self.err("`operator=` on something that is not an entry of `connections_`")
        if k in CALL_KINDS:
            if in_cond and k == "CXXMemberCallExpr" and callee_name(n) in COND_OPS:
                for c in kids(n):
                    self.expr(c, out, in_cond)
                return
            if not in_cond and k == "CXXMemberCallExpr" and callee_name(n) in COND_OPS:
                self.err("`%s` outside an `if` condition" % callee_name(n))
            act, descend = self.classify(n)
            if descend:
                for c in kids(n):
                    self.expr(c, out, in_cond)
            if act is not None:
                if in_cond:
                    self.err("side effect inside a condition: %s" % act)
                out.append(("act", act))
            return
        if k == "CXXNewExpr":
            if in_cond:
                self.err("`new` inside a condition")
            ty, a = self.new_parts(n)
            sub = []
            for c in kids(n):
                for cc in kids(peel(c)) if peel(c).get("kind") in CTOR_KINDS else [c]:
                    self.expr(cc, sub)
            if sub:
                self.err("an action inside the arguments of `new %s`" % ty)
            out.append(("act", ".create %s %s" % (lean_str(ty), lean_str(a))))
            return
        if k in CTOR_KINDS or k == "CXXFunctionalCastExpr":
            t = ctype(n)
            if not t.startswith(VALUE_TYPES):
                self.err("construction of a `%s` is not in the vocabulary" % t)
            for c in kids(n):
                self.expr(c, out, in_cond)
            return
        if k in ("BinaryOperator", "CompoundAssignOperator") and (n.get("opcode") == "=" or k == "CompoundAssignOperator"):
            l, r = kids(n)
            name, member = self.lhs_name(l)
            if in_cond:
                self.err("assignment inside a condition")
            sub = []
            self.expr(r, sub)
            out.extend(sub)
            val = "<result>" if sub else (self.pp(r) if n.get("opcode") == "=" else self.pp(n))
            out.append(("act", ".%s %s %s" % ("store" if member else "assign", lean_str(name), lean_str(val))))
            return
        if k == "UnaryOperator" and n.get("opcode") in ("++", "--"):
            name, member = self.lhs_name(kids(n)[0])
            if in_cond:
                self.err("increment inside a condition")
            out.append(("act", ".%s %s %s" % ("store" if member else "assign", lean_str(name), lean_str(self.pp(n)))))
            return
        if k in ("CXXDeleteExpr", "CXXThrowExpr", "StmtExpr"):
            self.err("%s is not in the vocabulary" % k)
        for c in kids(n):
            self.expr(c, out, in_cond)

    # ------------------------------------------------------------------ statements
    def check_log(self, n):
        for x in walk(n):
            if x.get("kind") in CALL_KINDS and callee_name(x) not in LOG_PURE:
                self.err("call of `%s` inside a log statement" % callee_name(x))
            if x.get("kind") in ("LambdaExpr", "CXXNewExpr", "CompoundAssignOperator") or \
                    (x.get("kind") == "BinaryOperator" and x.get("opcode") == "=") or \
                    (x.get("kind") == "UnaryOperator" and x.get("opcode") in ("++", "--")):
                self.err("side effect inside a log statement")

    def range_for(self, s, out):
        ks = kids(s)
        if len(ks) != 7 or [x.get("kind") for x in ks[:3]] != ["DeclStmt"] * 3 or ks[5].get("kind") != "DeclStmt":
            self.err("range-based `for` of an unexpected shape")
        rng, var = kids(ks[0])[0], kids(ks[5])[0]
        if rng.get("name", "").find("__range") != 0 or var.get("kind") != "VarDecl" or not kids(rng) or not kids(var):
            self.err("range-based `for` of an unexpected shape")
        sink = []
        self.expr(kids(rng)[0], sink, in_cond=True)
        ref = "&" if ctype(var).strip().endswith("&") else ""
        body = []
        self.stmt(ks[6], body)
        out.append(("each", ref + var["name"], self.pp(kids(rng)[0]), body))

    def local(self, v, out):
        init = kids(v)
        if not init:
            return                                                      # I3
        i0 = peel(init[0])
        if i0.get("kind") in CTOR_KINDS:
            a = [x for x in kids(i0) if x.get("kind") != "CXXDefaultArgExpr"]
            if not a:
                t = ctype(v)
                if not t.startswith(VALUE_TYPES):
                    self.err("default construction of a `%s` is not in the vocabulary" % t)
                return                                                  # I3: storage only
        sub = []
        self.expr(init[0], sub)
        out.extend(sub)
        out.append(("act", ".assign %s %s" % (lean_str(v["name"]), lean_str("<result>" if sub else self.pp(init[0])))))

    def stmt(self, s, out):
        k = s.get("kind")
        if k == "NullStmt":
            return
        if k == "CompoundStmt":
            for c in kids(s):
                self.stmt(c, out)
            return
        if is_log_stmt(s):                                              # I1
            self.check_log(s)
            return
        if k == "IfStmt":
            ks = kids(s)
            if s.get("hasInit") or s.get("hasVar") or len(ks) not in (2, 3):
                self.err("`if` with an init statement / condition variable")
            sink = []
            self.expr(ks[0], sink, in_cond=True)
            thn, els = [], []
            self.stmt(ks[1], thn)
            if len(ks) == 3:
                self.stmt(ks[2], els)
            out.append(("ite", self.pp(ks[0]), thn, els))
            return
        if k == "CXXForRangeStmt":
            self.range_for(s, out)
            return
        if k == "ReturnStmt":
            for c in kids(s):
                self.expr(c, out)
            out.append(("act", ".ret"))
            return
        if k == "DoStmt":
            body, cnd = kids(s)[0], kids(s)[1]
            if body.get("kind") == "CompoundStmt" and not kids(body) and peel(cnd).get("kind") in ("IntegerLiteral", "CXXBoolLiteralExpr"):
                return                                                  # I4
            self.err("a do-loop that is not an empty MUDUO_VERIF_POINT")
        if k == "DeclStmt":
            for v in kids(s):
                if v.get("kind") != "VarDecl":
                    self.err("declaration of a %s inside the body" % v.get("kind"))
                if v.get("storageClass") == "static":
                    self.err("a static local")
                self.local(v, out)
            return
        if is_assert(s):
            sink = []
            self.expr(kids(peel(s))[0], sink, in_cond=True)
            out.append(("act", ".assertion %s" % lean_str(assert_text(s))))
            return
        if k.endswith("Stmt"):
            self.err("statement kind %s is outside the supported subset" % k)
        s0 = peel(s)
        if is_void_cast(s0):
            sink = []
            self.expr(kids(s0)[0], sink, in_cond=True)                  # I2: `(void)n;`
            return
        self.expr(s, out)

    def ctor_inits(self, fn, out):
        for c in kids(fn):
            if c.get("kind") != "CXXCtorInitializer":
                continue
            if "baseInit" in c:
                b = peel(kids(c)[0]) if kids(c) else {}
                if b.get("kind") in CTOR_KINDS and not kids(b):
                    continue                                            # empty tag base (`noncopyable`)
                self.err("a base class is initialised with arguments")
            m = c.get("anyInit", {}).get("name")
            if m is None:
                self.err("constructor initialiser without a member name")
            e = peel(kids(c)[0])
            if e.get("kind") in CTOR_KINDS and not [a for a in kids(e) if a.get("kind") != "CXXDefaultArgExpr"]:
                continue                                                # I3: default-constructed member
            sub = []
            self.expr(kids(c)[0], sub)
            out.extend(sub)
            out.append(("act", ".store %s %s" % (lean_str(m), lean_str("<result>" if sub else self.pp(kids(c)[0])))))


def render(items, ind):
    pad = " " * ind
    lines = []
    for it in items:
        if it[0] == "act":
            lines.append("%s.act (%s)" % (pad, it[1]))
        elif it[0] == "each":
            _, var, rng, body = it
            s = "%s.each %s %s" % (pad, lean_str(var), lean_str(rng))
            s += "\n%s  [\n%s\n%s  ]" % (pad, render(body, ind + 4), pad) if body else " []"
            lines.append(s)
        else:
            _, name, thn, els = it
            s = "%s.ite %s" % (pad, lean_str(name))
            for br in (thn, els):
                if br:
                    s += "\n%s  [\n%s\n%s  ]" % (pad, render(br, ind + 4), pad)
                else:
                    s += " []"
            lines.append(s)
    return ",\n".join(lines)


HEAD_DOC = """/-!
Statement skeletons of every function of `muduo/net/TcpServer.cc` (constructor, destructor, `setThreadNum`, `start`,
`newConnection`, `removeConnection`, the static trampoline `removeConnectionGuarded`, `removeConnectionIfAlive`,
`removeConnectionInLoop`): the significant actions in source order - `assertInLoopThread()` (`assertLoop`), assertions
(by their source text), constructor initialisers and stores to members (`store`), declarations of locals with an
initialiser and assignments (`assign`; `<result>`: the value of the action just before), `new T(args)` (`create`), calls
on other objects (`on <object> <function> <arguments>`), `connections_[k] = v` (`mapInsert`), `connections_.erase(k)`
(`mapErase`), `sockets::getLocalAddr` / `snprintf` (`sys`), hand-offs `<loop>->runInLoop / queueInLoop(std::bind(&C::f,
args))` (`handoff <run|queue> <loop> "C::f(args)"`), `return`.  `if`s are `ite <printed condition> then else`, a
range-based `for` is `each <variable> <range> <body>`.  A `std::bind(&C::f, a, b)` that is an argument is printed
`C::f(a, b)`; `std::weak_ptr<void>(alive_)` is printed `weak(alive_)`; `CHECK_NOTNULL(p)` is printed `p`.
`Proofs/OwnerSkelTie.lean` proves each one equal to the skeleton the steps of `Model/Owner.lean` assume
(`Model/OwnerSkelDecl.lean`) and reads off `handover_is_last` (no action of the acceptor thread on the connection follows
the hand-over of `connectEstablished`).

Not part of a skeleton (the model abstracts from exactly these):
* I1 log statements (`LOG_TRACE/INFO/..`; only value getters may be called inside one, anything else stops the
  extraction);
* I2 `(void)x;`, casts, `CHECK_NOTNULL`;
* I3 declarations of locals without an initialiser (`char buf[64]`), default-constructed members in the constructor's
  initialiser list;
* I4 `MUDUO_VERIF_POINT` (an empty `do { } while (0)`).
Value getters (`conn->name()`, `conn->getLoop()`, `alive.expired()`, `acceptor_->listening()`, `ipPort_.c_str()`,
`listenAddr.toIpPort()`, `get_pointer`, string `+`) are not actions; `started_.getAndSet(1)` may only occur inside an
`if` condition (it is printed there); every other call, construction or statement kind must be in the vocabulary or the
extraction fails.
-/
"""


def _definitions(docs):
    """{C++ name: [definition nodes]} of the out-of-line definitions of TcpServer.cc (not the inline ones of the header)"""
    res, seen = {}, set()
    for d in docs:
        for n in walk(d):
            if n.get("kind") in ("CXXMethodDecl", "CXXConstructorDecl", "CXXDestructorDecl", "FunctionDecl") and body_of(n) is not None \
                    and not n.get("isImplicit") and n.get("id") not in seen:
                seen.add(n.get("id"))
                res.setdefault(n.get("name"), []).append(n)
    return res


def _in_cc(fn):
    """was the definition written in TcpServer.cc (its location is not inside an included file)?"""
    loc = fn.get("loc", {})
    rng = fn.get("range", {}).get("begin", {})
    for l in (loc, rng):
        if "includedFrom" in l or "includedFrom" in l.get("expansionLoc", {}) or "includedFrom" in l.get("spellingLoc", {}):
            return False
    return True


def skeletons():
    """[(lean name, C++ name, parameter types, items)] for the current tree"""
    docs = ast_dump(TU, "muduo::net::TcpServer")
    defs = _definitions(docs)
    methods = set(defs)
    listed = set(c for _, c in FUNCTIONS)
    # every out-of-line definition of the translation unit must be one of the listed functions
    for name, fs in defs.items():
        for f in fs:
            if _in_cc(f) and name not in listed:
                raise ExtractError("TcpServer.cc defines `%s`, which has no declared skeleton" % name)
    res = []
    for lean, cxx in FUNCTIONS:
        fs = [f for f in defs.get(cxx, []) if _in_cc(f)]
        if len(fs) != 1:
            raise ExtractError("expected exactly one definition of TcpServer::%s in TcpServer.cc, found %d" % (cxx, len(fs)))
        fn = fs[0]
        w = Walker(cxx, methods)
        items = []
        if fn.get("kind") == "CXXConstructorDecl":
            w.ctor_inits(fn, items)
        w.stmt(body_of(fn), items)
        ptypes = [short_type(ctype(k)) for k in kids(fn) if k.get("kind") == "ParmVarDecl"]
        res.append((lean, cxx, ptypes, items))
    return res


def generate():
    out = [HEADER % "muduo/net/TcpServer.cc", "import MuduoVerif.Model.OwnerSkelDecl\n", HEAD_DOC,
           "namespace MuduoVerif.Gen.OwnerSkel", "open MuduoVerif.OwnerSkel\n"]
    for lean, cxx, ptypes, items in skeletons():
        out.append("/-- `TcpServer::%s(%s)` -/" % (cxx, ", ".join(ptypes)))
        if items:
            out.append("def %s : List Skel :=\n  [\n%s\n  ]\n" % (lean, render(items, 4)))
        else:
            out.append("def %s : List Skel := []\n" % lean)
    out.append("end MuduoVerif.Gen.OwnerSkel")
    return "\n".join(out) + "\n"
