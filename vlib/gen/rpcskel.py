"""T1 for the RPC engine (property C19), second part - STATEMENT SKELETONS of the functions of RpcChannel.cc and
RpcServer.cc that Model/Rpc.lean implements, from clang's AST of /repo's current sources.

vlib/gen/rpc.py extracts the id source, the lock scopes, the guards, run / free / send counts and the decision tree
of the REQUEST branch.  What it does not see in general is the ORDER and NESTING of the statements between those
sites: `set_id` after the frame has left, the reply sent before its error code is set, `Run()` moved under
`if (message.has_response())`, two independent `if`s merged into `if / else if`, a second `delete` in the destructor
(which it does not read at all), `setContext` before the channel has its services ...  This module walks each function
body in source order and emits a tree

    Skel ::= act Act | ite <guard name> <then> <else> | locked <mutex> <body> | each <var> <range> <body>

of the "significant actions" (vocabulary: lean/MuduoVerif/Model/RpcSkelDecl.lean): the id fetch, every field set on an
`RpcMessage`, insert into / erase from `outstandings_`, `codec_.send` / `codec_.onMessage`, `ParseFromString`, `New()`
of a prototype, `new`, `NewCallback`, `delete`, a `unique_ptr` taking ownership (`own`) and the end of its scope
(`freeOwned`, emitted where the destructor runs: at the end of the enclosing block, in reverse order of declaration),
`Closure::Run`, `Service::CallMethod`, the connection / channel setters of `RpcServer::onConnection`, every store
(declaration with an initialiser or assignment; the actions of the right-hand side come first), every `assert`, and
`return`.  A block that declares a `MutexLockGuard` is `locked <mutex> <the rest of the block>`; a range-based `for` is
`each`.  An `if` is named after the site vlib/gen/rpc.py inspected at that very condition (its registry `rpc.SITES`,
keyed by clang's node id, so that both files always talk about the same site); any other condition is printed in a
canonical form.  The one action a condition may perform is `ParseFromString` (`if (request->ParseFromString(..))`): it
precedes the `ite`.

Lean side: Model/RpcSkelDecl.lean declares the skeleton each model function implements; Proofs/RpcSkelTie.lean proves
`Gen.RpcSkel.<fn> = Decl.<fn>` by `decide`; Props/C19 re-exports the conjunction (`statement_order_tied`).

Never guesses: a call that is neither significant nor in one of the (short, explicit) lists of value-only getters, a
statement kind outside {compound, if, range-for, return, declaration, expression, empty}, a side effect inside a
condition, an assertion or a log statement, a construction of a type that is not a plain value, a `return` inside a
lock scope or below a live `unique_ptr` -> ExtractError.  When vlib/gen/rpc.py itself cannot follow the (changed)
source (the engine "Rpc" reports that), the skeletons are still produced, with the sites it had registered up to that
point; a site it had not reached keeps its name if its condition prints exactly as on the accepted tree (FALLBACK_SITES).

IGNORED (the model abstracts from exactly these; listed again in the header of the generated file):
  I1  log statements (LOG_*): `if (logLevel() <= L) Logger(..).stream() << ..` - only value getters may be called
      inside (LOG_PURE), anything else is an error
  I4  declarations of locals without an initialiser or default-constructed (`RpcMessage message;` - an empty message:
      its content is the `setField` actions that follow), casts
  I6  an `if` that is not a registered site and none of whose branches contains a significant action
  I7  MUDUO_VERIF_POINT (an empty `do { } while (0)`)
"""
from ..extract import HEADER, ExtractError, ast_dump, body_of, ctype, kids, the_function, walk
from . import rpc
from .connskel import (CALL_KINDS, CTOR_KINDS, assert_text, callee_name, deref, is_assert, is_log_stmt, is_this, lean_str,
                       peel, this_member)

NAME = "RpcSkel"

# (Lean name, class, C++ function) in source order
CHANNEL_FUNCTIONS = [("dtor", "RpcChannel", "~RpcChannel"), ("callMethod", "RpcChannel", "CallMethod"),
                     ("onMessage", "RpcChannel", "onMessage"), ("onRpcMessage", "RpcChannel", "onRpcMessage"),
                     ("doneCallback", "RpcChannel", "doneCallback")]
SERVER_FUNCTIONS = [("onConnection", "RpcServer", "onConnection")]

MAPS = ("outstandings_", "services_")
MAP_PURE = ("find", "end", "begin", "size", "empty", "count")
ID_SOURCE = "id_"
MSG_GETTERS = ("type", "id", "has_response", "has_error", "response", "error", "service", "method", "request",
               "has_request", "has_service", "has_method")
CODEC_OPS = {"send": "send", "onMessage": "decode"}
# value getters by (a fragment of) the type of the object they are called on
PURE_BY_TYPE = (("MethodDescriptor", ("service", "name", "full_name")),
                ("ServiceDescriptor", ("full_name", "name", "FindMethodByName")),
                ("protobuf::Service", ("GetDescriptor", "GetRequestPrototype", "GetResponsePrototype")),
                ("protobuf::Message", ("SerializeAsString",)),
                ("TcpConnection", ("connected", "disconnected", "peerAddress", "localAddress", "name")),
                ("InetAddress", ("toIpPort",)))
# setters of RpcServer::onConnection, by the type of the object
CALLS_BY_TYPE = (("TcpConnection", ("setMessageCallback", "setContext")),
                 ("RpcChannel", ("setServices",)))
PURE_FREE = ("get_pointer", "bind", "move")
PURE_OPS = ("operator->", "operator*", "operator==", "operator!=", "operator<")
LOG_PURE = ("operator<<", "stream", "logLevel", "peerAddress", "localAddress", "toIpPort", "connected", "operator->",
            "operator*", "c_str", "name", "get")
# types whose construction / copy is not an action (after `short_type`)
VALUE_TYPES = ("std::", "OutstandingCall", "RpcChannel::OutstandingCall", "RpcChannelPtr", "shared_ptr<", "TcpConnectionPtr",
               "MessageCallback", "function<", "_Rb_tree", "boost::any", "any", "typename _Bind_helper<", "_Bind<", "string",
               "basic_string<", "Timestamp")
DEFAULT_OK = ("RpcMessage",)          # `RpcMessage m;` : an empty message
# the one action a condition may perform
COND_ACTS = (".parse ",)
# Used ONLY when vlib/gen/rpc.py stopped with an ExtractError (reported as such by the engine "Rpc") before it had
# registered all its sites: the canonical print each site has on the tree rpc.py accepts.  A condition it had not
# reached and that prints exactly like this keeps the site's name, so that the functions the change did not touch still
# tie and the broken `skeleton_<fn>` theorems name the changed function(s) only.
FALLBACK_SITES = {"message.type() == RESPONSE": "typeIsResponse", "message.type() == REQUEST": "typeIsRequest",
                  "message.type() == ERROR": "typeIsError", "it != outstandings_.end()": "respFound",
                  "out.response": "respCompletes", "message.has_response()": "respParses", "out.done": "respHasClosure",
                  "services_": "hasServices", "it != services_.end()": "serviceFound", "method": "methodFound",
                  "request.ParseFromString(message.request())": "requestParses", "conn.connected()": "connUp"}


def short_type(t):
    t = t.strip()
    for p in ("const ", "struct ", "class "):
        while t.startswith(p):
            t = t[len(p):]
    for q in ("::", "muduo::net::", "muduo::"):
        if t.startswith(q):
            t = t[len(q):]
    return t.strip()


def types_of(n):
    """the types clang gives the expression with and without its casts and smart-pointer dereferences"""
    return " | ".join(ctype(x) for x in (n, peel(n), deref(n)))


class Walker:
    """one function body -> list of Skel (as nested Python tuples)"""

    def __init__(self, cls, fname, fallback=False):
        self.cls, self.fname, self.fallback = cls, fname, fallback
        self.live_owners = 0          # unique_ptr locals in scope
        self.lock_depth = 0

    def err(self, msg):
        raise ExtractError("%s::%s: %s" % (self.cls, self.fname, msg))

    # ------------------------------------------------------------------ canonical printing
    def pp(self, n, top=True):
        n = peel(n)
        k = n.get("kind")
        if k == "IntegerLiteral":
            return str(int(n["value"]))
        if k == "CXXBoolLiteralExpr":
            return "true" if n["value"] else "false"
        if k in ("CXXNullPtrLiteralExpr", "GNUNullExpr"):
            return "nullptr"
        if k == "StringLiteral":
            return n["value"]
        if k == "CXXThisExpr":
            return "this"
        if k == "DeclRefExpr":
            return n["referencedDecl"]["name"]
        if k == "MemberExpr":
            if not kids(n) or peel(kids(n)[0]).get("kind") == "CXXThisExpr":
                return n["name"]
            return self.pp(deref(kids(n)[0]), False) + "." + n["name"]
        if k == "CXXMemberCallExpr":
            callee = peel(kids(n)[0])
            if callee.get("kind") != "MemberExpr":
                self.err("cannot print a call through %s" % callee.get("kind"))
            if callee.get("name", "").startswith("operator ") and len(kids(n)) == 1:
                return self.pp(deref(kids(callee)[0]), False)          # conversion operator: the object itself
            return "%s(%s)" % (self.pp(callee, False), ", ".join(self.pp(a) for a in kids(n)[1:]))
        if k == "CXXOperatorCallExpr":
            op = callee_name(n) or "operator?"
            args = kids(n)[1:]
            if op in ("operator->", "operator*") and len(args) == 1:
                return self.pp(args[0], False)
            if op == "operator[]" and len(args) == 2:
                return "%s[%s]" % (self.pp(args[0], False), self.pp(args[1]))
            sym = op[len("operator"):]
            if len(args) == 2:
                s = "%s %s %s" % (self.pp(args[0], False), sym, self.pp(args[1], False))
                return s if top else "(" + s + ")"
            if len(args) == 1:
                return sym + self.pp(args[0], False)
            self.err("cannot print operator call %s" % op)
        if k == "CallExpr":
            nm = callee_name(n)
            if nm is None:
                self.err("cannot print an indirect call")
            if nm == "get_pointer" and len(kids(n)) == 2:
                return self.pp(kids(n)[1], top)                        # the object a smart pointer points to
            return "%s(%s)" % (nm, ", ".join(self.pp(a) for a in kids(n)[1:]))
        if k == "UnaryOperator":
            op = n.get("opcode")
            a = kids(n)[0]
            if n.get("isPostfix"):
                return self.pp(a, False) + op
            return op + self.pp(a, False)
        if k in ("BinaryOperator", "CompoundAssignOperator"):
            l, r = kids(n)
            s = "%s %s %s" % (self.pp(l, False), n.get("opcode"), self.pp(r, False))
            return s if top else "(" + s + ")"
        if k == "ConditionalOperator":
            c, a, b = kids(n)
            return "(%s ? %s : %s)" % (self.pp(c, False), self.pp(a, False), self.pp(b, False))
        if k == "InitListExpr":
            return "{%s}" % ", ".join(self.pp(a) for a in kids(n))
        if k in CTOR_KINDS or k == "CXXFunctionalCastExpr":
            args = [a for a in kids(n) if a.get("kind") != "CXXDefaultArgExpr"]
            if len(args) == 1 and k != "CXXTemporaryObjectExpr":
                return self.pp(args[0], top)                           # copy / conversion: the value itself
            return "%s(%s)" % (short_type(ctype(n)), ", ".join(self.pp(a) for a in args))
        if k == "CXXNewExpr":
            ks = kids(n)
            if len(ks) != 1 or ks[0].get("kind") != "CXXConstructExpr":
                self.err("`new` of something that is not one constructor call")
            return "new %s(%s)" % (short_type(ctype(ks[0])), ", ".join(self.pp(a) for a in kids(ks[0])))
        if k == "CXXDefaultArgExpr":
            return "<default>"
        self.err("cannot print expression node %s" % k)

    def args(self, call):
        return lean_str(", ".join(self.pp(a) for a in kids(call)[1:]))

    # ------------------------------------------------------------------ calls
    def callback_target(self, call):
        """`NewCallback(this, &RpcChannel::f, a, b)` -> "f(a, b)" """
        a = kids(call)[1:]
        if len(a) < 2 or peel(a[0]).get("kind") != "CXXThisExpr":
            self.err("NewCallback that is not bound to `this`")
        t = peel(a[1])
        t = peel(kids(t)[0]) if t.get("kind") == "UnaryOperator" and t.get("opcode") == "&" else {}
        if t.get("kind") != "DeclRefExpr" or t.get("referencedDecl", {}).get("kind") != "CXXMethodDecl":
            self.err("cannot name the member function a NewCallback runs")
        return "%s(%s)" % (t["referencedDecl"]["name"], ", ".join(self.pp(x) for x in a[2:]))

    def classify(self, n):
        """(act or None, descend into the arguments?) of one call node; unknown -> ExtractError"""
        k = n.get("kind")
        nm = callee_name(n)
        if k == "CXXMemberCallExpr":
            callee = peel(kids(n)[0])
            base = kids(callee)[0] if kids(callee) else None
            if nm is None:
                self.err("call through something that is not a member name")
            if base is None or is_this(base):
                return ".call %s %s %s" % (lean_str("this"), lean_str(nm), self.args(n)), True
            if nm.startswith("operator ") and len(kids(n)) == 1:
                return None, True                                       # conversion operator: a value
            m = this_member(base)
            ty = types_of(base)
            if m in MAPS:
                if nm in MAP_PURE:
                    return None, True
                if nm == "erase" and len(kids(n)) == 2:
                    return ".mapErase %s %s" % (lean_str(m), self.args(n)), True
                self.err("operation `%s` on the map `%s` is not in the vocabulary" % (nm, m))
            if m == ID_SOURCE:
                return ".fetchId %s" % lean_str("%s(%s)" % (nm, ", ".join(self.pp(a) for a in kids(n)[1:]))), True
            if m == "codec_":
                if nm in CODEC_OPS:
                    return ".%s %s" % (CODEC_OPS[nm], self.args(n)), True
                self.err("call of `%s` on `codec_` is not in the vocabulary" % nm)
            if "RpcMessage" in ty:
                if nm in MSG_GETTERS and len(kids(n)) == 1:
                    return None, True
                if nm.startswith("set_") and len(kids(n)) == 2:
                    return ".setField %s %s %s" % (lean_str(self.pp(base)), lean_str(nm[4:]), self.args(n)), True
                self.err("call of `%s` on an RpcMessage is not in the vocabulary" % nm)
            if "protobuf::Closure" in ty:
                if nm == "Run" and len(kids(n)) == 1:
                    return ".run %s" % lean_str(self.pp(base)), True
                self.err("call of `%s` on a Closure is not in the vocabulary" % nm)
            if "protobuf::Service" in ty and "ServiceDescriptor" not in ty and nm == "CallMethod":
                return ".dispatch %s %s" % (lean_str(self.pp(base)), self.args(n)), True
            if "protobuf::Message" in ty:
                if nm == "ParseFromString" and len(kids(n)) == 2:
                    return ".parse %s %s" % (lean_str(self.pp(base)), self.args(n)), True
                if nm == "New" and len(kids(n)) == 1:
                    return ".alloc %s" % lean_str(self.pp(n)), True
            for frag, names in CALLS_BY_TYPE:
                if frag in ty and nm in names:
                    return ".call %s %s %s" % (lean_str(self.pp(base)), lean_str(nm), self.args(n)), True
            for frag, names in PURE_BY_TYPE:
                if frag in ty and nm in names:
                    return None, True
            self.err("call of `%s` on `%s` is not in the vocabulary" % (nm, self.pp(base)))
        if k == "CXXOperatorCallExpr":
            if nm in PURE_OPS:
                return None, True
            self.err("operator call `%s` is not in the vocabulary" % nm)
        if k == "CallExpr":
            if nm == "NewCallback":
                return ".newCallback %s" % lean_str(self.callback_target(n)), True
            if nm in PURE_FREE:
                return None, True
            self.err("call of free function `%s` is not in the vocabulary" % nm)
        self.err("unexpected call node %s" % k)

    def lhs_name(self, n):
        n = peel(n)
        if n.get("kind") in ("DeclRefExpr", "MemberExpr"):
            for x in walk(n):
                if x.get("kind") in CALL_KINDS and callee_name(x) not in ("operator->", "operator*"):
                    self.err("assignment through a call")
            return self.pp(n)
        self.err("assignment to something that is neither a local, a field nor a member (%s)" % n.get("kind"))

    def emit(self, out, act, in_cond):
        if in_cond == "pure":
            self.err("side effect inside an assertion or a log statement: %s" % act)
        if in_cond and not act.startswith(COND_ACTS):
            self.err("side effect inside a condition: %s" % act)
        out.append(("act", act))

    def store(self, l, r, out, in_cond):
        l0 = peel(l)
        if l0.get("kind") == "CXXOperatorCallExpr" and callee_name(l0) == "operator[]" and len(kids(l0)) == 3:
            m = this_member(kids(l0)[1])
            if m not in MAPS:
                self.err("`x[..] = ..` on something that is not a map of the channel")
            self.expr(kids(l0)[2], out, in_cond)
            self.expr(r, out, in_cond)
            self.emit(out, ".mapInsert %s %s %s" % (lean_str(m), lean_str(self.pp(kids(l0)[2])), lean_str(self.pp(r))), in_cond)
            return
        name = self.lhs_name(l)
        self.expr(r, out, in_cond)
        self.emit(out, ".assign %s %s" % (lean_str(name), lean_str(self.pp(r))), in_cond)

    def expr(self, n, out, in_cond=False):
        """append the acts of expression `n` to `out`, in evaluation order (arguments before the call, right-hand
        side before the store)"""
        n = peel(n)
        k = n.get("kind")
        if k == "LambdaExpr":
            self.err("lambda expression")
        if k == "CXXOperatorCallExpr" and callee_name(n) == "operator=":
            ks = kids(n)
            self.store(ks[1], ks[2], out, in_cond)
            return
        if k == "CXXOperatorCallExpr" and callee_name(n) == "operator[]":
            self.err("`x[..]` outside an insert `x[..] = ..` (it may create an entry)")
        if k in CALL_KINDS:
            act, descend = self.classify(n)
            if descend:
                for c in kids(n):
                    self.expr(c, out, in_cond)
            if act is not None:
                self.emit(out, act, in_cond)
            return
        if k in CTOR_KINDS or k == "CXXFunctionalCastExpr":
            t = short_type(ctype(n))
            if not t.startswith(VALUE_TYPES):
                self.err("construction of a `%s` is not in the vocabulary" % t)
            for c in kids(n):
                self.expr(c, out, in_cond)
            return
        if k == "CXXNewExpr":
            ks = kids(n)
            if len(ks) != 1 or ks[0].get("kind") != "CXXConstructExpr":
                self.err("`new` of something that is not one constructor call")
            for c in kids(ks[0]):
                self.expr(c, out, in_cond)
            self.emit(out, ".alloc %s" % lean_str(self.pp(n)), in_cond)
            return
        if k == "CXXDeleteExpr":
            a = kids(n)[0]
            self.expr(a, out, in_cond)
            self.emit(out, ".free %s" % lean_str(self.pp(a)), in_cond)
            return
        if k == "BinaryOperator" and n.get("opcode") == "=":
            l, r = kids(n)
            self.store(l, r, out, in_cond)
            return
        if k == "CompoundAssignOperator" or (k == "UnaryOperator" and n.get("opcode") in ("++", "--")):
            name = self.lhs_name(kids(n)[0])
            if k == "CompoundAssignOperator":
                self.expr(kids(n)[1], out, in_cond)
            self.emit(out, ".assign %s %s" % (lean_str(name), lean_str(self.pp(n))), in_cond)
            return
        if k in ("CXXThrowExpr", "StmtExpr"):
            self.err("%s is not in the vocabulary" % k)
        for c in kids(n):
            self.expr(c, out, in_cond)

    # ------------------------------------------------------------------ statements
    def check_log(self, n):
        for x in walk(n):
            if x.get("kind") in CALL_KINDS and callee_name(x) not in LOG_PURE:
                self.err("call of `%s` inside a log statement" % callee_name(x))
            if x.get("kind") in ("LambdaExpr", "CXXNewExpr", "CXXDeleteExpr", "CompoundAssignOperator") or (
                    x.get("kind") == "BinaryOperator" and x.get("opcode") == "="):
                self.err("assignment, allocation or lambda inside a log statement")
            if x.get("kind") == "UnaryOperator" and x.get("opcode") in ("++", "--"):
                self.err("increment inside a log statement")

    def cond(self, c, out):
        """(name of the condition, is it a registered site); a `ParseFromString` it performs goes to `out`"""
        self.expr(c, out, in_cond=True)
        cid = c.get("id")
        if cid in rpc.SITES:
            return rpc.SITES[cid], True
        text = self.pp(c)
        if self.fallback and text in FALLBACK_SITES and FALLBACK_SITES[text] not in rpc.SITES.values():
            return FALLBACK_SITES[text], True
        return text, False

    def lock_of(self, s):
        """name of the mutex when `s` is `MutexLockGuard lock(mutex)`, else None"""
        if s.get("kind") != "DeclStmt":
            return None
        vs = kids(s)
        if not any("MutexLockGuard" in ctype(v) for v in vs):
            return None
        if len(vs) != 1 or not kids(vs[0]):
            self.err("a MutexLockGuard declaration of an unexpected shape")
        c = peel(kids(vs[0])[0])
        if c.get("kind") != "CXXConstructExpr" or len(kids(c)) != 1:
            self.err("a MutexLockGuard declaration of an unexpected shape")
        m = this_member(kids(c)[0])
        if m is None:
            self.err("a MutexLockGuard on something that is not a member")
        return m

    def block(self, stmts, out):
        """the statements of one `{ }`: what follows a MutexLockGuard is `locked`; the unique_ptrs declared here are
        destroyed at the end, in reverse order of declaration (those declared under the lock, before it is released)"""
        owned = []
        for i, s in enumerate(stmts):
            m = self.lock_of(s)
            if m is not None:
                body = []
                self.lock_depth += 1
                self.block(stmts[i + 1:], body)
                self.lock_depth -= 1
                out.append(("locked", m, body))
                break
            self.stmt(s, out, owned)
        for v in reversed(owned):
            out.append(("act", ".freeOwned %s" % lean_str(v)))
        self.live_owners -= len(owned)

    def branch(self, s, out):
        self.block(kids(s) if s.get("kind") == "CompoundStmt" else [s], out)

    def stmt(self, s, out, owned):
        k = s.get("kind")
        if k == "NullStmt":
            return
        if k == "CompoundStmt":
            self.block(kids(s), out)
            return
        if is_log_stmt(s):                                              # I1
            self.check_log(s)
            return
        if k == "IfStmt":
            ks = kids(s)
            if s.get("hasInit") or s.get("hasVar") or len(ks) not in (2, 3):
                self.err("`if` with an init statement / condition variable")
            name, site = self.cond(ks[0], out)
            thn, els = [], []
            self.branch(ks[1], thn)
            if len(ks) == 3:
                self.branch(ks[2], els)
            if thn or els or site:                                      # I6
                out.append(("ite", name, thn, els))
            return
        if k == "CXXForRangeStmt":
            ks = kids(s)
            if len(ks) != 7 or [x.get("kind") for x in ks[:3]] != ["DeclStmt"] * 3 or ks[5].get("kind") != "DeclStmt":
                self.err("range-based `for` of an unexpected shape")
            rng, var = kids(ks[0])[0], kids(ks[5])[0]
            if rng.get("name", "").find("__range") != 0 or var.get("kind") != "VarDecl" or not kids(rng) or not kids(var):
                self.err("range-based `for` of an unexpected shape")
            it = peel(kids(var)[0])
            if not (it.get("kind") == "CXXOperatorCallExpr" and callee_name(it) == "operator*") and not (
                    it.get("kind") == "UnaryOperator" and it.get("opcode") == "*"):
                self.err("range-based `for` whose variable is not the element itself")
            sink = []
            self.expr(kids(rng)[0], sink, in_cond="pure")
            body = []
            self.branch(ks[6], body)
            out.append(("each", var["name"], self.pp(kids(rng)[0]), body))
            return
        if k == "ReturnStmt":
            if self.live_owners or self.lock_depth:
                self.err("`return` inside a lock scope or below a live unique_ptr (the releases it implies are not modelled)")
            for c in kids(s):
                self.expr(c, out)
            out.append(("act", ".ret"))
            return
        if k == "DoStmt":
            body, cnd = kids(s)[0], kids(s)[1]
            if body.get("kind") == "CompoundStmt" and not kids(body) and peel(cnd).get("kind") in ("IntegerLiteral", "CXXBoolLiteralExpr"):
                return                                                  # I7
            self.err("a do-loop that is not an empty MUDUO_VERIF_POINT")
        if k == "DeclStmt":
            for v in kids(s):
                if v.get("kind") != "VarDecl":
                    self.err("declaration of a %s inside the body" % v.get("kind"))
                init = kids(v)
                if not init:
                    continue                                            # I4: no initialiser
                i0 = peel(init[0])
                t = short_type(ctype(v))
                if "unique_ptr<" in t:
                    if i0.get("kind") != "CXXConstructExpr" or len(kids(i0)) != 1:
                        self.err("a unique_ptr that is not initialised from one pointer")
                    self.expr(kids(i0)[0], out)
                    out.append(("act", ".own %s %s" % (lean_str(v["name"]), lean_str(self.pp(kids(i0)[0])))))
                    owned.append(v["name"])
                    self.live_owners += 1
                    continue
                if i0.get("kind") == "CXXConstructExpr" and not kids(i0):
                    if not t.startswith(DEFAULT_OK):
                        self.err("default construction of a `%s` is not in the vocabulary" % t)
                    continue                                            # I4: default-constructed
                self.expr(init[0], out)
                out.append(("act", ".assign %s %s" % (lean_str(v["name"]), lean_str(self.pp(init[0])))))
            return
        if is_assert(s):
            sink = []
            self.expr(kids(peel(s))[0], sink, in_cond="pure")
            out.append(("act", ".assertion %s" % lean_str(assert_text(s))))
            return
        if k.endswith("Stmt"):
            self.err("statement kind %s is outside the supported subset" % k)
        # an expression statement
        self.expr(s, out)


def render(items, ind):
    pad = " " * ind
    lines = []
    for it in items:
        if it[0] == "act":
            lines.append("%s.act (%s)" % (pad, it[1]))
        elif it[0] == "each":
            _, var, rng, body = it
            s = "%s.each %s %s" % (pad, lean_str(var), lean_str(rng))
            s += "\n%s  [\n%s\n%s  ]" % (pad, render(body, ind + 4), pad) if body else " []"
            lines.append(s)
        elif it[0] == "locked":
            _, m, body = it
            s = "%s.locked %s" % (pad, lean_str(m))
            s += "\n%s  [\n%s\n%s  ]" % (pad, render(body, ind + 4), pad) if body else " []"
            lines.append(s)
        else:
            _, name, thn, els = it
            s = "%s.ite %s" % (pad, lean_str(name))
            for br in (thn, els):
                if br:
                    s += "\n%s  [\n%s\n%s  ]" % (pad, render(br, ind + 4), pad)
                else:
                    s += " []"
            lines.append(s)
    return ",\n".join(lines)


HEAD_DOC = """/-!
Statement skeletons of the functions of `RpcChannel.cc` / `RpcServer.cc` modelled in `Model/Rpc.lean`: the significant
actions in source order - the id fetch, every field set on an `RpcMessage`, insert into / erase from `outstandings_`,
`codec_.send` / `codec_.onMessage`, `ParseFromString`, `New()` of a prototype, `new`, `NewCallback`, `delete`, a
`unique_ptr` taking ownership (`own`) and the end of its scope (`freeOwned`: at the end of the enclosing block, in
reverse order of declaration), `Closure::Run`, `Service::CallMethod`, the setters called by `RpcServer::onConnection`,
every store (declaration with an initialiser or assignment; the actions of the right-hand side come first), every
`assert`, `return`.  A block that declares a `MutexLockGuard` is `locked <mutex> <rest of the block>`; a range-based
`for` is `each <variable> <range> <body>`; `if`s are `ite <guard> then else`, named after the site
`vlib/gen/rpc.py` inspected at that very condition (any other condition is printed).  A `ParseFromString` performed by
a condition precedes the `ite` (no other action may occur in a condition).
`Proofs/RpcSkelTie.lean` proves each one equal to the skeleton the model implements (`Model/RpcSkelDecl.lean`).

Not part of a skeleton (the model abstracts from exactly these):
* I1 log statements (`LOG_*`; only value getters may be called inside one, anything else stops the extraction);
* I4 declarations of locals without an initialiser or default-constructed (`RpcMessage message;` - an empty message),
  casts;
* I6 an `if` that is not a site registered by `vlib/gen/rpc.py` and none of whose branches contains a significant action;
* I7 `MUDUO_VERIF_POINT` (an empty `do { } while (0)`).
Value getters (the accessors of an `RpcMessage`, `find` / `end` / `begin` of the two maps, the descriptor look-ups
`service()`, `name()`, `full_name()`, `GetDescriptor()`, `FindMethodByName()`, `Get{Request,Response}Prototype()`,
`SerializeAsString()`, `conn->connected()`, `get_pointer`, `std::bind`, iterator `->` / `*`, comparisons) are not
actions of their own - they appear inside the printed value of the store or argument that uses them; every other call,
construction or statement kind must be in the vocabulary or the extraction fails.
-/
"""


def generate():
    fallback = False
    try:
        rpc.generate()         # fills rpc.SITES for the tree as it is now (same cached AST dump)
    except ExtractError:
        fallback = True        # reported by the engine "Rpc" itself; the sites found so far stay registered
    import os
    from ..common import BUILD
    inc = (os.path.join(BUILD, "gen-t1"),)
    docs = ast_dump("muduo/net/protorpc/RpcChannel.cc", "muduo::net::RpcChannel", extra_inc=inc)
    sdocs = ast_dump("muduo/net/protorpc/RpcServer.cc", "muduo::net::RpcServer", extra_inc=inc)
    out = [HEADER % "muduo/net/protorpc/RpcChannel.cc, RpcServer.cc", "import MuduoVerif.Model.RpcSkelDecl\n", HEAD_DOC,
           "namespace MuduoVerif.Gen.RpcSkel", "open MuduoVerif.RpcSkel\n"]
    todo = [(lean, cls, the_function(docs, cxx)) for lean, cls, cxx in CHANNEL_FUNCTIONS]
    todo += [(lean, cls, the_function(sdocs, cxx)) for lean, cls, cxx in SERVER_FUNCTIONS]
    for lean, cls, fn in todo:
        w = Walker(cls, fn["name"], fallback)
        items = []
        w.block(kids(body_of(fn)), items)
        ptypes = [short_type(ctype(k)) for k in kids(fn) if k.get("kind") == "ParmVarDecl"]
        out.append("/-- `%s::%s(%s)` -/" % (cls, fn["name"], ", ".join(ptypes)))
        if items:
            out.append("def %s : List Skel :=\n  [\n%s\n  ]\n" % (lean, render(items, 4)))
        else:
            out.append("def %s : List Skel := []\n" % lean)
    out.append("end MuduoVerif.Gen.RpcSkel")
    return "\n".join(out) + "\n"
