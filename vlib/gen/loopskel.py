"""T1 for the EVENT-LOOP FAMILY - STATEMENT SKELETONS of every function defined in muduo/net/EventLoop.cc (except
`createEventfd`: Generated/SysSkel.lean has it), EventLoopThread.cc, EventLoopThreadPool.cc, Acceptor.cc and the
constructor / destructor of Channel.cc, from clang's AST of /repo's current sources.

vlib/gen/loop.py, pool.py, acceptor.py and poller.py extract GUARDS and a number of hand-picked shape flags
(`appendUnderLock`, `quitStoresFirst`, `publishLocks`, ..) of these functions; the models (Model/Loop.lean, Pool.lean,
Acceptor.lean, Poller.lean, Timer.lean) take the rest of each function - which statements there are and in which order -
from reading the source.  This module extracts that rest: one tree per function

    Skel ::= act Act | ite <condition> <then> <else> | loop <whileDo | doWhile | forDo> <condition> <body>
           | switch <scrutinee> <body>

in the vocabulary of the system-call layer (lean/MuduoVerif/Model/SysSkelDecl.lean: `MuduoVerif.SysSkel.Act / Skel`;
walker: vlib/gen/sysskel.py `SysWalker` over vlib/logskel_common.py, extended here).  No new constructor is needed; the
action kinds this family adds are encoded as `call <name> <arguments>` with fixed names:

  lock / unlock   `MutexLockGuard lock(mutex_);` is `call "lock" "mutex_"` at the declaration and `call "unlock" "mutex_"`
                  where the ENCLOSING COMPOUND STATEMENT ENDS (several guards of one block are released in reverse
                  order), so what is inside and what is outside a critical section is part of the skeleton.  A `return`
                  inside the block is printed before the `unlock` (its value is computed under the lock).
  callbacks       `cb()`, `functor()`, `callback_(&loop)`, `newConnectionCallback_(connfd, peerAddr)`, `cb(baseLoop_)`
                  - a call through a `std::function` - is `call "<the function object>" "<arguments>"`.
  containers      `pendingFunctors_.push_back(cb)`, `functors.swap(pendingFunctors_)`, `activeChannels_.clear()`,
                  `threads_.push_back(..)`, `loops_.push_back(..)` are `call "<object>.<operation>" "<arguments>"`;
                  `size / empty / begin / end / operator[]` are values.
  other objects   `wakeupChannel_->enableReading()` is `call "wakeupChannel_.enableReading" ""` (smart and plain
                  pointers print as `.`), a member function of the same class is `call "wakeup" ""`.
  functions       of muduo are named by the DECLARATION the call refers to, relative to `muduo::net`
                  (`sockets::write`, `Poller::newDefaultPoller`; outside `net`: `Timestamp::now`, `CurrentThread::tid`,
                  `addTime`, `Logger::logLevel`); everything that is not declared inside `muduo` is `sys` (`::close`,
                  `::open`, `::accept`, `::signal`, `snprintf`) except `createEventfd` (EventLoop.cc's own, `call`).
  range-for       `for (Channel* channel : activeChannels_) body` is `loop forDo "channel : activeChannels_" body` (a
                  plain `for` prints `init; condition; increment`, so the two cannot be confused).
  values          `std::bind(&C::f, a, b)` prints `bind(&C::f, a, b)` (the function named by its declaration);
                  `std::move(x)`, `std::unique_ptr<T>(p)`, `implicit_cast<T>(x)` print as their argument (I3);
                  `new T(args)` prints as a value; `EventLoop loop;` (a default-constructed object that is NOT plain
                  storage) is `assign "loop" "EventLoop()"`; a member constructed from several arguments is
                  `store "thread_" "Thread(bind(&EventLoopThread::threadFunc, this), name)"`.
  nesting         an action call that is an argument of another action (`loops_.push_back(t->startLoop())`) comes first
                  and `<result>` stands for its value.

Lean side: Model/LoopSkelDecl.lean declares the skeleton each model step assumes; Proofs/LoopSkelTie.lean proves
`Gen.LoopSkel.<fn> = Decl.<fn>` by `decide` and the reading lemmas (the orders the properties rest on); Props/C04, C05,
C06, C09, C11 re-export them.

Never guesses: every call must be classified (value / call / sys) by the declaration it refers to or by the type of the
object it is made on; an unknown call, a `goto`, `try`, lambda, a local of an unknown record type, a lock guard outside a
compound statement, a definition in one of the four translation units that has no declared skeleton -> ExtractError.

IGNORED (the models abstract from exactly these; listed again in the header of the generated file): I1-I5 of
vlib/gen/sysskel.py (log statements below ERROR and the text of every log statement; locals without an initialiser and
default-constructed PLAIN records - here `InetAddress peerAddr`, `std::vector<Functor> functors`, `char buf[n]`; casts,
`std::move`, `(void)x`; argument-less base / member initialisers; `static_assert`, `MUDUO_VERIF_POINT`).
"""
from ..extract import HEADER, ExtractError, ast_dump, body_of, ctype, kids, walk
from ..logskel_common import (CALL_KINDS, CTOR_KINDS, FN_KINDS, P_ATOM, Walker, callee_name, lean_str, param_types, peel,
                              peel_plain)
from .sysskel import SysEngine, SysWalker, qualify, render

NAME = "LoopSkel"

NS_FILTER = "muduo::"               # one clang run per translation unit: every declaration of muduo it can see
CAST_CALLS = ("move", "implicit_cast", "down_cast", "forward")
LOCK_GUARDS = ("MutexLockGuard",)


def tclass(t):
    """`std::unique_ptr<muduo::net::Poller>` -> ("unique_ptr", "Poller"); `std::vector<Functor>` -> ("vector", None);
    `muduo::net::EventLoop *` -> ("EventLoop", None)"""
    t = t.strip()
    changed = True
    while changed:
        changed = False
        for p in ("const ", "struct ", "class ", "volatile "):
            if t.startswith(p):
                t, changed = t[len(p):].strip(), True
        for s in ("&", "*", " const"):
            if t.endswith(s):
                t, changed = t[:-len(s)].strip(), True
    head, inner = t, None
    if "<" in t and t.endswith(">"):
        head = t[:t.index("<")]
        inner = t[t.index("<") + 1:-1]
    head = head.split("::")[-1]
    if head in ("unique_ptr", "shared_ptr") and inner is not None:
        first = inner.split(",")[0]
        return head, tclass(first)[0]
    if head == "basic_string":
        head = "string"
    return head, None


def dtype(n):
    """the type of a node with typedefs resolved (`ChannelList` -> `std::vector<muduo::net::Channel *>`)"""
    t = n.get("type", {})
    return t.get("desugaredQualType") or t.get("qualType", "")


class LoopEngine(SysEngine):
    methods = {
        "EventLoop": {"value": ("isInLoopThread",),
                      "call": ("assertInLoopThread", "quit", "loop", "hasChannel", "updateChannel", "removeChannel")},
        "Channel": {"value": ("fd", "ownerLoop", "isNoneEvent", "reventsToString"),
                    "call": ("setReadCallback", "enableReading", "disableAll", "remove", "handleEvent")},
        "Poller": {"value": (), "call": ("poll", "updateChannel", "removeChannel", "hasChannel")},
        "TimerQueue": {"value": (), "call": ("addTimer", "cancel")},
        "vector": {"value": ("size", "empty", "begin", "end", "back", "front"),
                   "call": ("push_back", "swap", "clear", "insert", "erase", "pop_back", "resize", "reserve")},
        "Thread": {"value": ("started",), "call": ("start", "join")},
        "Condition": {"value": (), "call": ("wait", "notify", "notifyAll")},
        "Socket": {"value": ("fd",), "call": ("setReuseAddr", "setReusePort", "bindAddress", "listen", "accept")},
        "InetAddress": {"value": ("family",)},
        "string": {"value": ("c_str", "size", "data", "empty")},
        "EventLoopThread": {"value": (), "call": ("startLoop",)},
        "EventLoopThreadPool": {"value": ()},
        "Acceptor": {"value": ()},
        "IgnoreSigPipe": {"value": ()},
        "function": {"value": ()},
        "atomic": {"value": ("load",)},
    }
    # functions declared inside muduo (named relative to muduo::net / muduo), by the declaration the call refers to
    free_value = ("Timestamp::now", "CurrentThread::tid", "addTime", "Logger::logLevel")
    free_call = ("Poller::newDefaultPoller", "sockets::createNonblockingOrDie", "sockets::close", "sockets::read",
                 "sockets::write")
    # everything else (NOT declared inside muduo): by plain name
    ext_value = ("find", "bind")
    ext_call = ("createEventfd",)                                        # EventLoop.cc's own (Generated/SysSkel.lean)
    ext_sys = ("signal", "close", "open", "accept", "snprintf")
    storage_types = ("InetAddress", "vector", "string")                 # default construction = storage only (I2)
    object_types = ("EventLoop",)                                        # `EventLoop loop;` is an action
    log_pure = ("operator<<", "stream", "logLevel", "__errno_location", "strerror_tl", "c_str", "fd", "tid",
                "reventsToString")


class LoopWalker(SysWalker):
    scopes = None               # stack of [mutex expression, ..]: the guards declared in each open compound statement

    # -------------------------------------------------------------- receivers
    def receiver_class(self, base):
        obj, smart = self.deref(base)
        if obj.get("kind") == "CXXThisExpr":
            return self.owner, obj
        head, inner = tclass(dtype(obj))
        if smart:
            if inner is None:
                self.err("`%s` is dereferenced like a smart pointer but its type is %s" % (self.pp(obj), dtype(obj)))
            return inner, obj
        return head, obj

    # -------------------------------------------------------------- calls
    def call_args(self, n):
        """the argument nodes of a call (the object of an `operator()` call is not an argument)"""
        if n.get("kind") == "CXXOperatorCallExpr":
            return kids(n)[2:]
        return kids(n)[1:]

    def classify(self, n):
        k = n.get("kind")
        if k == "CallExpr":
            nm, ours = self.qname(n)
            if nm is not None and not ours and nm in CAST_CALLS and len(kids(n)) == 2:
                return "cast", None
        if k == "CXXOperatorCallExpr":
            nm = callee_name(n)
            if nm == "operator()" and len(kids(n)) >= 2:
                obj = peel(kids(n)[1])
                if tclass(dtype(obj))[0] != "function":
                    self.err("`operator()` on a %s (only a std::function may be called)" % dtype(obj))
                return "call", self.pp(obj, P_ATOM)
            if nm == "operator[]" and len(kids(n)) == 3:
                if tclass(dtype(peel(kids(n)[1])))[0] != "vector":
                    self.err("`operator[]` on a %s" % dtype(peel(kids(n)[1])))
                return "value", nm
        return SysWalker.classify(self, n)

    def qname(self, n):
        nm, ours = SysWalker.qname(self, n)
        return nm, ours

    # -------------------------------------------------------------- printing
    def pp_(self, n):
        n = peel(n)
        k = n.get("kind")
        if self.hoisted is not None and n.get("id") == self.hoisted:
            return "<result>", P_ATOM
        if k == "DeclRefExpr":
            rd = n.get("referencedDecl", {})
            if rd.get("kind") in ("CXXMethodDecl", "FunctionDecl") and rd.get("id") in self.qual:
                return self.qual[rd["id"]], P_ATOM                      # `&EventLoop::handleRead`
        if k in CALL_KINDS:
            kind, name = self.classify(n)
            if kind in ("call", "sys"):
                if self.inline > 0:
                    return "{%s %s(%s)}" % (kind, name, self.args(self.call_args(n))), P_ATOM
                self.err("the call of `%s` (an action) is nested inside another expression" % name)
            if kind == "value" and k == "CXXOperatorCallExpr" and callee_name(n) == "operator[]":
                return "%s[%s]" % (self.pp(kids(n)[1], P_ATOM), self.pp(kids(n)[2])), P_ATOM
        if k in CTOR_KINDS or k == "CXXFunctionalCastExpr":
            args = [a for a in kids(n) if a.get("kind") != "CXXDefaultArgExpr"]
            head, _ = tclass(dtype(n))
            if len(args) == 1 and k != "CXXTemporaryObjectExpr":
                return self.pp_(args[0])                                # copy / move / conversion: the value itself
            if len(args) == 1 and head in ("unique_ptr", "shared_ptr", "function"):
                return self.pp_(args[0])                                # `std::unique_ptr<T>(p)`: the pointer (I3)
            if not args:
                self.err("default construction of a `%s` inside an expression" % dtype(n))
            return "%s(%s)" % (head, self.args(args)), P_ATOM           # `std::vector<EventLoop*>(1, baseLoop_)`
        if k == "CXXNewExpr":
            ks = kids(n)
            c = peel_plain(ks[0]) if len(ks) == 1 else {}
            if c.get("kind") not in CTOR_KINDS:
                self.err("`new` of something that is not a single constructed object")
            return "new %s(%s)" % (tclass(dtype(c))[0], self.args(kids(c))), 15
        return SysWalker.pp_(self, n)

    # -------------------------------------------------------------- actions
    def emit_action(self, n, out):
        """emit action call `n`; an action among its arguments (one, unconditional) is emitted first and printed
        `<result>`"""
        kind, name = self.classify(n)
        argn = self.call_args(n)
        acc = []
        for a in argn:
            self.find_actions(a, False, acc)
        if not acc:
            text = self.args(argn)
        elif len(acc) == 1 and not acc[0][1]:
            self.emit_action(acc[0][0], out)
            old, self.hoisted = self.hoisted, acc[0][0].get("id")
            try:
                text = self.args(argn)
            finally:
                self.hoisted = old
        else:
            self.err("%d action calls inside the arguments of `%s`, or one that is evaluated conditionally" % (len(acc), name))
        out.append(("act", ".%s %s %s" % (kind, lean_str(name), lean_str(text))))

    def find_actions(self, n, cond, acc):
        p = peel(n)
        if p.get("kind") == "CXXOperatorCallExpr" and callee_name(p) == "operator()":
            kind, _ = self.classify(p)
            if kind in ("call", "sys"):
                acc.append((p, cond))
                return
        SysWalker.find_actions(self, n, cond, acc)

    def hoist(self, n, out, in_condition=False):
        acc = []
        self.find_actions(n, False, acc)
        if not acc:
            return self.pp(n)
        if len(acc) == 1 and not acc[0][1]:
            a = acc[0][0]
            self.emit_action(a, out)
            old, self.hoisted = self.hoisted, a.get("id")
            try:
                return self.pp(n)
            finally:
                self.hoisted = old
        if not in_condition:
            self.err("%d action calls inside one expression (`%s` ..), or one that is evaluated conditionally" % (
                len(acc), self.classify(acc[0][0])[1]))
        return self.inline_text(n)

    # -------------------------------------------------------------- statements
    def range_for(self, s, out):
        ks = kids(s)
        if len(ks) != 7 or [x.get("kind") for x in ks[:3]] != ["DeclStmt"] * 3 or ks[5].get("kind") != "DeclStmt":
            self.err("range-based `for` of an unexpected shape")
        rng, var = kids(ks[0])[0], kids(ks[5])[0]
        if rng.get("name", "").find("__range") != 0 or var.get("kind") != "VarDecl" or not kids(rng) or not kids(var):
            self.err("range-based `for` of an unexpected shape")
        text = "%s : %s" % (var["name"], self.pp(kids(rng)[0]))          # also checks: no action inside the range
        body = []
        self.stmt(ks[6], body)
        out.append(("loop", ".forDo", text, body))

    def stmt(self, s, out):
        k = s.get("kind")
        if k == "CompoundStmt":
            if self.scopes is None:
                self.scopes = []
            self.scopes.append([])
            for c in kids(s):
                self.stmt(c, out)
            for m in reversed(self.scopes.pop()):
                out.append(("act", ".call \"unlock\" %s" % lean_str(m)))
            return
        if k == "CXXForRangeStmt":
            self.range_for(s, out)
            return
        SysWalker.stmt(self, s, out)

    def expr_stmt(self, s, out):
        n = peel(s)
        k = n.get("kind")
        if k in CALL_KINDS and not (k == "CXXOperatorCallExpr" and callee_name(n) in ("operator=", "operator++", "operator--")):
            kind, _ = self.classify(n)
            if kind in ("call", "sys"):
                self.emit_action(n, out)
                return
            self.hoist(n, out)                                          # a value computed and dropped
            return
        SysWalker.expr_stmt(self, s, out)

    def local(self, v, out):
        init = kids(v)
        if v.get("storageClass") == "static":
            self.err("a static local")
        head, _ = tclass(dtype(v))
        if "[" in ctype(v) and not [i for i in init if i.get("kind") in CTOR_KINDS or i.get("kind") == "InitListExpr"]:
            for i in init:                                              # `char buf[name_.size() + 32]`: the bound is a value
                self.pp(i)
            return                                                      # I2
        if not init:
            return                                                      # I2
        i0 = peel(init[0])
        if i0.get("kind") in CTOR_KINDS:
            args = [a for a in kids(i0) if a.get("kind") != "CXXDefaultArgExpr"]
            if head in LOCK_GUARDS:
                if len(args) != 1:
                    self.err("lock guard `%s` with %d arguments" % (v["name"], len(args)))
                if not self.scopes:
                    self.err("lock guard `%s` outside a compound statement" % v["name"])
                m = self.pp(args[0])
                out.append(("act", ".call \"lock\" %s" % lean_str(m)))
                self.scopes[-1].append(m)
                return
            if not args:
                if head in self.e.storage_types:
                    return                                              # I2
                if head in self.e.object_types:
                    out.append(("act", ".assign %s %s" % (lean_str(v["name"]), lean_str("%s()" % head))))
                    return
                self.err("default construction of a `%s` is not in the vocabulary" % dtype(v))
        out.append(("act", ".assign %s %s" % (lean_str(v["name"]), lean_str(self.hoist(init[0], out)))))

    def ctor_inits(self, fn, out):
        for c in kids(fn):
            if c.get("kind") != "CXXCtorInitializer":
                continue
            e = peel(kids(c)[0]) if kids(c) else {}
            if "baseInit" in c:
                if e.get("kind") in CTOR_KINDS and not [a for a in kids(e) if a.get("kind") != "CXXDefaultArgExpr"]:
                    continue                                            # I4
                self.err("a base class is initialised with arguments")
            m = c.get("anyInit", {}).get("name")
            if m is None:
                self.err("constructor initialiser without a member name")
            if e.get("kind") in CTOR_KINDS:
                args = [a for a in kids(e) if a.get("kind") != "CXXDefaultArgExpr"]
                if not args:
                    continue                                            # I4
                if len(args) > 1:
                    acc = []
                    for a in args:
                        self.find_actions(a, False, acc)
                    if acc:
                        self.err("an action call among the %d constructor arguments of member `%s`" % (len(args), m))
                    out.append(("act", ".store %s %s" % (lean_str(m), lean_str("%s(%s)" % (tclass(dtype(e))[0], self.args(args))))))
                    continue
            out.append(("act", ".store %s %s" % (lean_str(m), lean_str(self.hoist(kids(c)[0], out)))))


def skeleton_of(owner, fn, qual):
    w = LoopWalker(LoopEngine, owner, fn.get("name"), {}, None)
    w.qual = qual
    w.scopes = []
    w.local_ids = frozenset(x.get("id") for x in walk(fn) if x.get("kind") in ("VarDecl", "ParmVarDecl"))
    items = []
    if fn.get("kind") == "CXXConstructorDecl":
        w.ctor_inits(fn, items)
    w.stmt(body_of(fn), items)
    if w.scopes:
        raise ExtractError("%s: unbalanced scopes" % fn.get("name"))
    return items


E = "muduo/net/EventLoop.cc"
T = "muduo/net/EventLoopThread.cc"
P = "muduo/net/EventLoopThreadPool.cc"
A = "muduo/net/Acceptor.cc"
C = "muduo/net/Channel.cc"
# (Lean name, translation unit, name relative to muduo::net)
FUNCTIONS = [
    ("ignoreSigPipeCtor", E, "IgnoreSigPipe::IgnoreSigPipe"),
    ("getEventLoopOfCurrentThread", E, "EventLoop::getEventLoopOfCurrentThread"),
    ("loopCtor", E, "EventLoop::EventLoop"),
    ("loopDtor", E, "EventLoop::~EventLoop"),
    ("loopFn", E, "EventLoop::loop"),
    ("quit", E, "EventLoop::quit"),
    ("runInLoop", E, "EventLoop::runInLoop"),
    ("queueInLoop", E, "EventLoop::queueInLoop"),
    ("queueSize", E, "EventLoop::queueSize"),
    ("runAt", E, "EventLoop::runAt"),
    ("runAfter", E, "EventLoop::runAfter"),
    ("runEvery", E, "EventLoop::runEvery"),
    ("cancel", E, "EventLoop::cancel"),
    ("updateChannel", E, "EventLoop::updateChannel"),
    ("removeChannel", E, "EventLoop::removeChannel"),
    ("hasChannel", E, "EventLoop::hasChannel"),
    ("abortNotInLoopThread", E, "EventLoop::abortNotInLoopThread"),
    ("wakeup", E, "EventLoop::wakeup"),
    ("handleRead", E, "EventLoop::handleRead"),
    ("doPendingFunctors", E, "EventLoop::doPendingFunctors"),
    ("printActiveChannels", E, "EventLoop::printActiveChannels"),
    ("threadCtor", T, "EventLoopThread::EventLoopThread"),
    ("threadDtor", T, "EventLoopThread::~EventLoopThread"),
    ("startLoop", T, "EventLoopThread::startLoop"),
    ("threadFunc", T, "EventLoopThread::threadFunc"),
    ("poolCtor", P, "EventLoopThreadPool::EventLoopThreadPool"),
    ("poolDtor", P, "EventLoopThreadPool::~EventLoopThreadPool"),
    ("poolStart", P, "EventLoopThreadPool::start"),
    ("getNextLoop", P, "EventLoopThreadPool::getNextLoop"),
    ("getLoopForHash", P, "EventLoopThreadPool::getLoopForHash"),
    ("getAllLoops", P, "EventLoopThreadPool::getAllLoops"),
    ("acceptorCtor", A, "Acceptor::Acceptor"),
    ("acceptorDtor", A, "Acceptor::~Acceptor"),
    ("acceptorListen", A, "Acceptor::listen"),
    ("acceptorHandleRead", A, "Acceptor::handleRead"),
    ("channelCtor", C, "Channel::Channel"),
    ("channelDtor", C, "Channel::~Channel"),
]
# a function outside `muduo` (global anonymous namespace): dumped by the name of its class
OWN_FILTER = {"IgnoreSigPipe::IgnoreSigPipe": "IgnoreSigPipe"}
# definitions of these translation units whose skeletons are extracted elsewhere
ELSEWHERE = {
    C: ("Channel::tie",                                                  # Generated/SysSkel.lean
        "Channel::update", "Channel::remove", "Channel::handleEvent", "Channel::handleEventWithGuard",  # PollerSkel
        "Channel::reventsToString", "Channel::eventsToString"),          # text of log statements only
}

HEAD_DOC = """/-!
Statement skeletons of the event-loop family: every function defined in `muduo/net/EventLoop.cc` (except `createEventfd`,
see `Generated/SysSkel.lean`), `EventLoopThread.cc`, `EventLoopThreadPool.cc`, `Acceptor.cc` and the constructor /
destructor of `Channel.cc` - the significant actions in source order, in the vocabulary of `Model/SysSkelDecl.lean`
(`sys`, `call`, `store`, `assign`, `log`, `assertion`, `ret`, `ite`, `loop`; `<result>` = the value of the action just
before; an action call inside a loop condition is printed inline as `{call f(args)}`).  Encodings of this family (all are
`call <name> <arguments>`):
* `MutexLockGuard lock(mutex_);` is `call "lock" "mutex_"` at the declaration and `call "unlock" "mutex_"` where the
  enclosing compound statement ends (a `return` inside the block is printed before the `unlock`);
* a call through a `std::function` (`cb()`, `functor()`, `callback_(&loop)`, `newConnectionCallback_(connfd, peerAddr)`)
  is `call "<the function object>" "<arguments>"`;
* container operations are `call "pendingFunctors_.push_back" "cb"`, `call "functors.swap" "pendingFunctors_"`, ..;
  `size / empty / begin / end / operator[]` are values;
* a call on another object prints the object with `.` for `->` (`call "wakeupChannel_.enableReading" ""`), a member
  function of the same class by its plain name (`call "wakeup" ""`); functions of muduo are named by the declaration the
  call refers to, relative to `muduo::net` (`sockets::write`, `Timestamp::now`, `CurrentThread::tid`, `addTime`);
  whatever is not declared inside `muduo` is `sys` (`::close`, `::open`, `::accept`, `::signal`, `snprintf`), except
  `createEventfd` (`call`);
* `for (Channel* channel : activeChannels_) body` is `loop forDo "channel : activeChannels_" body`;
* `std::bind(&C::f, a)` prints `bind(&C::f, a)`; `std::move(x)`, `std::unique_ptr<T>(p)`, `implicit_cast<T>(x)` print as
  their argument; `new T(args)` is a value; `EventLoop loop;` is `assign "loop" "EventLoop()"`; a member constructed from
  several arguments is `store "thread_" "Thread(..)"`; an action call that is an argument of another action comes first
  (`loops_.push_back(t->startLoop())` is `[call "t.startLoop" "", call "loops_.push_back" "<result>"]`).
`Proofs/LoopSkelTie.lean` proves each one equal to the skeleton the models assume (`Model/LoopSkelDecl.lean`) and reads off
the orders the properties rest on.

Not part of a skeleton (the models abstract from exactly these): I1 log statements below ERROR (`LOG_TRACE/DEBUG/INFO/
WARN`) and the text of every log statement (only value getters may be called inside one); I2 locals without an
initialiser and default-constructed plain records (`InetAddress peerAddr`, `std::vector<Functor> functors`,
`char buf[n]`); I3 casts of every kind, `std::move`, `(void)x`; I4 argument-less base-class initialisers (`noncopyable`)
and default-constructed members (`mutex_()`); I5 `static_assert`, `MUDUO_VERIF_POINT` (an empty `do { } while (0)`), empty
statements.  Every other call must be classified (value / call / sys) by the declaration it refers to or by the type of
the object it is made on, or the extraction fails; so does a `goto`, `try`, lambda, and a definition in one of the
translation units `EventLoop.cc`, `EventLoopThread.cc`, `EventLoopThreadPool.cc`, `Acceptor.cc`, `Channel.cc` that has no
skeleton here or in `Generated/SysSkel.lean` / `Generated/PollerSkel.lean`.
-/
"""


def _in_cc(fn):
    """was the definition written in the translation unit itself (not inside an included file)?"""
    for l in (fn.get("loc", {}), fn.get("range", {}).get("begin", {})):
        if "includedFrom" in l or "includedFrom" in l.get("expansionLoc", {}) or "includedFrom" in l.get("spellingLoc", {}):
            return False
    return True


def _rel(q):
    return q[len("net::"):] if q.startswith("net::") else q


def generate():
    out = [HEADER % "muduo/net/EventLoop.cc, EventLoopThread.cc, EventLoopThreadPool.cc, Acceptor.cc, Channel.cc",
           "import MuduoVerif.Model.SysSkelDecl\n", HEAD_DOC, "namespace MuduoVerif.Gen.LoopSkel", "open MuduoVerif.SysSkel\n"]
    cache = {}

    def unit(tu, flt):
        if (tu, flt) not in cache:
            docs = ast_dump(tu, flt)
            if flt == NS_FILTER:
                names, defs = qualify(docs)
                cache[(tu, flt)] = ({i: _rel(q) for i, q in names.items()}, [(_rel(q), f) for q, f in defs])
            else:
                names, defs = qualify(docs)                             # top-level documents: the class itself
                cache[(tu, flt)] = (names, defs)
        return cache[(tu, flt)]
    listed = {}
    for _, tu, qn in FUNCTIONS:
        listed.setdefault(tu, set()).add(qn)
    # every definition written in one of the translation units must have a skeleton (here or elsewhere)
    for tu in (E, T, P, A, C):
        _, defs = unit(tu, NS_FILTER)
        for q, f in defs:
            if _in_cc(f) and q not in listed[tu] and q not in ELSEWHERE.get(tu, ()):
                raise ExtractError("%s defines `%s`, which has no declared skeleton" % (tu, q))
    for lean, tu, qn in FUNCTIONS:
        qual, defs = unit(tu, NS_FILTER)
        if qn in OWN_FILTER:
            q2, defs = unit(tu, OWN_FILTER[qn])
            qual = dict(qual)
            qual.update(q2)
        fs = [f for q, f in defs if q == qn and _in_cc(f)]
        if len(fs) != 1:
            raise ExtractError("expected exactly one definition of %s in %s, found %d" % (qn, tu, len(fs)))
        items = skeleton_of(qn.rsplit("::", 1)[0], fs[0], qual)
        out.append("/-- `%s(%s)` -/" % (qn, ", ".join(param_types(fs[0]))))
        if items:
            out.append("def %s : List Skel :=\n  [\n%s\n  ]\n" % (lean, render(items, 4)))
        else:
            out.append("def %s : List Skel := []\n" % lean)
    out.append("end MuduoVerif.Gen.LoopSkel")
    return "\n".join(out) + "\n"
