"""T1 for muduo::net::RpcChannel / RpcServer / rpc.proto (property C19).

What is taken from the current sources (clang AST of RpcChannel.cc, RpcServer.cc; text of rpc.proto):
  * the enums of rpc.proto with their wire values;
  * CallMethod: the id source (`id_.<method>()`), that the same variable goes onto the wire and is the
    key of the insert, that the insert is inside a MutexLockGuard scope, the order insert / send;
  * onRpcMessage: the if / else-if chain on `message.type()`; RESPONSE branch: the assertion, the key of the
    look-up, look-up + erase inside the lock scope, the `if (out.response)` test (with `out` starting as
    {NULL, NULL}), parse guard, the number of `Run()` calls and that they are outside the lock scope, the
    owner of the response object; REQUEST branch: a symbolic execution of the nested ifs gives the decision
    tree (number of dispatches, error replies with the source of their id); ERROR branch: empty or not;
  * doneCallback: id source, number of sends, who frees the response;
  * RpcServer::onConnection: one new channel per UP, services installed, message callback, context.
Anything that does not have the expected shape raises ExtractError (never guessed).
"""
import os
import re

from .. import build
from ..common import BUILD, REPO, flock
from ..extract import (HEADER, ExtractError, Tr, ast_dump, body_of, if_cond, kids, prop_def, strip, the_function,
                       unparen, walk)

NAME = "Rpc"

# clang node id of an `if` condition -> name under which that site appears in this file's output (additive registry
# for vlib/gen/rpcskel.py, so that the statement skeletons name an `if` after the very condition inspected here):
#   typeIsResponse / typeIsRequest / typeIsError  the chain of `typeSwitch`;  respFound  `if (it != outstandings_.end())`;
#   respCompletes  `if (out.response)`;  respParses;  respHasClosure  `if (out.done)` around Run();
#   hasServices / serviceFound / methodFound / requestParses  the arguments of `requestDecision`;
#   connUp  `if (conn->connected())` of RpcServer::onConnection.
SITES = {}


def site(cond, name):
    """register a condition node (as it hangs under its IfStmt, and stripped)"""
    SITES[cond.get("id")] = name
    SITES[strip(cond).get("id")] = name


# ----------------------------------------------------------------------------- helpers
def callee_name(n):
    """name of the member function of a CXXMemberCallExpr"""
    if n.get("kind") != "CXXMemberCallExpr" or not kids(n):
        return None
    c = strip(kids(n)[0])
    return c.get("name") if c.get("kind") == "MemberExpr" else None


def callee_base(n):
    c = strip(kids(n)[0])
    return strip(kids(c)[0]) if kids(c) else None


def ref_name(n):
    """name of the variable / member an expression denotes (through casts, `->`, `*`, get_pointer)"""
    n = strip(n)
    k = n.get("kind")
    if k == "DeclRefExpr":
        return n["referencedDecl"]["name"]
    if k == "MemberExpr":
        base = strip(kids(n)[0]) if kids(n) else None
        if base is None or base.get("kind") == "CXXThisExpr":
            return n["name"]
        b = ref_name(base)
        return None if b is None else b + "." + n["name"]
    if k == "ImplicitCastExpr":
        return ref_name(kids(n)[0])
    if k == "CXXOperatorCallExpr":
        ks = kids(n)
        op = strip(ks[0])
        if op.get("kind") == "DeclRefExpr" and op["referencedDecl"]["name"] in ("operator->", "operator*") and len(ks) == 2:
            return ref_name(ks[1])
    if k == "CXXConstructExpr" and len(kids(n)) == 1:
        return ref_name(kids(n)[0])
    if k == "CallExpr" and len(kids(n)) == 2:
        c = strip(kids(n)[0])
        if c.get("kind") == "DeclRefExpr" and c["referencedDecl"]["name"] == "get_pointer":
            return ref_name(kids(n)[1])
    return None


def member_calls(node, name):
    return [n for n in walk(node) if callee_name(n) == name]


def contains(scope, node):
    return any(x is node for x in walk(scope))


def preorder_index(root, node):
    for i, x in enumerate(walk(root)):
        if x is node:
            return i
    raise ExtractError("node not under the expected root")


def lock_scopes(fn):
    """the regions guarded by a `MutexLockGuard` on mutex_: from the declaration of the guard to the end of the compound
    statement that declares it.  A guard that opens its block gives the block itself; a guard declared further down gives
    a synthetic CompoundStmt holding the guard and the statements after it (`anchor` = the guard's DeclStmt, a real node)"""
    res = []
    for n in walk(body_of(fn)):
        if n.get("kind") != "CompoundStmt" or not kids(n):
            continue
        ks = kids(n)
        for idx, st in enumerate(ks):
            if st.get("kind") != "DeclStmt":
                continue
            if any(v.get("kind") == "VarDecl" and "MutexLockGuard" in v.get("type", {}).get("qualType", "")
                   and any(x.get("kind") == "MemberExpr" and x.get("name") == "mutex_" for x in walk(v)) for v in kids(st)):
                res.append(n if idx == 0 else {"kind": "CompoundStmt", "id": "lockscope-%s" % st.get("id"), "inner": ks[idx:], "anchor": st})
    return res


def scope_anchor(scope):
    return scope.get("anchor", scope)


def is_assert(n):
    n0 = n
    while n0.get("kind") in ("ParenExpr", "ExprWithCleanups"):
        n0 = kids(n0)[0]
    if n0.get("kind") == "ConditionalOperator":
        return any(x.get("kind") == "DeclRefExpr" and x.get("referencedDecl", {}).get("name") == "__assert_fail" for x in walk(n0))
    return False


def assert_cond(n):
    while n.get("kind") in ("ParenExpr", "ExprWithCleanups"):
        n = kids(n)[0]
    return kids(n)[0]


def var_decls(node):
    return [v for n in walk(node) if n.get("kind") == "DeclStmt" for v in kids(n) if v.get("kind") == "VarDecl"]


def var_named(node, name):
    vs = [v for v in var_decls(node) if v.get("name") == name]
    if len(vs) != 1:
        raise ExtractError("expected one local `%s`, found %d" % (name, len(vs)))
    return vs[0]


def is_message_field(n, field, msg="message"):
    """`message.<field>()`"""
    n = strip(n)
    return callee_name(n) == field and ref_name(callee_base(n)) == msg


def proto_enums():
    path = os.path.join(REPO, "muduo/net/protorpc/rpc.proto")
    with open(path) as f:
        text = re.sub(r"//[^\n]*", "", f.read())
    res = {}
    for m in re.finditer(r"enum\s+(\w+)\s*\{([^}]*)\}", text):
        items = re.findall(r"(\w+)\s*=\s*(\d+)\s*;", m.group(2))
        res[m.group(1)] = [(a, int(b)) for a, b in items]
    for need in ("MessageType", "ErrorCode"):
        if need not in res:
            raise ExtractError("rpc.proto: enum %s not found" % need)
    fields = dict((m.group(3), (m.group(1), m.group(2))) for m in
                  re.finditer(r"(required|optional)\s+(\w+)\s+(\w+)\s*=\s*\d+\s*;", text))
    return res, fields


def lean_enum(name, items, doc):
    s = "/-- %s -/\ninductive %s\n%s\nderiving DecidableEq, Repr\n" % (doc, name, "\n".join("  | %s" % a for a, _ in items))
    s += "def %s.toNat : %s → Nat\n%s\n" % (name, name, "\n".join("  | .%s => %d" % (a, b) for a, b in items))
    s += "def %s.ofNat? (n : Nat) : Option %s :=\n  %s none\n" % (
        name, name, " ".join("if n = %d then some .%s else" % (b, a) for a, b in items))
    return s


def b(v):
    return "true" if v else "false"


# ----------------------------------------------------------------------------- the engine
def generate():
    SITES.clear()
    gen = os.path.join(BUILD, "gen-t1")
    with flock("protoc-t1"):
        try:
            build._protoc(gen)
        except build.BuildError as ex:
            raise ExtractError("protoc failed: %s" % ex.output[-500:])
    inc = (os.path.join(gen),)
    docs = ast_dump("muduo/net/protorpc/RpcChannel.cc", "muduo::net::RpcChannel", extra_inc=inc)
    enums, fields = proto_enums()
    out = [HEADER % "muduo/net/protorpc/RpcChannel.cc, RpcChannel.h, RpcServer.cc, rpc.proto", "namespace MuduoVerif.Gen.Rpc\n"]
    out.append(lean_enum("MessageType", enums["MessageType"], "rpc.proto `MessageType` with its wire values"))
    out.append(lean_enum("ErrorCode", enums["ErrorCode"], "rpc.proto `ErrorCode` with its wire values"))
    for f, kind in (("type", "required"), ("id", "required"), ("response", "optional"), ("error", "optional"),
                    ("service", "optional"), ("method", "optional"), ("request", "optional")):
        if f not in fields or fields[f][0] != kind:
            raise ExtractError("rpc.proto: field `%s` is no longer %s" % (f, kind))
    mt = dict(enums["MessageType"])
    ec = [a for a, _ in enums["ErrorCode"]]

    # ---------------------------------------------------------------- CallMethod
    cm = the_function(docs, "CallMethod")
    body = body_of(cm)
    idv = var_named(body, "id")
    init = strip(kids(idv)[-1])
    src = callee_name(init)
    if src is None or ref_name(callee_base(init)) != "id_":
        raise ExtractError("CallMethod: `id` is not initialised from a method of id_")
    args = [strip(a) for a in kids(init)[1:]]
    lit = int(args[0]["value"]) if len(args) == 1 and args[0].get("kind") == "IntegerLiteral" else None
    table = {
        ("incrementAndGet", 0): "(counter + 1, counter + 1)",
        ("getAndIncrement", 0): "(counter, counter + 1)",   # not in Atomic.h today; kept for a rename
        ("get", 0): "(counter, counter)",
        ("addAndGet", 1): None if lit is None else "(counter + %d, counter + %d)" % (lit, lit),
        ("getAndAdd", 1): None if lit is None else "(counter, counter + %d)" % lit,
    }
    fetch = table.get((src, len(args)))
    if fetch is None:
        raise ExtractError("CallMethod: id source `id_.%s(...)` is outside the translated subset" % src)
    out.append("/-- `CallMethod`: `int64_t id = id_.%s(%s)` as (value returned, new counter) -/\n"
               "def idFetch (counter : Nat) : Nat × Nat := %s\n" % (src, "" if lit is None else lit, fetch))
    setids = [c for c in member_calls(body, "set_id") if ref_name(callee_base(c)) == "message"]
    wire_ok = len(setids) == 1 and ref_name(kids(setids[0])[1]) == "id"
    out.append("/-- `message.set_id(id)`: the fetched id is the one that goes onto the wire -/\ndef callWireIdIsFetched : Bool := %s\n" % b(wire_ok))
    settypes = [c for c in member_calls(body, "set_type") if ref_name(callee_base(c)) == "message"]
    if len(settypes) != 1 or ref_name(kids(settypes[0])[1]) not in mt:
        raise ExtractError("CallMethod: no single set_type(<MessageType>)")
    out.append("def callWireType : MessageType := .%s\n" % ref_name(kids(settypes[0])[1]))
    inserts = []
    for n in walk(body):
        if n.get("kind") == "CXXOperatorCallExpr":
            ks = kids(n)
            op = strip(ks[0])
            if op.get("kind") == "DeclRefExpr" and op["referencedDecl"]["name"] == "operator=" and len(ks) == 3:
                lhs = strip(ks[1])
                if lhs.get("kind") == "CXXOperatorCallExpr":
                    lk = kids(lhs)
                    lop = strip(lk[0])
                    if lop.get("kind") == "DeclRefExpr" and lop["referencedDecl"]["name"] == "operator[]" \
                            and ref_name(lk[1]) == "outstandings_":
                        inserts.append((n, ref_name(lk[2]), ref_name(ks[2])))
    if len(inserts) != 1:
        raise ExtractError("CallMethod: expected exactly one `outstandings_[..] = ..`, found %d" % len(inserts))
    ins, key, val = inserts[0]
    outv = var_named(body, val) if val else None
    il = strip(kids(outv)[-1]) if outv is not None and kids(outv) else None
    if il is None or il.get("kind") != "InitListExpr" or [ref_name(x) for x in kids(il)] != ["response", "done"]:
        raise ExtractError("CallMethod: the registered value is not { response, done }")
    out.append("/-- `outstandings_[id] = out`: keyed by the fetched id -/\ndef callKeyIsFetched : Bool := %s\n" % b(key == "id"))
    scopes = lock_scopes(cm)
    out.append("/-- the insert is inside a `MutexLockGuard lock(mutex_)` scope -/\ndef callInsertUnderLock : Bool := %s\n"
               % b(any(contains(s, ins) for s in scopes)))
    sends = [c for c in member_calls(body, "send") if ref_name(callee_base(c)) == "codec_"]
    if len(sends) != 1 or [ref_name(a) for a in kids(sends[0])[1:]] != ["conn_", "message"]:
        raise ExtractError("CallMethod: expected exactly one codec_.send(conn_, message)")
    out.append("/-- the call is registered before the request is sent -/\ndef callInsertBeforeSend : Bool := %s\n"
               % b(preorder_index(body, ins) < preorder_index(body, sends[0])))
    out.append("/-- the request is not sent while the lock is held -/\ndef callSendOutsideLock : Bool := %s\n"
               % b(not any(contains(s, sends[0]) for s in scopes)))

    # ---------------------------------------------------------------- onRpcMessage: the type switch
    orm = the_function(docs, "onRpcMessage")
    top = [s for s in kids(body_of(orm)) if s.get("kind") == "IfStmt"]
    if len(top) != 1:
        raise ExtractError("onRpcMessage: expected one top-level if / else-if chain")
    chain, node = [], top[0]
    chain_conds = []
    while node is not None:
        ks = kids(node)
        c = strip(ks[0])
        if c.get("kind") != "BinaryOperator" or c.get("opcode") != "==":
            raise ExtractError("onRpcMessage: a branch condition is not `message.type() == X`")
        l, r = [strip(x) for x in kids(c)]
        if not is_message_field(l, "type") or ref_name(r) not in mt:
            raise ExtractError("onRpcMessage: a branch condition is not `message.type() == X`")
        chain.append((ref_name(r), ks[1]))
        chain_conds.append(ks[0])
        node = ks[2] if len(ks) > 2 else None
        if node is not None and node.get("kind") != "IfStmt":
            raise ExtractError("onRpcMessage: trailing else that is not an else-if")
    names = [c[0] for c in chain]
    if len(set(names)) != len(names):
        raise ExtractError("onRpcMessage: a message type is tested twice")
    out.append("/-- which code handles a message type (the if / else-if chain of `onRpcMessage`) -/\n"
               "inductive Branch\n  | response | request | error | none\nderiving DecidableEq, Repr\n")
    role = {}
    for nm, comp in chain:
        # the role of a branch is decided by what it does, not by the constant it is guarded with
        if member_calls(comp, "find") and any(ref_name(callee_base(c)) == "outstandings_" for c in member_calls(comp, "find")):
            role[nm] = "response"
        elif member_calls(comp, "FindMethodByName"):
            role[nm] = "request"
        else:
            role[nm] = "error"
    for need in ("response", "request"):
        if list(role.values()).count(need) != 1:
            raise ExtractError("onRpcMessage: no unique %s branch" % need)
    out.append("def typeSwitch (t : MessageType) : Branch :=\n  %s .none\n" % " ".join(
        "if t = .%s then .%s else" % (nm, role[nm]) for nm in names))
    comp_of = dict((role[nm], comp) for nm, comp in chain)
    for (nm, _), c in zip(chain, chain_conds):
        site(c, "typeIs" + role[nm].capitalize())

    # ---------------------------------------------------------------- RESPONSE branch
    rc = comp_of["response"]
    asserts = [s for s in kids(rc) if is_assert(s)]
    if len(asserts) > 1:
        raise ExtractError("RESPONSE branch: more than one assertion")
    sym = {"message.has_response()": "hasResponse", "message.has_error()": "hasError"}
    abody = unparen(Tr(sym).expr(assert_cond(asserts[0]))) if asserts else "True"
    out.append(prop_def("respAssert", [("hasResponse", "Bool"), ("hasError", "Bool")], abody,
                        "RESPONSE branch: the `assert` (compiled out with NDEBUG)"))
    rid = var_named(rc, "id")
    out.append("/-- the look-up key is `message.id()` -/\ndef respKeyIsMessageId : Bool := %s\n"
               % b(is_message_field(kids(rid)[-1], "id")))
    finds = [c for c in member_calls(rc, "find") if ref_name(callee_base(c)) == "outstandings_"]
    if len(finds) != 1:
        raise ExtractError("RESPONSE branch: expected one outstandings_.find")
    if ref_name(kids(finds[0])[1]) != "id":
        raise ExtractError("RESPONSE branch: outstandings_.find is not keyed by the local `id`")
    rscopes = lock_scopes(orm)
    scope = next((s for s in rscopes if contains(s, finds[0])), None)
    out.append("/-- look-up (and erase) happen inside a `MutexLockGuard lock(mutex_)` scope -/\ndef respLookupUnderLock : Bool := %s\n" % b(scope is not None))
    itv = next((v for v in var_decls(rc) if contains(v, finds[0])), None)
    if itv is None:
        raise ExtractError("RESPONSE branch: result of find is not kept in a local")
    found_ifs = [i for i in walk(rc) if i.get("kind") == "IfStmt" and any(
        x.get("kind") == "DeclRefExpr" and x.get("referencedDecl", {}).get("name") == "operator!=" for x in walk(if_cond(i)))
        and itv["name"] in [ref_name(a) for a in kids(strip(if_cond(i)))[1:]] and member_calls(if_cond(i), "end")]
    if len(found_ifs) != 1 or len(kids(found_ifs[0])) != 2:
        raise ExtractError("RESPONSE branch: no single `if (it != outstandings_.end())` without else")
    fthen = kids(found_ifs[0])[1]
    site(if_cond(found_ifs[0]), "respFound")
    takes = False
    for n in walk(fthen):
        if n.get("kind") == "CXXOperatorCallExpr":
            ks = kids(n)
            op = strip(ks[0])
            if op.get("kind") == "DeclRefExpr" and op["referencedDecl"]["name"] == "operator=" and len(ks) == 3 \
                    and ref_name(ks[1]) == "out" and ref_name(ks[2]) == itv["name"] + ".second":
                takes = True
    if not takes:
        raise ExtractError("RESPONSE branch: `out = it->second` not found in the found-branch")
    erases = [c for c in member_calls(rc, "erase") if ref_name(callee_base(c)) == "outstandings_"]
    erase_ok = len(erases) == 1 and contains(fthen, erases[0]) and ref_name(kids(erases[0])[1]) == itv["name"] \
        and scope is not None and contains(scope, erases[0])
    if erases and not erase_ok:
        raise ExtractError("RESPONSE branch: an erase that is not `outstandings_.erase(it)` in the found-branch under the lock")
    out.append("/-- the found entry is erased before the lock is released -/\ndef respErasesWhenFound : Bool := %s\n" % b(erase_ok))
    outv = var_named(rc, "out")
    il = strip(kids(outv)[-1])
    nulls = il.get("kind") == "InitListExpr" and all(
        any(x.get("kind") in ("GNUNullExpr", "CXXNullPtrLiteralExpr") or (x.get("kind") == "IntegerLiteral" and x.get("value") == "0")
            for x in walk(e)) for e in kids(il)) and len(kids(il)) == 2
    if not nulls:
        raise ExtractError("RESPONSE branch: `out` does not start as { NULL, NULL }")
    guards = [i for i in kids(rc) if i.get("kind") == "IfStmt" and ref_name(if_cond(i)) == "out.response"]
    if len(guards) != 1 or len(kids(guards[0])) != 2:
        raise ExtractError("RESPONSE branch: no single `if (out.response)` without else at branch level")
    g = kids(guards[0])[1]
    site(if_cond(guards[0]), "respCompletes")
    if scope is not None and preorder_index(rc, guards[0]) < preorder_index(rc, scope_anchor(scope)):
        raise ExtractError("RESPONSE branch: completion precedes the look-up")
    runs = [c for c in member_calls(rc, "Run")]
    for r in runs:
        if ref_name(callee_base(r)) != "out.done" or not contains(g, r):
            raise ExtractError("RESPONSE branch: a Run() that is not out.done->Run() under `if (out.response)`")
        if any(x.get("kind") in ("ForStmt", "WhileStmt", "DoStmt", "CXXForRangeStmt") and contains(x, r) for x in walk(g)):
            raise ExtractError("RESPONSE branch: Run() inside a loop")
    out.append("/-- number of `out.done->Run()` calls on the completion path -/\ndef respRunCount : Nat := %d\n" % len(runs))
    out.append("/-- parse and closure run after the lock scope has been left -/\ndef respRunOutsideLock : Bool := %s\n"
               % b(not any(contains(s, r) for s in rscopes for r in runs) and not any(contains(s, guards[0]) for s in rscopes)))
    for r in runs:
        # every Run is guarded by `if (out.done)`
        if not any(i.get("kind") == "IfStmt" and ref_name(if_cond(i)) == "out.done" and contains(kids(i)[1], r) for i in walk(g)):
            raise ExtractError("RESPONSE branch: Run() not guarded by `if (out.done)`")
        for i in walk(g):
            if i.get("kind") == "IfStmt" and ref_name(if_cond(i)) == "out.done" and contains(kids(i)[1], r):
                site(if_cond(i), "respHasClosure")
    parses = member_calls(g, "ParseFromString")
    if len(parses) != 1 or ref_name(callee_base(parses[0])) != "out.response" or not is_message_field(kids(parses[0])[1], "response"):
        raise ExtractError("RESPONSE branch: expected one out.response->ParseFromString(message.response())")
    pif = [i for i in walk(g) if i.get("kind") == "IfStmt" and contains(kids(i)[1], parses[0])]
    if len(pif) != 1:
        raise ExtractError("RESPONSE branch: the parse is not under exactly one `if`")
    site(if_cond(pif[0]), "respParses")
    out.append(prop_def("respParses", [("hasResponse", "Bool"), ("hasError", "Bool")], unparen(Tr(sym).expr(if_cond(pif[0]))),
                        "RESPONSE branch: the registered response object is parsed from the payload"))
    if runs and preorder_index(g, parses[0]) > min(preorder_index(g, r) for r in runs):
        raise ExtractError("RESPONSE branch: closure runs before the response is parsed")
    owners = [v for v in var_decls(g) if "unique_ptr" in v.get("type", {}).get("qualType", "") and ref_name(kids(v)[-1]) == "out.response"]
    deletes = [n for n in walk(rc) if n.get("kind") == "CXXDeleteExpr"]
    if deletes:
        raise ExtractError("RESPONSE branch: explicit delete (outside the translated subset)")
    out.append("/-- how many owners free the response object when the branch is left (`unique_ptr d(out.response)`) -/\n"
               "def respFreeCount : Nat := %d\n" % len(owners))

    # ---------------------------------------------------------------- REQUEST branch (symbolic execution)
    qc = comp_of["request"]
    errv = var_named(qc, "error")
    e0 = ref_name(kids(errv)[-1])
    if e0 not in ec:
        raise ExtractError("REQUEST branch: `error` does not start as an ErrorCode constant")
    facts = {"dispatch_id": set(), "reply_id": set()}

    def cond_sym(c0):
        nm = cond_sym0(c0)
        site(c0, nm)
        return nm

    def cond_sym0(c):
        c = strip(c)
        if c.get("kind") == "ImplicitCastExpr" and c.get("castKind") == "PointerToBoolean":
            nm = ref_name(kids(c)[0])
            if nm == "services_":
                return "hasServices"
            if nm == "method":
                mv = var_named(qc, "method")
                mi = strip(kids(mv)[-1])
                if callee_name(mi) != "FindMethodByName" or not is_message_field(kids(mi)[1], "method"):
                    raise ExtractError("REQUEST branch: `method` is not FindMethodByName(message.method())")
                return "methodFound"
        if c.get("kind") == "CXXOperatorCallExpr" and any(
                x.get("kind") == "DeclRefExpr" and x.get("referencedDecl", {}).get("name") == "operator!=" for x in kids(c)[:1] for x in walk(x)):
            a = ref_name(kids(c)[1])
            ends = member_calls(c, "end")
            if a == "it" and ends and ref_name(callee_base(ends[0])) == "services_":
                iv = var_named(qc, "it")
                f = member_calls(iv, "find")
                if len(f) != 1 or ref_name(callee_base(f[0])) != "services_" or not is_message_field(kids(f[0])[1], "service"):
                    raise ExtractError("REQUEST branch: `it` is not services_->find(message.service())")
                return "serviceFound"
        if callee_name(c) == "ParseFromString" and ref_name(callee_base(c)) == "request" and is_message_field(kids(c)[1], "request"):
            return "requestParses"
        raise ExtractError("REQUEST branch: a condition outside the symbol map")

    def error_cmp(c):
        """`error != X` / `error == X` -> (op, X) else None"""
        c = strip(c)
        if c.get("kind") == "BinaryOperator" and c.get("opcode") in ("!=", "=="):
            l, r = kids(c)
            if ref_name(l) == "error" and ref_name(r) in ec:
                return c["opcode"], ref_name(r)
        return None

    def reply_of(comp, err):
        """the statements of the error-reply block: returns (idsrc, err) per send"""
        msgs = [v for v in var_decls(comp) if "RpcMessage" in v.get("type", {}).get("qualType", "")]
        if len(msgs) != 1:
            raise ExtractError("REQUEST branch: reply block does not build exactly one RpcMessage")
        m = msgs[0]["name"]
        st = [c for c in member_calls(comp, "set_type") if ref_name(callee_base(c)) == m]
        if len(st) != 1 or ref_name(kids(st[0])[1]) != "RESPONSE":
            raise ExtractError("REQUEST branch: reply is not typed RESPONSE")
        si = [c for c in member_calls(comp, "set_id") if ref_name(callee_base(c)) == m]
        if len(si) > 1:
            raise ExtractError("REQUEST branch: reply sets its id twice")
        if si and not is_message_field(kids(si[0])[1], "id"):
            raise ExtractError("REQUEST branch: reply id is not message.id()")
        idsrc = ".requestId" if si else ".unset"
        se = [c for c in member_calls(comp, "set_error") if ref_name(callee_base(c)) == m]
        if len(se) != 1 or ref_name(kids(se[0])[1]) != "error":
            raise ExtractError("REQUEST branch: reply does not carry `error`")
        if [c for c in member_calls(comp, "set_response") if ref_name(callee_base(c)) == m]:
            raise ExtractError("REQUEST branch: error reply carries a payload")
        sn = [c for c in member_calls(comp, "send") if ref_name(callee_base(c)) == "codec_"]
        for c in sn:
            if [ref_name(a) for a in kids(c)[1:]] != ["conn_", m]:
                raise ExtractError("REQUEST branch: a send that is not codec_.send(conn_, <reply>)")
        return [(idsrc, err)] * len(sn)

    def sx(stmts, err, nd, replies):
        """symbolic execution of a statement list; returns a Lean term of type Nat × List (IdSrc × ErrorCode)"""
        if not stmts:
            return "(%d, [%s])" % (nd, ", ".join("(%s, .%s)" % r for r in replies))
        s, rest = stmts[0], stmts[1:]
        k = s.get("kind")
        if k == "CompoundStmt":
            return sx(kids(s) + rest, err, nd, replies)
        if k == "DeclStmt" or is_assert(s) or k == "NullStmt":
            if any(callee_name(x) in ("send", "Run", "CallMethod") for x in walk(s)):
                raise ExtractError("REQUEST branch: an effect inside a declaration")
            return sx(rest, err, nd, replies)
        if k == "BinaryOperator" and s.get("opcode") == "=" and ref_name(kids(s)[0]) == "error" and ref_name(kids(s)[1]) in ec:
            return sx(rest, ref_name(kids(s)[1]), nd, replies)
        if k == "IfStmt":
            ks = kids(s)
            cmpv = error_cmp(ks[0])
            if cmpv is not None:
                op, x = cmpv
                taken = (err != x) if op == "!=" else (err == x)
                if taken:
                    return sx(rest, err, nd, replies + reply_of(ks[1], err)) if member_calls(ks[1], "set_error") \
                        else sx([ks[1]] + rest, err, nd, replies)
                return sx(([ks[2]] if len(ks) > 2 else []) + rest, err, nd, replies)
            c = cond_sym(ks[0])
            return "(if %s then %s else %s)" % (c, sx([ks[1]] + rest, err, nd, replies),
                                                 sx(([ks[2]] if len(ks) > 2 else []) + rest, err, nd, replies))
        if callee_name(s) == "CallMethod" and ref_name(callee_base(s)) == "service":
            a = kids(s)[1:]
            if len(a) != 5 or ref_name(a[0]) != "method" or ref_name(a[2]) != "request" or ref_name(a[3]) != "response":
                raise ExtractError("REQUEST branch: service->CallMethod arguments changed")
            cb = strip(a[4])
            ck = kids(cb)
            if cb.get("kind") != "CallExpr" or ref_name(ck[0]) != "NewCallback" or len(ck) != 5 \
                    or strip(ck[1]).get("kind") != "CXXThisExpr" or not any(
                        x.get("kind") == "DeclRefExpr" and x.get("referencedDecl", {}).get("name") == "doneCallback" for x in walk(ck[2])) \
                    or ref_name(ck[3]) != "response":
                raise ExtractError("REQUEST branch: the done-callback is not NewCallback(this, &doneCallback, response, id)")
            idn = ref_name(ck[4])
            iv = var_named(qc, idn) if idn else None
            facts["dispatch_id"].add(iv is not None and is_message_field(kids(iv)[-1], "id"))
            rvs = [v for v in var_decls(qc) if v.get("name") == "response" and "RpcMessage" not in v.get("type", {}).get("qualType", "")]
            if len(rvs) != 1 or callee_name(strip(kids(rvs[0])[-1])) != "New":
                raise ExtractError("REQUEST branch: response object is not <prototype>.New()")
            return sx(rest, err, nd + 1, replies)
        raise ExtractError("REQUEST branch: statement %s outside the translated subset" % k)

    tree = sx(kids(qc), e0, 0, [])
    out.append("/-- where a reply takes its id from -/\ninductive IdSrc\n  | requestId | unset\nderiving DecidableEq, Repr\n")
    out.append("/-- REQUEST branch, executed symbolically: (number of `service->CallMethod` dispatches,\n"
               "    error replies sent, in order, each with the source of its id and its code) -/\n"
               "def requestDecision (hasServices serviceFound methodFound requestParses : Bool) : Nat × List (IdSrc × ErrorCode) :=\n  %s\n" % unparen(tree))
    if facts["dispatch_id"] - {True}:
        raise ExtractError("REQUEST branch: the id bound into the done-callback is not message.id()")

    # ---------------------------------------------------------------- ERROR branch
    eb = comp_of.get("error")
    out.append("/-- the branch for the third message type does nothing -/\ndef errorBranchEmpty : Bool := %s\n"
               % b(eb is None or not kids(eb)))

    # ---------------------------------------------------------------- doneCallback
    dc = the_function(docs, "doneCallback")
    db = body_of(dc)
    params = [k.get("name") for k in kids(dc) if k.get("kind") == "ParmVarDecl"]
    if params != ["response", "id"]:
        raise ExtractError("doneCallback: parameters changed")
    msgs = [v for v in var_decls(db) if "RpcMessage" in v.get("type", {}).get("qualType", "")]
    if len(msgs) != 1:
        raise ExtractError("doneCallback: does not build exactly one RpcMessage")
    m = msgs[0]["name"]
    st = [c for c in member_calls(db, "set_type") if ref_name(callee_base(c)) == m]
    if len(st) != 1 or ref_name(kids(st[0])[1]) != "RESPONSE":
        raise ExtractError("doneCallback: reply is not typed RESPONSE")
    si = [c for c in member_calls(db, "set_id") if ref_name(callee_base(c)) == m]
    if len(si) > 1 or (si and ref_name(kids(si[0])[1]) != "id"):
        raise ExtractError("doneCallback: reply id is not the bound id")
    sr = [c for c in member_calls(db, "set_response") if ref_name(callee_base(c)) == m]
    if len(sr) != 1 or not any(callee_name(x) == "SerializeAsString" and ref_name(callee_base(x)) == "response" for x in walk(sr[0])):
        raise ExtractError("doneCallback: reply does not carry response->SerializeAsString()")
    if [c for c in member_calls(db, "set_error") if ref_name(callee_base(c)) == m]:
        raise ExtractError("doneCallback: service reply carries an error code")
    sn = [c for c in member_calls(db, "send") if ref_name(callee_base(c)) == "codec_"]
    for c in sn:
        if [ref_name(a) for a in kids(c)[1:]] != ["conn_", m]:
            raise ExtractError("doneCallback: a send that is not codec_.send(conn_, message)")
    owners = [v for v in var_decls(db) if "unique_ptr" in v.get("type", {}).get("qualType", "") and ref_name(kids(v)[-1]) == "response"]
    if [n for n in walk(db) if n.get("kind") == "CXXDeleteExpr"]:
        raise ExtractError("doneCallback: explicit delete (outside the translated subset)")
    out.append("/-- `doneCallback`: id of the reply, number of sends, owners freeing the response object -/\n"
               "def doneIdSrc : IdSrc := %s\ndef doneSendCount : Nat := %d\ndef doneFreeCount : Nat := %d\n"
               % (".requestId" if si else ".unset", len(sn), len(owners)))

    # ---------------------------------------------------------------- RpcServer::onConnection
    sdocs = ast_dump("muduo/net/protorpc/RpcServer.cc", "muduo::net::RpcServer", extra_inc=inc)
    oc = the_function(sdocs, "onConnection")
    ifs = [i for i in kids(body_of(oc)) if i.get("kind") == "IfStmt" and callee_name(strip(if_cond(i))) == "connected"]
    if len(ifs) != 1 or len(kids(ifs[0])) != 3:
        raise ExtractError("RpcServer::onConnection: no single if (conn->connected()) ... else ...")
    up, down = kids(ifs[0])[1], kids(ifs[0])[2]
    site(if_cond(ifs[0]), "connUp")
    news = [n for n in walk(up) if n.get("kind") == "CXXNewExpr" and "RpcChannel" in n.get("type", {}).get("qualType", "")]
    per_up = len(news) == 1 and any(ref_name(a) == "conn" for x in walk(news[0]) if x.get("kind") == "CXXConstructExpr" for a in kids(x))
    chv = next((v["name"] for v in var_decls(up) if news and contains(v, news[0])), None)
    sets = [c for c in member_calls(up, "setServices") if ref_name(callee_base(c)) == chv]
    sets_ok = len(sets) == 1 and any(x.get("kind") == "MemberExpr" and x.get("name") == "services_" for x in walk(sets[0]))
    mcb = [c for c in member_calls(up, "setMessageCallback") if ref_name(callee_base(c)) == "conn"]
    mcb_ok = len(mcb) == 1 and any(x.get("kind") == "DeclRefExpr" and x.get("referencedDecl", {}).get("name") == "onMessage" for x in walk(mcb[0])) \
        and any(ref_name(x) == chv for x in walk(mcb[0]) if x.get("kind") == "DeclRefExpr")
    ctx = [c for c in member_calls(up, "setContext") if ref_name(callee_base(c)) == "conn"]
    ctx_ok = len(ctx) == 1 and any(ref_name(x) == chv for x in walk(ctx[0]) if x.get("kind") == "DeclRefExpr")
    dctx = [c for c in member_calls(down, "setContext") if ref_name(callee_base(c)) == "conn"]
    out.append("/-- `RpcServer::onConnection`, UP: one `new RpcChannel(conn)`, given the server's services, made the\n"
               "    connection's message callback, kept alive as the connection's context; DOWN: context dropped -/\n"
               "def serverChannelPerUp : Bool := %s\ndef serverSetsServices : Bool := %s\ndef serverRoutesMessages : Bool := %s\n"
               "def serverKeepsChannel : Bool := %s\ndef serverDropsChannelOnDown : Bool := %s\n"
               % (b(per_up), b(sets_ok), b(mcb_ok), b(ctx_ok), b(len(dctx) == 1)))
    out.append("end MuduoVerif.Gen.Rpc\n")
    return "\n".join(out)
