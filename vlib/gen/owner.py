"""T1 for the ownership protocol of TcpServer (TcpServer.cc/.h): every hand-off between the acceptor (base) loop
and the io loops - its kind (runInLoop / queueInLoop), its target loop, what the functor holds - the construction
of connection names, the map operations, the destructor's loop over the map, `start()`; plus the one fact of
EventLoop::loop the protocol depends on (the functor queue is drained once more when the loop exits).

Never guesses: a statement shape that is not the one described here raises ExtractError."""
import re

from ..extract import HEADER, ExtractError, ast_dump, body_of, functions, kids, mentions, strip, the_function, walk

NAME = "Owner"

CONN_PTR = ("TcpConnectionPtr", "shared_ptr<muduo::net::TcpConnection>", "shared_ptr<TcpConnection>")


def _calls(node, names):
    return [n for n in walk(node) if n.get("kind") == "CXXMemberCallExpr" and kids(n)
            and strip(kids(n)[0]).get("kind") == "MemberExpr" and strip(kids(n)[0]).get("name") in names]


def _member_of_this(n, name):
    n = strip(n)
    return n.get("kind") == "MemberExpr" and n.get("name") == name and kids(n) and strip(kids(n)[0]).get("kind") == "CXXThisExpr"


def _through_arrow(n):
    """`p->m` on a smart pointer: the expression `p`"""
    n = strip(n)
    if n.get("kind") == "CXXOperatorCallExpr":
        ks = kids(n)
        op = strip(ks[0])
        if op.get("kind") == "DeclRefExpr" and op["referencedDecl"]["name"] == "operator->":
            return strip(ks[1])
    return n


def _is_conn_var(n):
    n = strip(n)
    q = n.get("type", {}).get("qualType", "")
    return n.get("kind") == "DeclRefExpr" and any(t in q for t in CONN_PTR) and "weak_ptr" not in q


def _var_init(fn, name):
    vs = [n for n in walk(body_of(fn)) if n.get("kind") == "VarDecl" and n.get("name") == name]
    if len(vs) != 1 or not kids(vs[0]):
        raise ExtractError("%s: cannot find the initialiser of `%s`" % (fn.get("name"), name))
    return strip(kids(vs[0])[-1])


def _loop_of(fn, expr):
    """which loop an `EventLoop*` expression denotes: base (`loop_`), next (`threadPool_->getNextLoop()`),
    conn (`conn->getLoop()`)"""
    e = strip(expr)
    if _member_of_this(e, "loop_"):
        return "base"
    if e.get("kind") == "DeclRefExpr" and e.get("referencedDecl", {}).get("kind") == "VarDecl":
        return _loop_of(fn, _var_init(fn, e["referencedDecl"]["name"]))
    if e.get("kind") == "CXXMemberCallExpr" and kids(e):
        callee = strip(kids(e)[0])
        if callee.get("kind") == "MemberExpr" and len(kids(e)) == 1:
            obj = _through_arrow(kids(callee)[0])
            if callee.get("name") == "getNextLoop" and _member_of_this(obj, "threadPool_"):
                return "next"
            if callee.get("name") == "getLoop" and _is_conn_var(obj):
                return "conn"
    raise ExtractError("%s: cannot tell which loop a hand-off targets" % fn.get("name"))


def _bind_of(call):
    """(bound member function, [kinds of the bound arguments]) of the functor built in a runInLoop/queueInLoop call"""
    binds = [n for n in walk(call) if n.get("kind") == "CallExpr" and kids(n)
             and strip(kids(n)[0]).get("kind") == "DeclRefExpr" and strip(kids(n)[0])["referencedDecl"]["name"] == "bind"]
    if len(binds) != 1:
        raise ExtractError("hand-off whose functor is not one std::bind expression")
    args = kids(binds[0])[1:]
    if not args:
        raise ExtractError("std::bind without a function")
    f = [x for x in walk(args[0]) if x.get("kind") == "DeclRefExpr"]
    if len(f) != 1:
        raise ExtractError("std::bind: cannot read the bound function")
    held = []
    for a in args[1:]:
        s = strip(a)
        q = s.get("type", {}).get("qualType", "")
        if _is_conn_var(s):
            held.append("strong")
        elif s.get("kind") == "CXXThisExpr":
            held.append("this")
        elif "weak_ptr<void>" in q:
            held.append("token")
        elif s.get("kind") == "DeclRefExpr" and q.replace("muduo::net::", "") in ("TcpServer *",):
            held.append("serverptr")
        elif _member_of_this(s, "loop_"):
            held.append("loop_")
        elif "weak_ptr" in q or any(x.get("kind") == "DeclRefExpr" and x.get("referencedDecl", {}).get("name") == "makeWeakCallback" for x in walk(s)):
            held.append("weak")
        elif s.get("kind") == "CallExpr" and mentions(s, "get_pointer"):
            held.append("rawptr")
        elif s.get("kind") == "DeclRefExpr" and s.get("referencedDecl", {}).get("name", "").startswith("_"):
            held.append("placeholder")
        else:
            raise ExtractError("std::bind: cannot tell what the bound argument of %s holds" % f[0]["referencedDecl"]["name"])
    return f[0]["referencedDecl"]["name"], held


def _handoff(fn, node, what, expect_fn):
    calls = _calls(node, ("runInLoop", "queueInLoop"))
    if len(calls) != 1:
        raise ExtractError("%s: expected exactly one runInLoop/queueInLoop hand-off, found %d" % (what, len(calls)))
    call = calls[0]
    callee = strip(kids(call)[0])
    kind = "run" if callee["name"] == "runInLoop" else "queue"
    target = _loop_of(fn, kids(callee)[0])
    bound, held = _bind_of(call)
    if bound != expect_fn:
        raise ExtractError("%s: the functor calls %s, expected %s" % (what, bound, expect_fn))
    return call, kind, target, held


def _top(fn):
    return kids(body_of(fn))


def _index_of(stmts, pred, what):
    idx = [i for i, s in enumerate(stmts) if pred(s)]
    if len(idx) != 1:
        raise ExtractError("%s: expected exactly once, found %d times" % (what, len(idx)))
    return idx[0]


def _asserts_in_loop(fn):
    stmts = _top(fn)
    if not stmts:
        return False
    c = strip(stmts[0])
    return c.get("kind") == "CXXMemberCallExpr" and strip(kids(c)[0]).get("name") == "assertInLoopThread" \
        and _member_of_this(kids(strip(kids(c)[0]))[0], "loop_")


def generate():
    docs = ast_dump("muduo/net/TcpServer.cc", "muduo::net::TcpServer")
    out = [HEADER % "muduo/net/TcpServer.cc, TcpServer.h, EventLoop.cc", "namespace MuduoVerif.Gen.Owner\n"]
    out.append("/-- how work is handed to a loop: `runInLoop` (inline when the caller is that loop's thread, else queued)\n"
               "or `queueInLoop` (always behind what is already queued) -/\ninductive Dispatch | run | queue\nderiving DecidableEq, Repr\n")
    out.append("/-- the loop a hand-off targets: the server's `loop_` (acceptor loop) or the loop the connection was constructed with -/\n"
               "inductive Target | base | conn\nderiving DecidableEq, Repr\n")
    out.append("/-- what a functor holds of the connection -/\ninductive Hold | raw | strong | weak\nderiving DecidableEq, Repr\n")

    def emit_handoff(prefix, doc, kind, target, conn_hold, server_raw=None):
        out.append("/-- %s -/\ndef %sDispatch : Dispatch := .%s\ndef %sTarget : Target := .%s\ndef %sHold : Hold := .%s\n"
                   % (doc, prefix, kind, prefix, target, prefix, conn_hold))
        if server_raw is not None:
            out.append("/-- %s: the functor holds the raw `this` of the TcpServer -/\ndef %sServerRaw : Bool := %s\n"
                       % (prefix, prefix, "true" if server_raw else "false"))

    # ------------------------------------------------------------------ constructor: nextConnId_(k)
    ctors = [n for d in docs for n in walk(d) if n.get("kind") == "CXXConstructorDecl" and body_of(n) is not None]
    if len(ctors) != 1:
        raise ExtractError("expected one TcpServer constructor definition, found %d" % len(ctors))
    inits = [c for c in kids(ctors[0]) if c.get("kind") == "CXXCtorInitializer" and c.get("anyInit", {}).get("name") == "nextConnId_"]
    if len(inits) != 1:
        raise ExtractError("constructor: no initialiser of nextConnId_")
    lit = strip(kids(inits[0])[0])
    if lit.get("kind") != "IntegerLiteral":
        raise ExtractError("constructor: nextConnId_ is not initialised with a literal")
    out.append("/-- constructor: initial value of `nextConnId_` -/\ndef idInitial : Nat := %d\n" % int(lit["value"]))
    # the acceptor's new-connection callback is newConnection bound to `this`
    sets = _calls(body_of(ctors[0]), ("setNewConnectionCallback",))
    if len(sets) != 1 or not mentions(sets[0], "newConnection"):
        raise ExtractError("constructor: the acceptor's callback is not TcpServer::newConnection")

    # ------------------------------------------------------------------ newConnection
    nc = the_function(docs, "newConnection")
    st = _top(nc)
    if not _asserts_in_loop(nc):
        raise ExtractError("newConnection: does not start with loop_->assertInLoopThread()")
    # char buf[N]
    bufs = [n for n in walk(body_of(nc)) if n.get("kind") == "VarDecl" and re.match(r"char\s*\[\d+\]$", n.get("type", {}).get("qualType", ""))]
    if len(bufs) != 1:
        raise ExtractError("newConnection: expected one char[N] buffer, found %d" % len(bufs))
    bufname = bufs[0]["name"]
    bufsize = int(re.search(r"\[(\d+)\]", bufs[0]["type"]["qualType"]).group(1))
    i_fmt = _index_of(st, lambda s: strip(s).get("kind") == "CallExpr" and mentions(s, "snprintf"), "newConnection: the snprintf call")
    sn = strip(st[i_fmt])
    a = kids(sn)[1:]
    if len(a) != 5:
        raise ExtractError("newConnection: snprintf with %d arguments" % len(a))
    a0 = strip(a[0])
    if not (a0.get("kind") == "DeclRefExpr" and a0["referencedDecl"]["name"] == bufname):
        raise ExtractError("newConnection: snprintf does not write into the buffer")
    a1 = strip(a[1])
    if a1.get("kind") == "UnaryExprOrTypeTraitExpr" and a1.get("name") == "sizeof" and kids(a1) and \
            strip(kids(a1)[0]).get("referencedDecl", {}).get("name") == bufname:
        limit = bufsize
    elif a1.get("kind") == "IntegerLiteral":
        limit = int(a1["value"])
    else:
        raise ExtractError("newConnection: the size argument of snprintf is neither sizeof buf nor a literal")
    fmt = [x for x in walk(a[2]) if x.get("kind") == "StringLiteral"]
    if len(fmt) != 1:
        raise ExtractError("newConnection: snprintf format is not a literal")
    fmt = fmt[0]["value"]
    if fmt != '"-%s#%d"':
        raise ExtractError("newConnection: name format is %s, the model knows \"-%%s#%%d\"" % fmt)
    if not (mentions(a[3], "ipPort_") and mentions(a[3], "c_str")):
        raise ExtractError("newConnection: the %s argument is not ipPort_.c_str()")
    if not _member_of_this(a[4], "nextConnId_"):
        raise ExtractError("newConnection: the %d argument is not nextConnId_")
    out.append("/-- `newConnection`: size of the buffer the name suffix `-<ipPort>#<id>` is formatted into (snprintf truncates\n"
               "to one less) -/\ndef nameBufSize : Nat := %d\n/-- `newConnection`: the size limit passed to snprintf -/\ndef nameLimit : Nat := %d\n"
               % (bufsize, limit))
    # increments of nextConnId_ (++x / x++ / x += k), all at top level, and where relative to the formatting
    incs = []
    for i, s in enumerate(st):
        s0 = strip(s)
        if s0.get("kind") == "UnaryOperator" and s0.get("opcode") == "++" and _member_of_this(kids(s0)[0], "nextConnId_"):
            incs.append((i, 1))
        elif s0.get("kind") == "CompoundAssignOperator" and s0.get("opcode") == "+=" and _member_of_this(kids(s0)[0], "nextConnId_") \
                and strip(kids(s0)[1]).get("kind") == "IntegerLiteral":
            incs.append((i, int(strip(kids(s0)[1])["value"])))
    writes = [n for n in walk(body_of(nc)) if n.get("kind") in ("UnaryOperator", "CompoundAssignOperator", "BinaryOperator")
              and n.get("opcode") in ("++", "--", "+=", "-=", "=") and kids(n) and _member_of_this(kids(n)[0], "nextConnId_")]
    if len(writes) != len(incs):
        raise ExtractError("newConnection: nextConnId_ is written in a way the translator does not know")
    if any(i < i_fmt for i, _ in incs):
        raise ExtractError("newConnection: nextConnId_ is incremented before it is formatted")
    out.append("/-- `newConnection`: by how much `nextConnId_` grows per accepted connection (after the name was formatted) -/\n"
               "def idStep : Nat := %d\n" % sum(k for _, k in incs))
    # connName = name_ + buf
    i_name = _index_of(st, lambda s: s.get("kind") == "DeclStmt" and any(v.get("kind") == "VarDecl" and "string" in v.get("type", {}).get("qualType", "")
                                                                           and mentions(v, bufname) and mentions(v, "name_") for v in kids(s)),
                       "newConnection: `string connName = name_ + buf`")
    cname = [v for v in kids(st[i_name]) if v.get("kind") == "VarDecl"][0]["name"]
    if i_name < i_fmt:
        raise ExtractError("newConnection: the name is built before the buffer is formatted")
    # conn(new TcpConnection(ioLoop, connName, …))
    news = [n for n in walk(body_of(nc)) if n.get("kind") == "CXXNewExpr" and "TcpConnection" in n.get("type", {}).get("qualType", "")]
    if len(news) != 1:
        raise ExtractError("newConnection: expected one `new TcpConnection`")
    ctor = [c for c in kids(news[0]) if c.get("kind") == "CXXConstructExpr"]
    if len(ctor) != 1 or len(kids(ctor[0])) < 2:
        raise ExtractError("newConnection: cannot read the TcpConnection constructor call")
    if _loop_of(nc, kids(ctor[0])[0]) != "next":
        raise ExtractError("newConnection: the connection is not constructed with the loop picked by getNextLoop()")
    loopvar = strip(kids(ctor[0])[0])
    a1 = strip(kids(ctor[0])[1])
    if not (a1.get("kind") == "DeclRefExpr" and a1["referencedDecl"]["name"] == cname):
        raise ExtractError("newConnection: the connection is not constructed with connName")
    ngl = _calls(body_of(nc), ("getNextLoop",))
    if len(ngl) != 1:
        raise ExtractError("newConnection: getNextLoop() is called %d times" % len(ngl))
    out.append("/-- `newConnection`: one `threadPool_->getNextLoop()` per connection; the connection is constructed with that loop -/\n"
               "def picksNextLoop : Bool := true\n")
    # connections_[connName] = conn
    def is_insert(s):
        s0 = strip(s)
        if s0.get("kind") != "CXXOperatorCallExpr" or strip(kids(s0)[0]).get("referencedDecl", {}).get("name") != "operator=":
            return False
        lhs = strip(kids(s0)[1])
        return lhs.get("kind") == "CXXOperatorCallExpr" and strip(kids(lhs)[0]).get("referencedDecl", {}).get("name") == "operator[]" \
            and _member_of_this(kids(lhs)[1], "connections_") and mentions(kids(lhs)[2], cname) and _is_conn_var(kids(s0)[2])
    i_ins = _index_of(st, is_insert, "newConnection: `connections_[connName] = conn`")
    out.append("/-- `newConnection`: `connections_[connName] = conn` (an existing entry with that key is overwritten) -/\n"
               "def insertOverwrites : Bool := true\n")
    # close callback: TcpServer::removeConnection bound to this (the server's raw pointer), or the static trampoline
    # removeConnectionGuarded bound to (weak life token, this, loop_)
    scc = _calls(body_of(nc), ("setCloseCallback",))
    if len(scc) != 1:
        raise ExtractError("newConnection: expected one setCloseCallback")
    close_fn, close_held = _bind_of(scc[0])
    if close_fn == "removeConnection":
        if close_held != ["this", "placeholder"]:
            raise ExtractError("newConnection: removeConnection is not bound to (this, _1)")
    elif close_fn == "removeConnectionGuarded":
        if close_held != ["token", "this", "loop_", "placeholder"]:
            raise ExtractError("newConnection: removeConnectionGuarded is not bound to (weak_ptr<void>(alive_), this, loop_, _1)")
        tok = kids([n for n in walk(scc[0]) if n.get("kind") == "CallExpr" and kids(n) and strip(kids(n)[0]).get("kind") == "DeclRefExpr"
                    and strip(kids(n)[0])["referencedDecl"]["name"] == "bind"][0])[2]
        if not mentions(tok, "alive_"):
            raise ExtractError("newConnection: the life token is not made from alive_")
    else:
        raise ExtractError("newConnection: the close callback is %s" % close_fn)
    i_est = _index_of(st, lambda s: bool(_calls(s, ("runInLoop", "queueInLoop"))), "newConnection: the hand-off of connectEstablished")
    if not (i_ins < i_est):
        raise ExtractError("newConnection: connectEstablished is handed over before the map insert")
    call, kind, target, held = _handoff(nc, st[i_est], "newConnection", "connectEstablished")
    if held != ["strong"]:
        raise ExtractError("newConnection: the connectEstablished functor does not hold the TcpConnectionPtr")
    # target: `next` is fine only if it is the very variable the connection was constructed with
    if target == "next":
        tv = strip(kids(strip(kids(call)[0]))[0])
        if not (tv.get("kind") == "DeclRefExpr" and loopvar.get("kind") == "DeclRefExpr"
                and tv["referencedDecl"]["name"] == loopvar["referencedDecl"]["name"]):
            raise ExtractError("newConnection: connectEstablished goes to a loop picked by another getNextLoop() call")
        target = "conn"
    emit_handoff("establish", "`newConnection`: `connectEstablished` is handed to the %s loop through `%sInLoop`; the functor holds the TcpConnectionPtr"
                 % ("connection's" if target == "conn" else "acceptor", kind), kind, target, "strong")

    # ------------------------------------------------------------------ the close callback's hop to the base loop
    if close_fn == "removeConnection":
        rc = the_function(docs, "removeConnection")
        call, kind, target, held = _handoff(rc, body_of(rc), "removeConnection", "removeConnectionInLoop")
        if target == "next":
            raise ExtractError("removeConnection: hand-off to getNextLoop()")
        if len(_top(rc)) != 1:
            raise ExtractError("removeConnection: more than the one hand-off statement")
        if held != ["this", "strong"]:
            raise ExtractError("removeConnection: the functor does not hold (this, conn)")
        guarded, via = False, "removeConnection"
    else:
        rg = the_function(docs, "removeConnectionGuarded")
        if len(_top(rg)) != 1:
            raise ExtractError("removeConnectionGuarded: more than the one hand-off statement")
        calls = _calls(body_of(rg), ("runInLoop", "queueInLoop"))
        if len(calls) != 1:
            raise ExtractError("removeConnectionGuarded: expected exactly one hand-off")
        callee = strip(kids(calls[0])[0])
        kind = "run" if callee["name"] == "runInLoop" else "queue"
        params = [k["name"] for k in kids(rg) if k["kind"] == "ParmVarDecl"]
        tv = strip(kids(callee)[0])
        if not (tv.get("kind") == "DeclRefExpr" and tv["referencedDecl"]["name"] in params):
            raise ExtractError("removeConnectionGuarded: the target loop is not a parameter")
        # the parameter is bound in newConnection: position -> bound argument
        bound_to = close_held[params.index(tv["referencedDecl"]["name"])]
        if bound_to != "loop_":
            raise ExtractError("removeConnectionGuarded: the target loop parameter is bound to %s" % bound_to)
        target = "base"
        bound, held = _bind_of(calls[0])
        if bound != "removeConnectionIfAlive" or held != ["token", "serverptr", "strong"]:
            raise ExtractError("removeConnectionGuarded: the functor is not removeConnectionIfAlive(alive, server, conn)")
        if any(x.get("kind") == "MemberExpr" and strip(kids(x)[0]).get("referencedDecl", {}).get("name") == "server" for x in walk(body_of(rg)) if kids(x)):
            raise ExtractError("removeConnectionGuarded: uses the server object")
        ria = the_function(docs, "removeConnectionIfAlive")
        st2 = _top(ria)
        if len(st2) != 1 or st2[0].get("kind") != "IfStmt" or len(kids(st2[0])) != 2:
            raise ExtractError("removeConnectionIfAlive: expected a single `if` without else")
        cond = strip(kids(st2[0])[0])
        okc = cond.get("kind") == "UnaryOperator" and cond.get("opcode") == "!" and mentions(cond, "expired") and mentions(cond, "alive")
        then = [x for x in kids(kids(st2[0])[1])] if kids(st2[0])[1].get("kind") == "CompoundStmt" else [kids(st2[0])[1]]
        okt = len(then) == 1 and strip(then[0]).get("kind") == "CXXMemberCallExpr" and strip(kids(strip(then[0]))[0]).get("name") == "removeConnectionInLoop"
        if not (okc and okt):
            raise ExtractError("removeConnectionIfAlive: not `if (!alive.expired()) server->removeConnectionInLoop(conn);`")
        uses = [x for x in walk(body_of(ria)) if x.get("kind") == "DeclRefExpr" and x.get("referencedDecl", {}).get("name") == "server"]
        if len(uses) != 1:
            raise ExtractError("removeConnectionIfAlive: the server pointer is used outside the guarded call")
        guarded, via = True, "removeConnectionGuarded"
    emit_handoff("remove", "the close callback `%s` (called on the connection's loop): `removeConnectionInLoop` is handed to the "
                 "%s loop through `%sInLoop`; the functor holds the TcpConnectionPtr" % (via, "acceptor" if target == "base" else "connection's", kind),
                 kind, target, "strong", server_raw=not guarded)
    out.append("/-- the functor calls `removeConnectionInLoop` only if a life token of the server has not expired\n"
               "(`removeConnectionIfAlive`); without it the functor runs on the server object whatever happened to it -/\n"
               "def removeGuarded : Bool := %s\n" % ("true" if guarded else "false"))

    # ------------------------------------------------------------------ removeConnectionInLoop
    ril = the_function(docs, "removeConnectionInLoop")
    st = _top(ril)
    if not _asserts_in_loop(ril):
        raise ExtractError("removeConnectionInLoop: does not start with loop_->assertInLoopThread()")
    er = _calls(body_of(ril), ("erase",))
    if len(er) != 1 or not _member_of_this(kids(strip(kids(er[0])[0]))[0], "connections_"):
        raise ExtractError("removeConnectionInLoop: expected one connections_.erase")
    key = strip(kids(er[0])[1])
    if not (key.get("kind") == "CXXMemberCallExpr" and strip(kids(key)[0]).get("name") == "name" and _is_conn_var(_through_arrow(kids(strip(kids(key)[0]))[0]))):
        raise ExtractError("removeConnectionInLoop: erase is not by conn->name()")
    i_er = _index_of(st, lambda s: any(x is er[0] for x in walk(s)), "removeConnectionInLoop: the erase statement")
    nvar = [v for v in kids(st[i_er]) if v.get("kind") == "VarDecl"]
    texts = [n.get("value") for n in walk(body_of(ril)) if n.get("kind") == "StringLiteral"]
    asserts_one = bool(nvar) and ('"%s == 1"' % nvar[0]["name"]) in texts
    out.append("/-- `removeConnectionInLoop`: `connections_.erase(conn->name())`; `assert(n == 1)` on its result -/\n"
               "def eraseAssertsOne : Bool := %s\n" % ("true" if asserts_one else "false"))
    i_des = _index_of(st, lambda s: bool(_calls(s, ("runInLoop", "queueInLoop"))), "removeConnectionInLoop: the hand-off of connectDestroyed")
    if not i_er < i_des:
        raise ExtractError("removeConnectionInLoop: connectDestroyed is handed over before the erase")
    call, kind, target, held = _handoff(ril, st[i_des], "removeConnectionInLoop", "connectDestroyed")
    if held != ["strong"] or target == "next":
        raise ExtractError("removeConnectionInLoop: unexpected functor / target of connectDestroyed")
    emit_handoff("destroy", "`removeConnectionInLoop` (on the acceptor loop): `connectDestroyed` is handed to the %s loop through `%sInLoop`; "
                 "the functor holds the TcpConnectionPtr" % ("connection's" if target == "conn" else "acceptor", kind), kind, target, "strong")

    # ------------------------------------------------------------------ ~TcpServer
    dts = [n for d in docs for n in walk(d) if n.get("kind") == "CXXDestructorDecl" and body_of(n) is not None]
    if len(dts) != 1:
        raise ExtractError("expected one ~TcpServer definition")
    dt = dts[0]
    if not _asserts_in_loop(dt):
        raise ExtractError("~TcpServer: does not start with loop_->assertInLoopThread()")
    loops = [s for s in _top(dt) if s.get("kind") in ("CXXForRangeStmt", "ForStmt") and mentions(s, "connections_")]
    if len(loops) != 1:
        raise ExtractError("~TcpServer: expected one loop over connections_")
    i_loop = [i for i, x in enumerate(_top(dt)) if x is loops[0]][0]
    resets = [i for i, x in enumerate(_top(dt)) if strip(x).get("kind") == "CXXMemberCallExpr" and strip(kids(strip(x))[0]).get("name") == "reset"
              and mentions(x, "alive_")]
    if guarded and not (len(resets) == 1 and resets[0] < i_loop):
        raise ExtractError("~TcpServer: the life token is not reset before the loop over connections_")
    out.append("/-- `~TcpServer`: the life token expires before the connections are handed their `connectDestroyed` -/\n"
               "def dtorExpiresToken : Bool := %s\n" % ("true" if resets and resets[0] < i_loop else "false"))
    body = kids(loops[0])[-1]
    if body.get("kind") != "CompoundStmt":
        raise ExtractError("~TcpServer: loop body is not a block")
    bs = kids(body)

    def is_second(n):
        n = strip(n)
        return n.get("kind") == "MemberExpr" and n.get("name") == "second"

    i_copy = _index_of(bs, lambda s: s.get("kind") == "DeclStmt" and any(v.get("kind") == "VarDecl" and any(t in v.get("type", {}).get("qualType", "") for t in CONN_PTR)
                                                                          and any(is_second(x) for x in walk(v)) for v in kids(s)),
                       "~TcpServer: the copy `TcpConnectionPtr conn(entry.second)`")
    i_reset = _index_of(bs, lambda s: strip(s).get("kind") == "CXXMemberCallExpr" and strip(kids(strip(s))[0]).get("name") == "reset"
                        and any(is_second(x) for x in walk(s)), "~TcpServer: `entry.second.reset()`")
    i_ho = _index_of(bs, lambda s: bool(_calls(s, ("runInLoop", "queueInLoop"))), "~TcpServer: the hand-off of connectDestroyed")
    if not (i_copy < i_reset < i_ho) or len(bs) != 3:
        raise ExtractError("~TcpServer: the loop body is not copy; reset; hand-off")
    call, kind, target, held = _handoff(dt, bs[i_ho], "~TcpServer", "connectDestroyed")
    if held != ["strong"] or target == "next":
        raise ExtractError("~TcpServer: unexpected functor / target of connectDestroyed")
    emit_handoff("dtor", "`~TcpServer` (on the acceptor loop), for every map entry: the entry is reset and `connectDestroyed` is handed to the %s "
                 "loop through `%sInLoop`; the functor holds the TcpConnectionPtr" % ("connection's" if target == "conn" else "acceptor", kind),
                 kind, target, "strong")

    # ------------------------------------------------------------------ start
    stf = the_function(docs, "start")
    ifs = [s for s in _top(stf) if s.get("kind") == "IfStmt"]
    if len(ifs) != 1 or len(_top(stf)) != 1:
        raise ExtractError("start: expected one `if`")
    cond = strip(kids(ifs[0])[0])
    ok = cond.get("kind") == "BinaryOperator" and cond.get("opcode") == "==" and mentions(cond, "getAndSet") and mentions(cond, "started_")
    lits = sorted(int(x["value"]) for x in walk(cond) if x.get("kind") == "IntegerLiteral")
    if not ok or lits != [0, 1]:
        raise ExtractError("start: the guard is not `started_.getAndSet(1) == 0`")
    then = kids(kids(ifs[0])[1])
    i_pool = _index_of(then, lambda s: strip(s).get("kind") == "CXXMemberCallExpr" and strip(kids(strip(s))[0]).get("name") == "start"
                       and mentions(s, "threadPool_"), "start: threadPool_->start")
    i_listen = _index_of(then, lambda s: bool(_calls(s, ("runInLoop", "queueInLoop"))), "start: the hand-off of Acceptor::listen")
    if not i_pool < i_listen:
        raise ExtractError("start: listen is handed over before the pool is started")
    call, kind, target, held = _handoff(stf, then[i_listen], "start", "listen")
    if target != "base":
        raise ExtractError("start: Acceptor::listen is not handed to loop_")
    out.append("/-- `start`: guarded by `started_.getAndSet(1) == 0` (at most once); starts the pool, then hands `Acceptor::listen` to the\n"
               "acceptor loop through `%sInLoop` -/\ndef startOnce : Bool := true\ndef listenDispatch : Dispatch := .%s\n" % (kind, kind))

    # ------------------------------------------------------------------ EventLoop::loop: final drain
    ldocs = ast_dump("muduo/net/EventLoop.cc", "muduo::net::EventLoop::loop")
    lp = the_function(ldocs, "loop")
    st = _top(lp)
    i_w = _index_of(st, lambda s: s.get("kind") == "WhileStmt", "EventLoop::loop: the while statement")
    wbody = kids(st[i_w])[-1]
    in_while = [s for s in kids(wbody) if strip(s).get("kind") == "CXXMemberCallExpr" and strip(kids(strip(s))[0]).get("name") == "doPendingFunctors"]
    if len(in_while) != 1:
        raise ExtractError("EventLoop::loop: expected one doPendingFunctors() in the while body")
    def is_drain(x):
        x = strip(x)
        return x.get("kind") == "CXXMemberCallExpr" and strip(kids(x)[0]).get("name") == "doPendingFunctors"
    after = [s for s in st[i_w + 1:] if is_drain(s)]
    dos = [s for s in st[i_w + 1:] if s.get("kind") == "DoStmt" and any(is_drain(x) for x in walk(s))]
    if len(after) + len(dos) > 1:
        raise ExtractError("EventLoop::loop: more than one drain of the functor queue after the while")
    repeats = False
    if dos:
        body, cond = kids(dos[0])[0], strip(kids(dos[0])[1])
        stmts = kids(body) if body.get("kind") == "CompoundStmt" else [body]
        if len(stmts) != 1 or not is_drain(stmts[0]):
            raise ExtractError("EventLoop::loop: the do-while after the loop is not `do { doPendingFunctors(); } while (...)`")
        okc = cond.get("kind") == "BinaryOperator" and cond.get("opcode") == ">" and mentions(cond, "queueSize") \
            and [int(x["value"]) for x in walk(cond) if x.get("kind") == "IntegerLiteral"] == [0]
        if not okc:
            raise ExtractError("EventLoop::loop: the do-while after the loop does not test `queueSize() > 0`")
        repeats = True
    out.append("/-- `EventLoop::loop`: the functor queue is drained once more after the `while` (functors queued before `quit()` still run) -/\n"
               "def finalDrain : Bool := %s\n" % ("true" if (after or dos) else "false"))
    out.append("/-- `EventLoop::loop`: that drain is repeated until the queue is empty (`do { doPendingFunctors(); } while (queueSize() > 0)`):\n"
               "functors queued by the functors of the drain run as well -/\n"
               "def finalDrainRepeats : Bool := %s\n" % ("true" if repeats else "false"))
    out.append("end MuduoVerif.Gen.Owner\n")
    return "\n".join(out)
