"""T1 for the calendar arithmetic: muduo/base/Date.{h,cc}, the integer functions of
muduo/base/TimeZone.cc and the two constants of Timestamp.h.

Every function is translated statement by statement from clang's AST into a Lean
`Int` function (namespace MuduoVerif.Gen.Calendar):

* `T x = e;`                     ->  `let x := e`
* `x = e; x op= e; ++x; --x;`    ->  `let x := e'`            (shadowing)
* `s.f = e;`  `p->f = e;`        ->  `let s := { s with f := e }`
* `if (c) { .. } [else { .. }]`  ->  the assigned variables are rebound from one
                                      `if c then (.. ; (v1, v2)) else (.. ; (v1, v2))`
* `return e;` (last statement, or last statement of an `if` arm: the other arm then
  continues with the rest of the function)
* `f(a, &s);` where `f` is a translated `void` function with one pointer parameter
                                 ->  `let s := f a s`
* `class Date` is its single field (`abbrev Date := Int`); constructors and methods
  are translated from their own initialisers/bodies.

C semantics: `/` and `%` (signed *and* unsigned) become `Int.tdiv` / `Int.tmod`;
integral casts are the identity.  That is exact as long as no intermediate leaves the
range of its C type (recorded next to every definition; the no-overflow ranges are
lemmas of Proofs/Calendar.lean) and unsigned operands are non-negative.
"""
import re

from ..extract import HEADER, ExtractError, Tr, ast_dump, body_of, ctype, kids, strip, walk

NAME = "Calendar"

INT_TYPES = {"int", "const int", "int64_t", "const int64_t", "long", "const long", "unsigned int", "const unsigned int",
             "unsigned", "int32_t", "const int32_t"}
LEAN_KEYWORDS = {"at", "from", "to", "end", "in", "do", "then", "else", "if", "fun", "let", "have", "show", "by",
                 "local", "open", "section", "namespace", "instance", "def", "theorem", "where", "with", "match",
                 "structure", "class", "universe", "variable", "import", "export", "deriving", "mutual", "macro"}


def lean_id(name):
    if name in LEAN_KEYWORDS:
        return name + "'"
    return name


def params_of(fn):
    return [k for k in kids(fn) if k["kind"] == "ParmVarDecl"]


def find_record(docs, name):
    """the defining CXXRecordDecl `name` (with fields)"""
    for d in docs:
        for n in walk(d):
            if n.get("kind") == "CXXRecordDecl" and n.get("name") == name and any(
                    k.get("kind") == "FieldDecl" for k in kids(n)):
                return n
    raise ExtractError("no definition of struct/class %s" % name)


def fields_of(rec):
    return [(k["name"], ctype(k)) for k in kids(rec) if k.get("kind") == "FieldDecl"]


def find_decl(docs, kind, name, pred=lambda n: True):
    res, seen = [], set()
    for d in docs:
        for n in walk(d):
            if n.get("kind") == kind and n.get("name") == name and pred(n) and n.get("id") not in seen:
                seen.add(n.get("id"))
                res.append(n)
    if len(res) != 1:
        raise ExtractError("expected exactly one %s %s, found %d" % (kind, name, len(res)))
    return res[0]


class World:
    """what the translator knows about the translation unit"""

    def __init__(self):
        self.structs = {}     # C record name -> (lean name, [fields])
        self.classes = {}     # C class name modelled as its single int field -> field name
        self.funcs = {}       # C function name -> (lean name, kind) kind: "value" | ("inout", index)
        self.methods = {}     # (class, method) -> lean name
        self.ctors = {}       # (class, nparams) -> lean name
        self.consts = {}      # C name -> lean name

    def struct_of_type(self, t):
        t = re.sub(r"\b(const|struct|class)\b", "", t).replace("&", "").replace("*", "").strip()
        t = t.split("::")[-1]
        return t if t in self.structs else None

    def class_of_type(self, t):
        t = re.sub(r"\b(const|struct|class)\b", "", t).replace("&", "").replace("*", "").strip()
        t = t.split("::")[-1]
        return t if t in self.classes else None


class ITr(Tr):
    """integer/struct expression translator over Int"""

    def __init__(self, world, local_names, self_class=None):
        Tr.__init__(self, {}, {}, int_mode=True)
        self.w, self.locals, self.self_class = world, set(local_names), self_class

    def args(self, ns):
        return " ".join(self.atomic(a) for a in ns)

    def atomic(self, n):
        s = self.expr(n)
        if re.match(r"^[A-Za-z_][A-Za-z0-9_'.]*$", s) or re.match(r"^\d+$", s) or (s.startswith("(") and s.endswith(")")):
            return s
        return "(" + s + ")"

    def expr(self, n):
        n = strip(n)
        k = n.get("kind")
        if k == "DeclRefExpr":
            nm = n["referencedDecl"]["name"]
            if nm in self.locals:
                return lean_id(nm)
            if nm in self.w.consts:
                return self.w.consts[nm]
            raise ExtractError("reference to `%s`, which is neither a local nor a translated constant" % nm)
        if k == "MemberExpr":
            base = strip(kids(n)[0]) if kids(n) else None
            if base is None or base.get("kind") == "CXXThisExpr":
                if self.self_class and self.w.classes.get(self.self_class) == n["name"]:
                    return "self"
                raise ExtractError("member `%s` of this" % n["name"])
            bt = ctype(base)
            if self.w.struct_of_type(bt) is None:
                raise ExtractError("member access on a value of type `%s`" % bt)
            return "%s.%s" % (self.atomic(base), lean_id(n["name"]))
        if k == "CXXMemberCallExpr":
            callee = strip(kids(n)[0])
            if callee.get("kind") == "MemberExpr":
                obj = strip(kids(callee)[0])
                cls = self.w.class_of_type(ctype(obj)) if obj.get("kind") != "CXXThisExpr" else self.self_class
                key = (cls, callee["name"])
                if key in self.w.methods:
                    o = "self" if obj.get("kind") == "CXXThisExpr" else self.atomic(obj)
                    return ("%s %s %s" % (self.w.methods[key], o, self.args(kids(n)[1:]))).strip()
            raise ExtractError("call of an untranslated method")
        if k in ("CXXConstructExpr", "CXXTemporaryObjectExpr"):
            t = ctype(n)
            args = kids(n)
            cls = self.w.class_of_type(t)
            st = self.w.struct_of_type(t)
            if len(args) == 1 and (self.w.class_of_type(ctype(strip(args[0]))) == cls and cls is not None
                                   or self.w.struct_of_type(ctype(strip(args[0]))) == st and st is not None):
                return self.expr(args[0])       # copy / move construction
            if cls is not None:
                key = (cls, len(args))
                if key not in self.w.ctors:
                    raise ExtractError("constructor %s/%d is not translated" % key)
                return ("%s %s" % (self.w.ctors[key], self.args(args))).strip()
            if st is not None and not args:
                return "default"
            raise ExtractError("construction of `%s`" % t)
        if k == "CallExpr":
            callee = strip(kids(n)[0])
            nm = callee.get("referencedDecl", {}).get("name") if callee.get("kind") == "DeclRefExpr" else None
            if nm in self.w.funcs and self.w.funcs[nm][1] == "value":
                return "%s %s" % (self.w.funcs[nm][0], self.args(kids(n)[1:]))
            raise ExtractError("call of untranslated function `%s`" % nm)
        if k == "UnaryOperator" and n.get("opcode") in ("+",):
            return self.expr(kids(n)[0])
        return Tr.expr(self, n)


class FnTr:
    """statement translator for one function body"""

    def __init__(self, world, fn, self_class=None):
        self.w, self.fn, self.self_class = world, fn, self_class
        self.types = {}
        self.nif = 0
        for p in params_of(fn):
            self.types[p["name"]] = ctype(p)
        for n in walk(body_of(fn)):
            if n.get("kind") == "VarDecl":
                if n["name"] in self.types:
                    raise ExtractError("%s: variable `%s` declared twice (scopes are not translated)" % (fn["name"], n["name"]))
                self.types[n["name"]] = ctype(n)
        self.tr = ITr(world, self.types.keys(), self_class)

    def lean_type(self, t):
        if self.w.struct_of_type(t):
            return self.w.structs[self.w.struct_of_type(t)][0]
        if self.w.class_of_type(t):
            return self.w.class_of_type(t)
        if t in INT_TYPES:
            return "Int"
        raise ExtractError("%s: type `%s` is outside the translated subset" % (self.fn["name"], t))

    # an lvalue: (variable, field or None)
    def lvalue(self, n):
        n = strip(n)
        if n.get("kind") == "DeclRefExpr":
            nm = n["referencedDecl"]["name"]
            if nm not in self.types:
                raise ExtractError("assignment to non-local `%s`" % nm)
            return nm, None
        if n.get("kind") == "MemberExpr":
            base = strip(kids(n)[0])
            if base.get("kind") == "DeclRefExpr" and base["referencedDecl"]["name"] in self.types:
                return base["referencedDecl"]["name"], n["name"]
        raise ExtractError("%s: unsupported assignment target (%s)" % (self.fn["name"], n.get("kind")))

    def assign(self, n):
        """translate an expression statement into (variable, lean rhs) or None"""
        n = strip(n)
        k = n.get("kind")
        if k == "BinaryOperator" and n.get("opcode") == "=":
            l, r = kids(n)
            var, fld = self.lvalue(l)
            rhs = self.tr.expr(r)
            return var, rhs if fld is None else "{ %s with %s := %s }" % (lean_id(var), lean_id(fld), rhs)
        if k == "CompoundAssignOperator":
            op = n["opcode"][:-1]
            l, r = kids(n)
            var, fld = self.lvalue(l)
            cur = lean_id(var) if fld is None else "%s.%s" % (lean_id(var), lean_id(fld))
            b = self.tr.atomic(r)
            if op in ("+", "-", "*"):
                rhs = "%s %s %s" % (cur, op, b)
            elif op == "/":
                rhs = "Int.tdiv %s %s" % (cur, b)
            elif op == "%":
                rhs = "Int.tmod %s %s" % (cur, b)
            else:
                raise ExtractError("compound assignment " + n["opcode"])
            return var, rhs if fld is None else "{ %s with %s := %s }" % (lean_id(var), lean_id(fld), rhs)
        if k == "UnaryOperator" and n.get("opcode") in ("++", "--"):
            var, fld = self.lvalue(kids(n)[0])
            cur = lean_id(var) if fld is None else "%s.%s" % (lean_id(var), lean_id(fld))
            rhs = "%s %s 1" % (cur, "+" if n["opcode"] == "++" else "-")
            return var, rhs if fld is None else "{ %s with %s := %s }" % (lean_id(var), lean_id(fld), rhs)
        if k == "CallExpr":
            callee = strip(kids(n)[0])
            nm = callee.get("referencedDecl", {}).get("name") if callee.get("kind") == "DeclRefExpr" else None
            if nm in self.w.funcs and isinstance(self.w.funcs[nm][1], tuple):
                idx = self.w.funcs[nm][1][1]
                args = kids(n)[1:]
                out = strip(args[idx])
                if out.get("kind") == "UnaryOperator" and out.get("opcode") == "&":
                    var, fld = self.lvalue(kids(out)[0])
                    if fld is None:
                        parts = [lean_id(var) if i == idx else self.tr.atomic(a) for i, a in enumerate(args)]
                        return var, "%s %s" % (self.w.funcs[nm][0], " ".join(parts))
                raise ExtractError("%s: the in/out argument of %s is not `&variable`" % (self.fn["name"], nm))
            raise ExtractError("%s: call statement of `%s`" % (self.fn["name"], nm))
        if k == "CStyleCastExpr" and n.get("castKind") == "ToVoid":
            return None
        raise ExtractError("%s: unsupported statement %s" % (self.fn["name"], k))

    @staticmethod
    def stmts(n):
        return kids(n) if n.get("kind") == "CompoundStmt" else [n]

    def ends_in_return(self, ss):
        return bool(ss) and ss[-1].get("kind") == "ReturnStmt"

    def assigned(self, ss):
        vs = []
        for s in ss:
            for n in walk(s):
                k = n.get("kind")
                if k == "ReturnStmt":
                    raise ExtractError("%s: `return` inside a branch that falls through" % self.fn["name"])
                if k == "DeclStmt":
                    raise ExtractError("%s: declaration inside a branch" % self.fn["name"])
            if s.get("kind") == "IfStmt":
                ks = kids(s)
                for arm in ks[1:]:
                    for v in self.assigned(self.stmts(arm)):
                        if v not in vs:
                            vs.append(v)
                continue
            a = self.assign(s)
            if a is not None and a[0] not in vs:
                vs.append(a[0])
        return vs

    def block(self, ss, tail, ind):
        """Lean term for the statement list `ss`; `tail` is the Lean term the block ends in
        when it does not return (None: it must return)"""
        pad = "  " * ind
        if not ss:
            if tail is None:
                raise ExtractError("%s: control reaches the end without `return`" % self.fn["name"])
            return pad + tail
        s, rest = ss[0], ss[1:]
        k = s.get("kind")
        if k == "NullStmt":
            return self.block(rest, tail, ind)
        if k == "CompoundStmt":
            return self.block(kids(s) + rest, tail, ind)
        if k == "ReturnStmt":
            if rest:
                raise ExtractError("%s: statements after `return`" % self.fn["name"])
            if not kids(s):
                if tail is None:
                    raise ExtractError("%s: bare return" % self.fn["name"])
                return pad + tail
            return pad + self.tr.expr(kids(s)[0])
        if k == "DeclStmt":
            out = []
            for v in kids(s):
                if v.get("kind") != "VarDecl":
                    raise ExtractError("%s: declaration of %s" % (self.fn["name"], v.get("kind")))
                lt = self.lean_type(ctype(v))
                if not kids(v):
                    raise ExtractError("%s: `%s` is declared without an initialiser" % (self.fn["name"], v["name"]))
                out.append("%slet %s : %s := %s  -- %s" % (pad, lean_id(v["name"]), lt, self.tr.expr(kids(v)[-1]), ctype(v)))
            return "\n".join(out) + "\n" + self.block(rest, tail, ind)
        if k == "IfStmt":
            ks = kids(s)
            if s.get("hasInit") or s.get("hasVar"):
                raise ExtractError("%s: `if` with an init statement" % self.fn["name"])
            cond = self.tr.expr(ks[0])
            then = self.stmts(ks[1])
            els = self.stmts(ks[2]) if len(ks) > 2 else []
            if self.ends_in_return(then):
                return "%sif %s then\n%s\n%selse\n%s" % (pad, cond, self.block(then, None, ind + 1), pad,
                                                          self.block(els + rest, tail, ind + 1))
            if self.ends_in_return(els):
                return "%sif %s then\n%s\n%selse\n%s" % (pad, cond, self.block(then + rest, tail, ind + 1), pad,
                                                          self.block(els, None, ind + 1))
            vs = self.assigned(then + els)
            if not vs:
                return self.block(rest, tail, ind)
            tup = lean_id(vs[0]) if len(vs) == 1 else "(" + ", ".join(lean_id(v) for v in vs) + ")"
            self.nif += 1
            r = "r%d" % self.nif
            out = "%slet %s :=\n%s  if %s then\n%s\n%s  else\n%s\n" % (
                pad, r if len(vs) > 1 else lean_id(vs[0]), pad, cond, self.block(then, tup, ind + 2), pad,
                self.block(els, tup, ind + 2))
            if len(vs) > 1:
                for i, v in enumerate(vs):
                    proj = ".1" if i == 0 else ".2" * i + (".1" if i < len(vs) - 1 else "")
                    out += "%slet %s := %s%s\n" % (pad, lean_id(v), r, proj)
            return out + self.block(rest, tail, ind)
        a = self.assign(s)
        if a is None:
            return self.block(rest, tail, ind)
        return "%slet %s := %s\n" % (pad, lean_id(a[0]), a[1]) + self.block(rest, tail, ind)


def c_signature(fn):
    return "%s %s" % (fn["name"], ctype(fn))


def translate_function(world, fn, lean_name, self_class=None, doc=""):
    """-> Lean definition text; registers nothing"""
    ft = FnTr(world, fn, self_class)
    ps = params_of(fn)
    ret = ctype(fn).split("(")[0].strip()
    binders = []
    if self_class:
        binders.append("(self : %s)" % self_class)
    inout = None
    for i, p in enumerate(ps):
        t = ctype(p)
        if "*" in t:
            if inout is not None or world.struct_of_type(t) is None:
                raise ExtractError("%s: pointer parameter `%s`" % (fn["name"], p["name"]))
            inout = p["name"]
        binders.append("(%s : %s)" % (lean_id(p["name"]), ft.lean_type(t)))
    if ret == "void":
        if inout is None:
            raise ExtractError("%s: void function without an in/out parameter" % fn["name"])
        rt = ft.lean_type(ft.types[inout])
        body = ft.block(kids(body_of(fn)), lean_id(inout), 1)
    else:
        if inout is not None:
            raise ExtractError("%s: value-returning function with a pointer parameter" % fn["name"])
        rt = ft.lean_type(ret)
        body = ft.block(kids(body_of(fn)), None, 1)
    ctypes = ", ".join("%s %s" % (ctype(p), p["name"]) for p in ps)
    return "/-- %s`%s %s(%s)` -/\ndef %s %s : %s :=\n%s\n" % (doc, ret, fn["name"], ctypes, lean_name, " ".join(binders), rt, body)


def translate_ctor(world, fn, cls, lean_name):
    """a constructor of a single-field class: the initialiser of that field"""
    fld = world.classes[cls]
    ps = params_of(fn)
    if kids(body_of(fn)):
        raise ExtractError("%s constructor with a non-empty body" % cls)
    init = [c for c in kids(fn) if c.get("kind") == "CXXCtorInitializer" and c.get("anyInit", {}).get("name") == fld]
    if len(init) != 1:
        raise ExtractError("%s constructor does not initialise %s" % (cls, fld))
    ft = FnTr(world, fn, None)
    binders = " ".join("(%s : %s)" % (lean_id(p["name"]), ft.lean_type(ctype(p))) for p in ps)
    ctypes = ", ".join("%s %s" % (ctype(p), p["name"]) for p in ps)
    return "/-- `%s::%s(%s)`: the initialiser of `%s` -/\ndef %s %s : %s :=\n  %s\n" % (
        cls, cls, ctypes, fld, lean_name, binders, cls, ft.tr.expr(kids(init[0])[0]))


def struct_def(lean_name, fields, cname):
    for f, t in fields:
        if t not in INT_TYPES:
            raise ExtractError("field %s::%s has type %s" % (cname, f, t))
    body = "\n".join("  %s : Int := 0  -- %s" % (lean_id(f), t) for f, t in fields)
    return "/-- `struct %s` -/\nstructure %s where\n%s\nderiving Repr, DecidableEq, Inhabited\n" % (cname, lean_name, body)


def const_def(world, var, lean_name):
    if not kids(var):
        raise ExtractError("constant %s has no initialiser here" % var["name"])
    tr = ITr(world, [])
    return "/-- `%s %s` -/\ndef %s : Int := %s\n" % (ctype(var), var["name"], lean_name, tr.expr(kids(var)[-1]))


def with_body(n):
    return body_of(n) is not None


def generate():
    w = World()
    out = [HEADER % "muduo/base/Date.h, Date.cc, TimeZone.h, TimeZone.cc, Timestamp.h",
           "namespace MuduoVerif.Gen.Calendar\n"]
    date_docs = ast_dump("muduo/base/Date.cc", "muduo::Date")
    det_docs = ast_dump("muduo/base/Date.cc", "muduo::detail::get")
    tz_docs = ast_dump("muduo/base/TimeZone.cc", "muduo::DateTime")
    tzf_docs = (ast_dump("muduo/base/TimeZone.cc", "muduo::detail::fillHMS") + ast_dump("muduo/base/TimeZone.cc", "muduo::detail::BreakTime")
                + ast_dump("muduo/base/TimeZone.cc", "muduo::TimeZone::fromUtcTime") + ast_dump("muduo/base/TimeZone.cc", "muduo::TimeZone::toUtcTime"))
    ksec_docs = ast_dump("muduo/base/TimeZone.cc", "muduo::kSecondsPerDay")

    # records
    date_rec = find_record(date_docs, "Date")
    if [f for f, _ in fields_of(date_rec)] != ["julianDayNumber_"]:
        raise ExtractError("class Date no longer consists of the single field julianDayNumber_")
    w.classes["Date"] = "julianDayNumber_"
    out.append("/-- `class Date`: its only field, `int julianDayNumber_` -/\nabbrev Date := Int\n")
    ymd_rec = find_record(date_docs, "YearMonthDay")
    w.structs["YearMonthDay"] = ("YearMonthDay", fields_of(ymd_rec))
    out.append(struct_def("YearMonthDay", fields_of(ymd_rec), "Date::YearMonthDay"))
    dt_rec = find_record(tz_docs, "DateTime")
    w.structs["DateTime"] = ("DateTime", fields_of(dt_rec))
    out.append(struct_def("DateTime", fields_of(dt_rec), "DateTime"))

    # free functions of Date.cc
    for nm in ("getJulianDayNumber", "getYearMonthDay"):
        fn = find_decl(det_docs, "FunctionDecl", nm, with_body)
        out.append(translate_function(w, fn, nm))
        w.funcs[nm] = (nm, "value")

    # constants
    w.consts["kDaysPerWeek"] = "kDaysPerWeek"
    out.append(const_def(w, find_decl(date_docs, "VarDecl", "kDaysPerWeek", lambda n: bool(kids(n))), "kDaysPerWeek"))
    out.append(const_def(w, find_decl(date_docs, "VarDecl", "kJulianDayOf1970_01_01", lambda n: bool(kids(n))),
                         "kJulianDayOf1970_01_01"))
    w.consts["kJulianDayOf1970_01_01"] = "kJulianDayOf1970_01_01"
    out.append(const_def(w, find_decl(ksec_docs, "VarDecl", "kSecondsPerDay", lambda n: bool(kids(n))), "kSecondsPerDay"))
    w.consts["kSecondsPerDay"] = "kSecondsPerDay"

    # class Date: constructors and methods
    c3 = find_decl(date_docs, "CXXConstructorDecl", "Date", lambda n: with_body(n) and len(params_of(n)) == 3)
    out.append(translate_ctor(w, c3, "Date", "Date_ofYmd"))
    w.ctors[("Date", 3)] = "Date_ofYmd"
    c1 = find_decl(date_docs, "CXXConstructorDecl", "Date",
                   lambda n: with_body(n) and len(params_of(n)) == 1 and ctype(params_of(n)[0]) == "int")
    out.append(translate_ctor(w, c1, "Date", "Date_ofJdn"))
    w.ctors[("Date", 1)] = "Date_ofJdn"
    for m, ln in (("julianDayNumber", "Date_julianDayNumber"), ("yearMonthDay", "Date_yearMonthDay"),
                  ("weekDay", "Date_weekDay")):
        fn = find_decl(date_docs, "CXXMethodDecl", m, with_body)
        if params_of(fn):
            raise ExtractError("Date::%s takes parameters now" % m)
        out.append(translate_function(w, fn, ln, self_class="Date", doc="`Date::%s`: " % m))
        w.methods[("Date", m)] = ln

    # TimeZone.cc
    fn = find_decl(tzf_docs, "FunctionDecl", "fillHMS", with_body)
    ps = params_of(fn)
    idx = [i for i, p in enumerate(ps) if "*" in ctype(p)]
    if len(idx) != 1:
        raise ExtractError("fillHMS: expected exactly one pointer parameter")
    out.append(translate_function(w, fn, "fillHMS"))
    w.funcs["fillHMS"] = ("fillHMS", ("inout", idx[0]))
    fn = find_decl(tzf_docs, "FunctionDecl", "BreakTime", with_body)
    out.append(translate_function(w, fn, "BreakTime"))
    w.funcs["BreakTime"] = ("BreakTime", "value")
    fn = find_decl(tzf_docs, "CXXMethodDecl", "fromUtcTime", with_body)
    out.append(translate_function(w, fn, "fromUtcTime", doc="`TimeZone::fromUtcTime` (static): "))
    fn = find_decl(tzf_docs, "CXXMethodDecl", "toUtcTime", with_body)
    out.append(translate_function(w, fn, "toUtcTime", doc="`TimeZone::toUtcTime` (static): "))

    # Timestamp.h
    ts_docs = ast_dump("muduo/base/Timestamp.cc", "muduo::Timestamp::kMicroSecondsPerSecond")
    out.append(const_def(w, find_decl(ts_docs, "VarDecl", "kMicroSecondsPerSecond", lambda n: bool(kids(n))),
                         "kMicroSecondsPerSecond"))
    out.append("end MuduoVerif.Gen.Calendar\n")
    return "\n".join(out)
