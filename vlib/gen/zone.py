"""T1 for the zone look-ups of muduo/base/TimeZone.cc: every comparison and every piece of
arithmetic of `TimeZone::Data::findLocalTime` (both overloads), the two comparators used by
`std::upper_bound`, `addTransition`'s shifted-epoch computation and the offset arithmetic of
`toLocalTime` / `fromLocalTime`, as guard / integer definitions (namespace
MuduoVerif.Gen.Zone).  The control structure around them is hand-modelled in
Model/Zone.lean and tied by the differential run.

Iterators are indices (`transitions.begin()` = 0, `transitions.end()` = n)."""
from ..extract import (HEADER, ExtractError, Tr, ast_dump, body_of, ctype, find_ifs, if_cond, kids, locate_if, locate_var,
                       mentions, prop_def, strip, the_function, unparen, walk)

NAME = "Zone"


class ZTr(Tr):
    """adds `v[i]` atoms and iterator comparisons to the expression translator"""

    def atom_key(self, n):
        n = strip(n)
        if n.get("kind") == "CXXOperatorCallExpr":
            ks = kids(n)
            op = strip(ks[0])
            if op.get("kind") == "DeclRefExpr" and op["referencedDecl"]["name"] == "operator[]" and len(ks) == 3:
                a, b = Tr.atom_key(self, strip(ks[1])), self.atom_key(strip(ks[2]))
                if a is not None and b is not None:
                    return "%s[%s]" % (a, b)
                return None
        return Tr.atom_key(self, n)

    def expr(self, n):
        n = strip(n)
        if n.get("kind") == "CXXOperatorCallExpr":
            ks = kids(n)
            op = strip(ks[0])
            nm = op.get("referencedDecl", {}).get("name") if op.get("kind") == "DeclRefExpr" else None
            table = {"operator==": "=", "operator!=": "≠", "operator<": "<", "operator<=": "≤", "operator>": ">",
                     "operator>=": "≥"}
            if nm in table and len(ks) == 3:
                return "(%s %s %s)" % (self.expr(ks[1]), table[nm], self.expr(ks[2]))
        return Tr.expr(self, n)


def int_def(name, params, body, doc):
    ps = " ".join("(%s : %s)" % (p, t) for p, t in params)
    return "/-- %s -/\ndef %s %s : Int := %s\n" % (doc, name, ps, body)


def method_of(docs, cls_fragment, name):
    """the definition of `name` whose parent record mentions cls_fragment (comparators)"""
    res = []
    for d in docs:
        for n in walk(d):
            if n.get("kind") == "CXXRecordDecl" and n.get("name") == cls_fragment:
                for m in kids(n):
                    if m.get("kind") == "CXXMethodDecl" and m.get("name") == name and body_of(m) is not None:
                        res.append(m)
    seen, out = set(), []
    for r in res:
        if r.get("id") not in seen:
            seen.add(r.get("id"))
            out.append(r)
    if len(out) != 1:
        raise ExtractError("expected one %s::%s, found %d" % (cls_fragment, name, len(out)))
    return out[0]


def returned(fn):
    rs = [n for n in walk(body_of(fn)) if n.get("kind") == "ReturnStmt"]
    if len(rs) != 1 or not kids(rs[0]):
        raise ExtractError("%s: expected a single `return e`" % fn.get("name"))
    return kids(rs[0])[0]


def search_call(fn, var, cmp_name, sentry_fields):
    """the initialiser of the iterator `var`: `std::upper_bound(transitions.begin(), transitions.end(), sentry, Cmp())`.
    Returns True for upper_bound, False for lower_bound (the model has both libstdc++ loops); anything else is an error."""
    v = locate_var(fn, var)
    calls = [n for n in walk(v) if n.get("kind") == "CallExpr"
             and strip(kids(n)[0]).get("kind") == "DeclRefExpr"
             and strip(kids(n)[0])["referencedDecl"]["name"] in ("upper_bound", "lower_bound", "equal_range", "find_if", "partition_point")]
    if len(calls) != 1:
        raise ExtractError("%s: `%s` is no longer initialised by one std::upper_bound/lower_bound call" % (fn.get("name"), var))
    c = calls[0]
    name = strip(kids(c)[0])["referencedDecl"]["name"]
    if name not in ("upper_bound", "lower_bound"):
        raise ExtractError("%s: `%s` is computed by std::%s, which the model does not have" % (fn.get("name"), var, name))
    args = kids(c)[1:]
    if len(args) != 4:
        raise ExtractError("%s: std::%s is expected with (first, last, value, comp)" % (fn.get("name"), name))

    def member_call(a):
        ms = [x for x in walk(a) if x.get("kind") == "MemberExpr"]
        if len(ms) != 2 or ms[1].get("name") != "transitions":
            return None
        return ms[0].get("name")
    if member_call(args[0]) != "begin" or member_call(args[1]) != "end":
        raise ExtractError("%s: std::%s no longer searches transitions.begin()..transitions.end()" % (fn.get("name"), name))
    val = strip(args[2])
    if val.get("kind") != "DeclRefExpr" or val["referencedDecl"]["name"] != "sentry":
        raise ExtractError("%s: the searched value is no longer `sentry`" % fn.get("name"))
    if cmp_name not in ctype(args[3]):
        raise ExtractError("%s: the comparator is no longer %s (%s)" % (fn.get("name"), cmp_name, ctype(args[3])))
    # Transition sentry(a, b, c): which constructor argument carries the searched key
    sv = locate_var(fn, "sentry")
    ctor = [n for n in walk(sv) if n.get("kind") == "CXXConstructExpr" and len(kids(n)) == 3]
    if len(ctor) != 1:
        raise ExtractError("%s: `Transition sentry(x, y, z)` was not found" % fn.get("name"))
    got = []
    for a in kids(ctor[0]):
        a = strip(a)
        if a.get("kind") == "IntegerLiteral":
            got.append(str(int(a["value"])))
        elif a.get("kind") == "DeclRefExpr":
            got.append(a["referencedDecl"]["name"])
        else:
            got.append("?")
    if got != sentry_fields:
        raise ExtractError("%s: sentry is built from %s, expected %s" % (fn.get("name"), got, sentry_fields))
    return name == "upper_bound"


def find_ifs_in(node):
    return [n for n in walk(node) if n.get("kind") == "IfStmt"]


def bool_def(name, value, doc):
    return "/-- %s -/\ndef %s : Bool := %s\n" % (doc, name, "true" if value else "false")


def generate():
    out = [HEADER % "muduo/base/TimeZone.cc", "namespace MuduoVerif.Gen.Zone\n"]
    docs = ast_dump("muduo/base/TimeZone.cc", "muduo::TimeZone::Data")
    I, N = ("Int", "Nat")

    # comparators handed to std::upper_bound: cmp(sentry, element)
    for cls, fld, nm in (("CompareUtcTime", "utctime", "cmpUtc"), ("CompareLocalTime", "localtime", "cmpLocal")):
        fn = method_of(docs, cls, "operator()")
        t = ZTr({"lhs." + fld: "lhs", "rhs." + fld: "rhs"})
        body = unparen(t.expr(returned(fn)))
        if t.used != {"lhs." + fld, "rhs." + fld}:
            raise ExtractError("%s no longer compares lhs.%s with rhs.%s" % (cls, fld, fld))
        out.append(prop_def(nm, [("lhs", I), ("rhs", I)], body, "`TimeZone::Data::%s::operator()` on the `%s` fields" % (cls, fld)))

    # addTransition: the shifted-epoch local time stored with every transition
    fn = the_function(docs, "addTransition")
    ctor = [n for n in walk(body_of(fn)) if n.get("kind") in ("CXXTemporaryObjectExpr", "CXXConstructExpr")
            and "Transition" in ctype(n) and len(kids(n)) == 3]
    if len(ctor) != 1:
        raise ExtractError("addTransition: the Transition(utc, local, idx) construction was not found")
    t = ZTr({"utcTime": "utcTime", "lt.utcOffset": "utcOffset", "localtimeIdx": "localtimeIdx"})
    a0, a1, a2 = [unparen(t.expr(k)) for k in kids(ctor[0])]
    if a0 != "utcTime" or a2 != "localtimeIdx":
        raise ExtractError("addTransition: unexpected Transition arguments (%s, %s, %s)" % (a0, a1, a2))
    out.append(int_def("shiftedLocal", [("utcTime", I), ("utcOffset", I)], a1,
                       "`TimeZone::Data::addTransition`: the `localtime` field (shifted epoch) of a transition"))

    # findLocalTime(int64_t utcTime)
    f1 = the_function(docs, "findLocalTime", nparams=1)
    t = ZTr({"transitions.empty()": "(n = 0)", "utcTime": "utcTime", "transitions.front().utctime": "firstUtc"})
    out.append(prop_def("utcUseFirst", [("n", N), ("utcTime", I), ("firstUtc", I)],
                        unparen(t.expr(if_cond(locate_if(f1, "utcTime")))),
                        "`findLocalTime(utcTime)`: no transition applies, use `localtimes.front()`"))
    out.append(bool_def("utcSearchUpper", search_call(f1, "transI", "CompareUtcTime", ["utcTime", "0", "0"]),
                        "`findLocalTime(utcTime)`: `transI` is `std::upper_bound(begin, end, Transition(utcTime,0,0), CompareUtcTime())` "
                        "(`false`: `std::lower_bound`)"))
    ends = [i for i in find_ifs(f1) if mentions(if_cond(i), "transI") and mentions(if_cond(i), "end")]
    if len(ends) != 1:
        raise ExtractError("findLocalTime(utcTime): the comparison of transI with end() was not found")
    t = ZTr({"transI": "i", "transitions.end()": "n"})
    out.append(prop_def("utcInside", [("i", N), ("n", N)], unparen(t.expr(if_cond(ends[0]))),
                        "`findLocalTime(utcTime)`: the upper bound is not `end()` (then `--transI`), else `transitions.back()`"))

    # findLocalTime(const DateTime&, bool postTransition)
    f2 = the_function(docs, "findLocalTime", nparams=2)
    t = ZTr({"transitions.empty()": "(n = 0)", "localtime": "localtime", "transitions.front().localtime": "firstLocal"})
    fronts = [i for i in find_ifs(f2) if mentions(if_cond(i), "front")]
    first = [i for i in fronts if not mentions(if_cond(i), "postTransition")]
    if len(first) != 1:
        raise ExtractError("findLocalTime(local): the test against transitions.front() was not found")
    out.append(prop_def("localUseFirst", [("n", N), ("localtime", I), ("firstLocal", I)], unparen(t.expr(if_cond(first[0]))),
                        "`findLocalTime(local, post)`: before the first transition, use `localtimes.front()`"))
    # inside it: the local time that the FIRST transition skipped, read after the transition
    inner = [i for i in fronts if mentions(if_cond(i), "postTransition")]
    nested = [i for i in find_ifs_in(kids(first[0])[1])]
    if len(inner) != 1 or [x.get("id") for x in nested] != [inner[0].get("id")] or len(kids(first[0])) != 2:
        raise ExtractError("findLocalTime(local): expected, inside the test against transitions.front(), exactly the test "
                           "`postTransition && !transitions.empty() && front().utctime - 1 + localtimes.front().utcOffset < localtime`")
    rets = [strip(kids(r)[0]) for r in walk(kids(inner[0])[1]) if r.get("kind") == "ReturnStmt" and kids(r)]
    if len(kids(inner[0])) != 2 or len(rets) != 1 or not (mentions(rets[0], "front") and mentions(rets[0], "localtimeIdx")
                                                           and mentions(rets[0], "localtimes")):
        raise ExtractError("findLocalTime(local): the first-transition skip does not return &localtimes[transitions.front().localtimeIdx]")
    t = ZTr({"postTransition": "(post = true)", "transitions.empty()": "(n = 0)", "transitions.front().utctime": "firstUtc",
             "localtimes.front().utcOffset": "frontOffset", "localtime": "localtime"})
    out.append(prop_def("firstSkipPost", [("post", "Bool"), ("n", N), ("firstUtc", I), ("frontOffset", I), ("localtime", I)],
                        unparen(t.expr(if_cond(inner[0]))),
                        "`findLocalTime(local, post)`: the local time was skipped by the FIRST transition (before it `localtimes.front()` "
                        "is in force) and the reading after the transition is asked for: `&localtimes[transitions.front().localtimeIdx]`"))
    if t.used != {"postTransition", "transitions.empty()", "transitions.front().utctime", "localtimes.front().utcOffset", "localtime"}:
        raise ExtractError("findLocalTime(local): the first-transition skip test no longer reads what the model gives it")
    out.append(bool_def("localSearchUpper", search_call(f2, "transI", "CompareLocalTime", ["0", "localtime", "0"]),
                        "`findLocalTime(local, post)`: `transI` is `std::upper_bound(begin, end, Transition(0,localtime,0), CompareLocalTime())` "
                        "(`false`: `std::lower_bound`)"))
    # const bool afterLast = (transI == transitions.end());
    v = locate_var(f2, "afterLast")
    t = ZTr({"transI": "i", "transitions.end()": "n"})
    out.append(prop_def("localAfterLast", [("i", N), ("n", N)], unparen(t.expr(kids(v)[-1])),
                        "`findLocalTime(local, post)`: the initialiser of `afterLast` (the upper bound is `end()`)"))
    if t.used != {"transI", "transitions.end()"}:
        raise ExtractError("findLocalTime(local): `afterLast` no longer compares transI with transitions.end()")
    # Transition prior_trans = *(transI - 1);  -- the element before the bound
    v = locate_var(f2, "prior_trans")
    subs = [n for n in walk(v) if n.get("kind") == "CXXOperatorCallExpr"
            and strip(kids(n)[0]).get("referencedDecl", {}).get("name") == "operator-"]
    if len(subs) != 1 or strip(kids(subs[0])[1]).get("referencedDecl", {}).get("name") != "transI" \
            or strip(kids(subs[0])[2]).get("kind") != "IntegerLiteral" or int(strip(kids(subs[0])[2])["value"]) != 1:
        raise ExtractError("findLocalTime(local): `prior_trans = *(transI - 1)` was not found")
    begins = [i for i in find_ifs(f2) if mentions(if_cond(i), "transI") and mentions(if_cond(i), "begin")]
    if len(begins) != 1:
        raise ExtractError("findLocalTime(local): the comparison of transI with begin() was not found")
    t = ZTr({"transI": "j", "transitions.begin()": "0"})
    out.append(prop_def("hasPrior", [("j", N)], unparen(t.expr(if_cond(begins[0]))),
                        "`findLocalTime(local, post)`: after `--transI`, there is a transition before it"))
    sym = {"transI.utctime": "transUtc", "localtimes[prior_trans.localtimeIdx].utcOffset": "priorOffset",
           "afterLast": "(afterLast = true)"}
    v = locate_var(f2, "prior_second")
    t = ZTr(dict(sym))
    out.append(int_def("priorSecond", [("afterLast", "Bool"), ("transUtc", I), ("priorOffset", I)], unparen(t.expr(kids(v)[-1])),
                       "`findLocalTime(local, post)`: last local second before the transition `transI` (initialiser of `prior_second`)"))
    def assigns_in(node, var):
        return [n for n in walk(node) if n.get("kind") == "BinaryOperator" and n.get("opcode") == "="
                and strip(kids(n)[0]).get("kind") == "DeclRefExpr" and strip(kids(n)[0])["referencedDecl"]["name"] == var]
    if len(kids(begins[0])) != 3:
        raise ExtractError("findLocalTime(local): the test of transI against begin() has no else branch (the first transition)")
    thn, els = kids(begins[0])[1], kids(begins[0])[2]
    assigns = assigns_in(thn, "prior_second")
    if len(assigns) != 1 or len(assigns_in(body_of(f2), "prior_second")) != 2:
        raise ExtractError("findLocalTime(local): expected exactly one re-assignment of prior_second in each branch after `--transI`")
    t = ZTr(dict(sym))
    out.append(int_def("priorSecond2", [("transUtc", I), ("priorOffset", I)], unparen(t.expr(kids(assigns[0])[1])),
                       "the same, re-computed after `--transI` (assignment to `prior_second`)"))
    # else: the first transition - `prior_trans.localtimeIdx = 0; prior_second = transI->utctime - 1 + localtimes.front().utcOffset;`
    a2 = assigns_in(els, "prior_second")
    idx = [n for n in walk(els) if n.get("kind") == "BinaryOperator" and n.get("opcode") == "="
           and strip(kids(n)[0]).get("kind") == "MemberExpr" and strip(kids(n)[0]).get("name") == "localtimeIdx"
           and mentions(kids(n)[0], "prior_trans")]
    if len(a2) != 1 or len(idx) != 1 or strip(kids(idx[0])[1]).get("kind") != "IntegerLiteral":
        raise ExtractError("findLocalTime(local): the branch of the first transition is not "
                           "`prior_trans.localtimeIdx = <literal>; prior_second = ..;`")
    out.append("/-- `findLocalTime(local, post)`, `transI == begin()`: the record in force before the first transition is "
               "`localtimes[%d]` (`prior_trans.localtimeIdx = %d`) -/\ndef priorIdxFirst : Nat := %d\n"
               % ((int(strip(kids(idx[0])[1])["value"]),) * 3))
    t = ZTr({"transI.utctime": "transUtc", "localtimes.front().utcOffset": "frontOffset"})
    out.append(int_def("priorSecondFirst", [("transUtc", I), ("frontOffset", I)], unparen(t.expr(kids(a2[0])[1])),
                       "`findLocalTime(local, post)`, `transI == begin()`: last local second before the FIRST transition"))
    if t.used != {"transI.utctime", "localtimes.front().utcOffset"}:
        raise ExtractError("findLocalTime(local): prior_second of the first transition no longer reads transI->utctime and localtimes.front().utcOffset")
    skip = [i for i in find_ifs(f2) if mentions(if_cond(i), "prior_second") and mentions(if_cond(i), "localtime")]
    if len(skip) != 2:
        raise ExtractError("findLocalTime(local): expected the skip test and the repeat test, found %d" % len(skip))
    # the decrement `--transI` must sit between the two tests (statement order of the function body)
    stmts = kids(body_of(f2))
    pos = {id(x): k for k, x in enumerate(stmts)}
    decs = [k for k, x in enumerate(stmts) if x.get("kind") in ("UnaryOperator", "CXXOperatorCallExpr", "ExprWithCleanups")
            and mentions(x, "transI") and (x.get("opcode") == "--" or mentions(x, "operator--"))]
    if len(decs) != 1 or not (pos.get(id(skip[0]), -1) < decs[0] < pos.get(id(skip[1]), 1 << 30)):
        raise ExtractError("findLocalTime(local): expected `--transI` once, between the skip test and the repeat test")
    t = ZTr({"prior_second": "priorSec", "localtime": "localtime", "afterLast": "(afterLast = true)"})
    out.append(prop_def("isSkip", [("afterLast", "Bool"), ("priorSec", I), ("localtime", I)], unparen(t.expr(if_cond(skip[0]))),
                        "`findLocalTime(local, post)`: the local time falls into the gap before `transI` (first test)"))
    t = ZTr({"prior_second": "priorSec", "localtime": "localtime", "afterLast": "(afterLast = true)"})
    body = unparen(t.expr(if_cond(skip[1])))
    out.append(prop_def("isRepeat", [("afterLast" if "afterLast" in t.used else "_afterLast", "Bool"), ("localtime", I), ("priorSec", I)], body,
                        "`findLocalTime(local, post)`: the local time also existed before the transition (second test)"))

    # toLocalTime / fromLocalTime
    tz = ast_dump("muduo/base/TimeZone.cc", "muduo::TimeZone::toLocalTime") + ast_dump("muduo/base/TimeZone.cc", "muduo::TimeZone::fromLocalTime")
    fn = the_function(tz, "toLocalTime")
    calls = [n for n in walk(body_of(fn)) if n.get("kind") == "CallExpr"
             and strip(kids(n)[0]).get("referencedDecl", {}).get("name") == "BreakTime"]
    if len(calls) != 1:
        raise ExtractError("toLocalTime: the call of BreakTime was not found")
    t = ZTr({"seconds": "seconds", "local.utcOffset": "utcOffset"})
    out.append(int_def("toLocalShift", [("seconds", I), ("utcOffset", I)], unparen(t.expr(kids(calls[0])[1])),
                       "`TimeZone::toLocalTime`: the argument of `BreakTime`"))
    fn = the_function(tz, "fromLocalTime")
    rets = [n for n in walk(body_of(fn)) if n.get("kind") == "ReturnStmt" and mentions(n, "utcOffset")]
    if len(rets) != 1:
        raise ExtractError("fromLocalTime: the return that uses utcOffset was not found")
    t = ZTr({"localSeconds": "localSeconds", "local.utcOffset": "utcOffset"})
    out.append(int_def("fromLocalShift", [("localSeconds", I), ("utcOffset", I)], unparen(t.expr(kids(rets[0])[0])),
                       "`TimeZone::fromLocalTime`: the value returned when a record was found"))
    out.append("end MuduoVerif.Gen.Zone\n")
    return "\n".join(out)
