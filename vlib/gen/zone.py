"""T1 for the zone look-ups of muduo/base/TimeZone.cc: every comparison and every piece of
arithmetic of `TimeZone::Data::findLocalTime` (both overloads), the two comparators used by
`std::upper_bound`, `addTransition`'s shifted-epoch computation and the offset arithmetic of
`toLocalTime` / `fromLocalTime`, as guard / integer definitions (namespace
MuduoVerif.Gen.Zone).  The control structure around them is hand-modelled in
Model/Zone.lean and tied by the differential run.

Iterators are indices (`transitions.begin()` = 0, `transitions.end()` = n)."""
from ..extract import (HEADER, ExtractError, Tr, ast_dump, body_of, ctype, find_ifs, if_cond, kids, locate_if, locate_var,
                       mentions, prop_def, strip, the_function, unparen, walk)

NAME = "Zone"


class ZTr(Tr):
    """adds `v[i]` atoms and iterator comparisons to the expression translator"""

    def atom_key(self, n):
        n = strip(n)
        if n.get("kind") == "CXXOperatorCallExpr":
            ks = kids(n)
            op = strip(ks[0])
            if op.get("kind") == "DeclRefExpr" and op["referencedDecl"]["name"] == "operator[]" and len(ks) == 3:
                a, b = Tr.atom_key(self, strip(ks[1])), self.atom_key(strip(ks[2]))
                if a is not None and b is not None:
                    return "%s[%s]" % (a, b)
                return None
        return Tr.atom_key(self, n)

    def expr(self, n):
        n = strip(n)
        if n.get("kind") == "CXXOperatorCallExpr":
            ks = kids(n)
            op = strip(ks[0])
            nm = op.get("referencedDecl", {}).get("name") if op.get("kind") == "DeclRefExpr" else None
            table = {"operator==": "=", "operator!=": "≠", "operator<": "<", "operator<=": "≤", "operator>": ">",
                     "operator>=": "≥"}
            if nm in table and len(ks) == 3:
                return "(%s %s %s)" % (self.expr(ks[1]), table[nm], self.expr(ks[2]))
        return Tr.expr(self, n)


def int_def(name, params, body, doc):
    ps = " ".join("(%s : %s)" % (p, t) for p, t in params)
    return "/-- %s -/\ndef %s %s : Int := %s\n" % (doc, name, ps, body)


def method_of(docs, cls_fragment, name):
    """the definition of `name` whose parent record mentions cls_fragment (comparators)"""
    res = []
    for d in docs:
        for n in walk(d):
            if n.get("kind") == "CXXRecordDecl" and n.get("name") == cls_fragment:
                for m in kids(n):
                    if m.get("kind") == "CXXMethodDecl" and m.get("name") == name and body_of(m) is not None:
                        res.append(m)
    seen, out = set(), []
    for r in res:
        if r.get("id") not in seen:
            seen.add(r.get("id"))
            out.append(r)
    if len(out) != 1:
        raise ExtractError("expected one %s::%s, found %d" % (cls_fragment, name, len(out)))
    return out[0]


def returned(fn):
    rs = [n for n in walk(body_of(fn)) if n.get("kind") == "ReturnStmt"]
    if len(rs) != 1 or not kids(rs[0]):
        raise ExtractError("%s: expected a single `return e`" % fn.get("name"))
    return kids(rs[0])[0]


def generate():
    out = [HEADER % "muduo/base/TimeZone.cc", "namespace MuduoVerif.Gen.Zone\n"]
    docs = ast_dump("muduo/base/TimeZone.cc", "muduo::TimeZone::Data")
    I, N = ("Int", "Nat")

    # comparators handed to std::upper_bound: cmp(sentry, element)
    for cls, fld, nm in (("CompareUtcTime", "utctime", "cmpUtc"), ("CompareLocalTime", "localtime", "cmpLocal")):
        fn = method_of(docs, cls, "operator()")
        t = ZTr({"lhs." + fld: "lhs", "rhs." + fld: "rhs"})
        body = unparen(t.expr(returned(fn)))
        if t.used != {"lhs." + fld, "rhs." + fld}:
            raise ExtractError("%s no longer compares lhs.%s with rhs.%s" % (cls, fld, fld))
        out.append(prop_def(nm, [("lhs", I), ("rhs", I)], body, "`TimeZone::Data::%s::operator()` on the `%s` fields" % (cls, fld)))

    # addTransition: the shifted-epoch local time stored with every transition
    fn = the_function(docs, "addTransition")
    ctor = [n for n in walk(body_of(fn)) if n.get("kind") in ("CXXTemporaryObjectExpr", "CXXConstructExpr")
            and "Transition" in ctype(n) and len(kids(n)) == 3]
    if len(ctor) != 1:
        raise ExtractError("addTransition: the Transition(utc, local, idx) construction was not found")
    t = ZTr({"utcTime": "utcTime", "lt.utcOffset": "utcOffset", "localtimeIdx": "localtimeIdx"})
    a0, a1, a2 = [unparen(t.expr(k)) for k in kids(ctor[0])]
    if a0 != "utcTime" or a2 != "localtimeIdx":
        raise ExtractError("addTransition: unexpected Transition arguments (%s, %s, %s)" % (a0, a1, a2))
    out.append(int_def("shiftedLocal", [("utcTime", I), ("utcOffset", I)], a1,
                       "`TimeZone::Data::addTransition`: the `localtime` field (shifted epoch) of a transition"))

    # findLocalTime(int64_t utcTime)
    f1 = the_function(docs, "findLocalTime", nparams=1)
    t = ZTr({"transitions.empty()": "(n = 0)", "utcTime": "utcTime", "transitions.front().utctime": "firstUtc"})
    out.append(prop_def("utcUseFirst", [("n", N), ("utcTime", I), ("firstUtc", I)],
                        unparen(t.expr(if_cond(locate_if(f1, "utcTime")))),
                        "`findLocalTime(utcTime)`: no transition applies, use `localtimes.front()`"))
    ends = [i for i in find_ifs(f1) if mentions(if_cond(i), "transI") and mentions(if_cond(i), "end")]
    if len(ends) != 1:
        raise ExtractError("findLocalTime(utcTime): the comparison of transI with end() was not found")
    t = ZTr({"transI": "i", "transitions.end()": "n"})
    out.append(prop_def("utcInside", [("i", N), ("n", N)], unparen(t.expr(if_cond(ends[0]))),
                        "`findLocalTime(utcTime)`: the upper bound is not `end()` (then `--transI`), else `transitions.back()`"))

    # findLocalTime(const DateTime&, bool postTransition)
    f2 = the_function(docs, "findLocalTime", nparams=2)
    t = ZTr({"transitions.empty()": "(n = 0)", "localtime": "localtime", "transitions.front().localtime": "firstLocal"})
    first = [i for i in find_ifs(f2) if mentions(if_cond(i), "front")]
    if len(first) != 1:
        raise ExtractError("findLocalTime(local): the test against transitions.front() was not found")
    out.append(prop_def("localUseFirst", [("n", N), ("localtime", I), ("firstLocal", I)], unparen(t.expr(if_cond(first[0]))),
                        "`findLocalTime(local, post)`: before the first transition, use `localtimes.front()`"))
    ends = [i for i in find_ifs(f2) if mentions(if_cond(i), "transI") and mentions(if_cond(i), "end")]
    if len(ends) != 1:
        raise ExtractError("findLocalTime(local): the comparison of transI with end() was not found")
    t = ZTr({"transI": "i", "transitions.end()": "n"})
    out.append(prop_def("localAtEnd", [("i", N), ("n", N)], unparen(t.expr(if_cond(ends[0]))),
                        "`findLocalTime(local, post)`: the upper bound is `end()` (returns the last transition's record at once)"))
    begins = [i for i in find_ifs(f2) if mentions(if_cond(i), "transI") and mentions(if_cond(i), "begin")]
    if len(begins) != 1:
        raise ExtractError("findLocalTime(local): the comparison of transI with begin() was not found")
    t = ZTr({"transI": "j", "transitions.begin()": "0"})
    out.append(prop_def("hasPrior", [("j", N)], unparen(t.expr(if_cond(begins[0]))),
                        "`findLocalTime(local, post)`: after `--transI`, there is a transition before it"))
    sym = {"transI.utctime": "transUtc", "localtimes[prior_trans.localtimeIdx].utcOffset": "priorOffset"}
    v = locate_var(f2, "prior_second")
    t = ZTr(dict(sym))
    out.append(int_def("priorSecond", [("transUtc", I), ("priorOffset", I)], unparen(t.expr(kids(v)[-1])),
                       "`findLocalTime(local, post)`: last local second before the transition `transI` (initialiser of `prior_second`)"))
    assigns = [n for n in walk(body_of(f2)) if n.get("kind") == "BinaryOperator" and n.get("opcode") == "="
               and strip(kids(n)[0]).get("kind") == "DeclRefExpr"
               and strip(kids(n)[0])["referencedDecl"]["name"] == "prior_second"]
    if len(assigns) != 1:
        raise ExtractError("findLocalTime(local): expected exactly one re-assignment of prior_second")
    t = ZTr(dict(sym))
    out.append(int_def("priorSecond2", [("transUtc", I), ("priorOffset", I)], unparen(t.expr(kids(assigns[0])[1])),
                       "the same, re-computed after `--transI` (assignment to `prior_second`)"))
    skip = [i for i in find_ifs(f2) if strip(if_cond(i)).get("kind") == "BinaryOperator"
            and strip(if_cond(i)).get("opcode") in ("<", ">", "<=", ">=")
            and mentions(if_cond(i), "prior_second") and mentions(if_cond(i), "localtime")]
    if len(skip) != 2:
        raise ExtractError("findLocalTime(local): expected the skip test and the repeat test, found %d" % len(skip))
    t = ZTr({"prior_second": "priorSecond", "localtime": "localtime"})
    out.append(prop_def("isSkip", [("priorSecond", I), ("localtime", I)], unparen(t.expr(if_cond(skip[0]))),
                        "`findLocalTime(local, post)`: the local time falls into the gap before `transI` (first test)"))
    t = ZTr({"prior_second": "priorSecond", "localtime": "localtime"})
    out.append(prop_def("isRepeat", [("localtime", I), ("priorSecond", I)], unparen(t.expr(if_cond(skip[1]))),
                        "`findLocalTime(local, post)`: the local time also existed before the transition (second test)"))

    # toLocalTime / fromLocalTime
    tz = ast_dump("muduo/base/TimeZone.cc", "muduo::TimeZone::toLocalTime") + ast_dump("muduo/base/TimeZone.cc", "muduo::TimeZone::fromLocalTime")
    fn = the_function(tz, "toLocalTime")
    calls = [n for n in walk(body_of(fn)) if n.get("kind") == "CallExpr"
             and strip(kids(n)[0]).get("referencedDecl", {}).get("name") == "BreakTime"]
    if len(calls) != 1:
        raise ExtractError("toLocalTime: the call of BreakTime was not found")
    t = ZTr({"seconds": "seconds", "local.utcOffset": "utcOffset"})
    out.append(int_def("toLocalShift", [("seconds", I), ("utcOffset", I)], unparen(t.expr(kids(calls[0])[1])),
                       "`TimeZone::toLocalTime`: the argument of `BreakTime`"))
    fn = the_function(tz, "fromLocalTime")
    rets = [n for n in walk(body_of(fn)) if n.get("kind") == "ReturnStmt" and mentions(n, "utcOffset")]
    if len(rets) != 1:
        raise ExtractError("fromLocalTime: the return that uses utcOffset was not found")
    t = ZTr({"localSeconds": "localSeconds", "local.utcOffset": "utcOffset"})
    out.append(int_def("fromLocalShift", [("localSeconds", I), ("utcOffset", I)], unparen(t.expr(kids(rets[0])[0])),
                       "`TimeZone::fromLocalTime`: the value returned when a record was found"))
    out.append("end MuduoVerif.Gen.Zone\n")
    return "\n".join(out)
