"""T1 for muduo::net::EventLoopThreadPool (the "pool algebra" of C05): the guards, the subscript
expressions and the cursor update of getNextLoop / getLoopForHash / getAllLoops.

What is taken from the AST of muduo/net/EventLoopThreadPool.cc:
  * constructor: the initial value of `next_`                                  -> initialNext
  * getNextLoop: guard of the outer `if`                                       -> nextGuard size
                 index used to subscript `loops_`                              -> nextIndex next size
                 the statements that change `next_`, one `let` per statement   -> nextCursor next size
  * getLoopForHash: guard of the `if`, subscript expression                    -> hashGuard size, hashIndex hashCode size
  * getAllLoops: guard, the size of the vector returned when it holds          -> allEmpty size, allBaseCount
The surrounding shape (`loop = baseLoop_; if (g) { loop = loops_[i]; ... } return loop;`) is checked and
anything else raises ExtractError: the hand-written model relies on exactly that shape.
"""
from ..extract import HEADER, ExtractError, Tr, ast_dump, body_of, kids, mentions, prop_def, strip, the_function, unparen, walk

NAME = "Pool"

SYM_SIZE = {"loops_.empty()": "(size = 0)", "loops_.size()": "size"}


# ----------------------------------------------------------------------------- shape helpers

def _is_noise(st):
    """statements without an effect on the result: `baseLoop_->assertInLoopThread()`, `assert(..)`, `;`"""
    k = st.get("kind")
    if k == "NullStmt":
        return True
    if k == "CXXMemberCallExpr":
        callee = strip(kids(st)[0])
        return callee.get("kind") == "MemberExpr" and callee.get("name") == "assertInLoopThread"
    if k in ("ParenExpr", "CStyleCastExpr", "CXXFunctionalCastExpr", "ConditionalOperator"):
        # glibc's assert(): `((e) ? (void)0 : __assert_fail(..))`, or `((void)0)` under NDEBUG
        names = set()
        for x in walk(st):
            rd = x.get("referencedDecl")
            if x.get("kind") == "DeclRefExpr" and rd and rd.get("kind") == "FunctionDecl":
                names.add(rd.get("name"))
        if names - {"__assert_fail"}:
            return False
        for x in walk(st):
            if x.get("kind") in ("BinaryOperator", "CompoundAssignOperator") and x.get("opcode", "").endswith("=") \
                    and x.get("opcode") not in ("==", "!=", "<=", ">="):
                return False
            if x.get("kind") == "UnaryOperator" and x.get("opcode") in ("++", "--"):
                return False
            if x.get("kind") in ("CXXMemberCallExpr", "CXXOperatorCallExpr"):
                return False
        return True
    return False


def _stmts(compound_or_stmt):
    """the effective statements of a block (or of a single unbraced statement)"""
    if compound_or_stmt.get("kind") == "CompoundStmt":
        sts = kids(compound_or_stmt)
    else:
        sts = [compound_or_stmt]
    return [s for s in sts if not _is_noise(s)]


def _is_member(n, name):
    n = strip(n)
    if n.get("kind") != "MemberExpr" or n.get("name") != name:
        return False
    ks = kids(n)
    return not ks or strip(ks[0]).get("kind") == "CXXThisExpr"


def _subscript_of(n, member):
    """`member[idx]` -> idx node, else None"""
    n = strip(n)
    if n.get("kind") != "CXXOperatorCallExpr":
        return None
    ks = kids(n)
    if len(ks) != 3:
        return None
    callee = strip(ks[0])
    if callee.get("kind") != "DeclRefExpr" or callee.get("referencedDecl", {}).get("name") != "operator[]":
        return None
    if not _is_member(ks[1], member):
        return None
    return ks[2]


def _all_subscripts(fn, member):
    res = []
    for x in walk(body_of(fn)):
        if x.get("kind") == "CXXOperatorCallExpr":
            ks = kids(x)
            callee = strip(ks[0]) if ks else {}
            if callee.get("kind") == "DeclRefExpr" and callee.get("referencedDecl", {}).get("name") == "operator[]" \
                    and len(ks) >= 2 and mentions(ks[1], member):
                res.append(x)
    return res


def _if_parts(ifs):
    ks = kids(ifs)
    if ifs.get("hasInit") or ifs.get("hasVar"):
        raise ExtractError("`if` with an init statement / condition variable is not supported")
    if len(ks) == 2:
        return ks[0], ks[1], None
    if len(ks) == 3:
        return ks[0], ks[1], ks[2]
    raise ExtractError("`if` with %d children" % len(ks))


def _result_skeleton(fn, what):
    """check `EventLoop* loop = baseLoop_; if (g) {...} return loop;` and return (var name, the if)"""
    sts = _stmts(body_of(fn))
    if len(sts) != 3:
        raise ExtractError("%s: expected `loop = baseLoop_; if (..) {..} return loop;`, found %d effective statements"
                           % (what, len(sts)))
    decl, ifs, ret = sts
    if decl.get("kind") != "DeclStmt" or len(kids(decl)) != 1 or kids(decl)[0].get("kind") != "VarDecl":
        raise ExtractError("%s: the first statement is not the declaration of the result" % what)
    var = kids(decl)[0]
    if not kids(var) or not _is_member(kids(var)[-1], "baseLoop_"):
        raise ExtractError("%s: the result is not initialised with baseLoop_" % what)
    if ifs.get("kind") != "IfStmt":
        raise ExtractError("%s: the second statement is not an `if`" % what)
    if ret.get("kind") != "ReturnStmt" or not kids(ret):
        raise ExtractError("%s: the last statement is not a `return`" % what)
    r = strip(kids(ret)[0])
    if r.get("kind") != "DeclRefExpr" or r["referencedDecl"].get("id") != var.get("id"):
        raise ExtractError("%s: does not return the variable initialised with baseLoop_" % what)
    return var, ifs


def _assigned_subscript(st, var, member):
    """`var = member[idx]` -> idx node, else None"""
    st = strip(st)
    if st.get("kind") != "BinaryOperator" or st.get("opcode") != "=":
        return None
    l, r = kids(st)
    l = strip(l)
    if l.get("kind") != "DeclRefExpr" or l["referencedDecl"].get("id") != var.get("id"):
        return None
    return _subscript_of(r, member)


# ----------------------------------------------------------------------------- cursor statements

class _Cursor:
    """translates statements whose only effect is on the member `next_` into Lean `let next := ..` steps"""

    def __init__(self):
        self.tr = Tr({"next_": "next", "loops_.size()": "size", "loops_.empty()": "(size = 0)"})

    def _pure(self, n, what):
        """the Nat translation is only faithful for non-negative arithmetic without side effects"""
        for x in walk(n):
            k = x.get("kind")
            if k == "UnaryOperator" and x.get("opcode") in ("++", "--", "-", "~"):
                raise ExtractError("%s: operator %s inside an expression over next_ is not modelled" % (what, x.get("opcode")))
            if k == "BinaryOperator" and x.get("opcode") in ("-", "=", ",", "<<", ">>", "^"):
                raise ExtractError("%s: operator %s inside an expression over next_ is not modelled" % (what, x.get("opcode")))
            if k == "CompoundAssignOperator":
                raise ExtractError("%s: compound assignment inside an expression is not modelled" % what)
        return n

    def expr(self, n, what):
        return self.tr.expr(self._pure(n, what))

    def step(self, st):
        """Lean term for the value of `next` after the statement (in terms of `next`, `size`)"""
        st = strip(st)
        k = st.get("kind")
        if k == "UnaryOperator" and st.get("opcode") == "++" and _is_member(kids(st)[0], "next_"):
            return "next + 1"
        if k == "CompoundAssignOperator" and st.get("opcode") in ("+=", "%=") and _is_member(kids(st)[0], "next_"):
            rhs = self.expr(kids(st)[1], "cursor update")
            return "next %s %s" % ("+" if st["opcode"] == "+=" else "%", rhs)
        if k == "BinaryOperator" and st.get("opcode") == "=" and _is_member(kids(st)[0], "next_"):
            return unparen(self.expr(kids(st)[1], "cursor assignment"))
        if k == "IfStmt":
            cond, then, els = _if_parts(st)
            c = unparen(self.expr(cond, "cursor condition"))
            a = self.block(_stmts(then))
            b = self.block(_stmts(els)) if els is not None else "next"
            return "if %s then %s else %s" % (c, a, b)
        raise ExtractError("getNextLoop: statement %s%s is not an update of next_ that can be translated"
                           % (k, (" " + st.get("opcode")) if st.get("opcode") else ""))

    def block(self, sts):
        """a sequence of statements as one Lean term"""
        if not sts:
            return "next"
        if len(sts) == 1:
            s = self.step(sts[0])
            return s if s.replace("_", "").isalnum() else "(%s)" % s
        return "(" + "; ".join("let next := %s" % self.step(s) for s in sts) + "; next)"

    def lets(self, sts):
        return ["  let next := %s" % self.step(s) for s in sts]


# ----------------------------------------------------------------------------- the engine

def _initial_next(docs):
    found = []
    for d in docs:
        for n in walk(d):
            if n.get("kind") == "CXXConstructorDecl" and body_of(n) is not None:
                for c in n.get("inner", []) or []:
                    if isinstance(c, dict) and c.get("kind") == "CXXCtorInitializer" \
                            and c.get("anyInit", {}).get("name") == "next_":
                        found.append((n.get("id"), c))
    ids = {i for i, _ in found}
    if len(ids) != 1:
        raise ExtractError("expected one constructor initialising next_, found %d" % len(ids))
    v = strip(kids(found[0][1])[0])
    if v.get("kind") != "IntegerLiteral":
        raise ExtractError("next_ is not initialised with an integer literal")
    return int(v["value"])


def _next_loop(docs, out):
    fn = the_function(docs, "getNextLoop", nparams=0)
    var, ifs = _result_skeleton(fn, "getNextLoop")
    cond, then, els = _if_parts(ifs)
    if els is not None:
        raise ExtractError("getNextLoop: the `if` has an `else` branch")
    subs = _all_subscripts(fn, "loops_")
    if len(subs) != 1:
        raise ExtractError("getNextLoop: expected exactly one subscript of loops_, found %d" % len(subs))
    if mentions(cond, "next_"):
        raise ExtractError("getNextLoop: the outer guard depends on next_")
    out.append(prop_def("nextGuard", [("size", "Nat")], unparen(Tr(SYM_SIZE).expr(cond)),
                        "`EventLoopThreadPool::getNextLoop`: the `if` that takes a loop of the pool instead of the base loop"))
    sts = _stmts(then)
    at = [i for i, s in enumerate(sts) if _assigned_subscript(s, var, "loops_") is not None]
    if len(at) != 1:
        raise ExtractError("getNextLoop: no statement `loop = loops_[..]` directly inside the `if`")
    at = at[0]
    idx = _assigned_subscript(sts[at], var, "loops_")
    cur = _Cursor()
    pre = cur.lets(sts[:at])
    post = cur.lets(sts[at + 1:])
    idx_term = unparen(cur.expr(idx, "subscript of loops_"))
    out.append("/-- `getNextLoop`: the subscript of `loops_` (evaluated after the %d cursor statement(s) that precede it) -/"
               % len(pre))
    out.append("def nextIndex (next size : Nat) : Nat :=%s\n"
               % ((" " + idx_term) if not pre else ("\n" + "\n".join(pre) + "\n  " + idx_term)))
    out.append("/-- `getNextLoop`: the value of `next_` after the call (one `let` per source statement) -/")
    body = pre + post
    out.append("def nextCursor (next size : Nat) : Nat :=%s\n"
               % (" next" if not body else ("\n" + "\n".join(body) + "\n  next")))


def _loop_for_hash(docs, out):
    fn = the_function(docs, "getLoopForHash", nparams=1)
    var, ifs = _result_skeleton(fn, "getLoopForHash")
    cond, then, els = _if_parts(ifs)
    if els is not None:
        raise ExtractError("getLoopForHash: the `if` has an `else` branch")
    if mentions(cond, "hashCode") or mentions(cond, "next_"):
        raise ExtractError("getLoopForHash: the guard depends on more than loops_")
    out.append(prop_def("hashGuard", [("size", "Nat")], unparen(Tr(SYM_SIZE).expr(cond)),
                        "`EventLoopThreadPool::getLoopForHash`: the `if` that takes a loop of the pool"))
    sts = _stmts(then)
    if len(sts) != 1 or _assigned_subscript(sts[0], var, "loops_") is None:
        raise ExtractError("getLoopForHash: the `if` body is not the single statement `loop = loops_[..]`")
    if len(_all_subscripts(fn, "loops_")) != 1:
        raise ExtractError("getLoopForHash: more than one subscript of loops_")
    idx = _assigned_subscript(sts[0], var, "loops_")
    cur = _Cursor()
    cur.tr = Tr({"hashCode": "hashCode", "loops_.size()": "size"})
    out.append("/-- `getLoopForHash`: the subscript of `loops_` -/")
    out.append("def hashIndex (hashCode size : Nat) : Nat := %s\n" % unparen(cur.expr(idx, "subscript of loops_")))


def _all_loops(docs, out):
    fn = the_function(docs, "getAllLoops", nparams=0)
    sts = _stmts(body_of(fn))
    if len(sts) != 1 or sts[0].get("kind") != "IfStmt":
        raise ExtractError("getAllLoops: expected a single `if (..) return ..; else return ..;`")
    cond, then, els = _if_parts(sts[0])
    if els is None:
        raise ExtractError("getAllLoops: no `else` branch")
    out.append(prop_def("allEmpty", [("size", "Nat")], unparen(Tr(SYM_SIZE).expr(cond)),
                        "`EventLoopThreadPool::getAllLoops`: the `if` that answers with the base loop alone"))
    a, b = _stmts(then), _stmts(els)
    if len(a) != 1 or len(b) != 1 or a[0].get("kind") != "ReturnStmt" or b[0].get("kind") != "ReturnStmt":
        raise ExtractError("getAllLoops: a branch is not a single `return`")
    # then: std::vector<EventLoop*>(count, baseLoop_)
    tmp = [x for x in walk(a[0]) if x.get("kind") == "CXXTemporaryObjectExpr"]
    if len(tmp) != 1 or mentions(a[0], "loops_"):
        raise ExtractError("getAllLoops: the first branch does not build a fresh vector")
    args = [x for x in kids(tmp[0]) if x.get("kind") != "CXXDefaultArgExpr"]
    if len(args) != 2 or strip(args[0]).get("kind") != "IntegerLiteral" or not _is_member(args[1], "baseLoop_"):
        raise ExtractError("getAllLoops: the first branch is not `std::vector<EventLoop*>(<literal>, baseLoop_)`")
    out.append("/-- `getAllLoops`: how many copies of the base loop are returned for an empty pool -/")
    out.append("def allBaseCount : Nat := %d\n" % int(strip(args[0])["value"]))
    # else: a copy of loops_
    r = strip(kids(b[0])[0])
    while r.get("kind") == "CXXConstructExpr" and len(kids(r)) == 1:
        r = strip(kids(r)[0])
    if not _is_member(r, "loops_"):
        raise ExtractError("getAllLoops: the second branch does not return loops_")


def generate():
    docs = ast_dump("muduo/net/EventLoopThreadPool.cc", "muduo::net::EventLoopThreadPool")
    out = [HEADER % "muduo/net/EventLoopThreadPool.cc", "set_option linter.unusedVariables false\n",
           "namespace MuduoVerif.Gen.Pool\n"]
    out.append("/-- constructor: the initial value of `next_` -/")
    out.append("def initialNext : Nat := %d\n" % _initial_next(docs))
    _next_loop(docs, out)
    _loop_for_hash(docs, out)
    _all_loops(docs, out)
    out.append("end MuduoVerif.Gen.Pool\n")
    return "\n".join(out)
