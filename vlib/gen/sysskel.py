"""T1 for the SYSTEM-CALL LAYER that the connection, acceptor, client, poller, loop, timer and address engines treat as
primitives - STATEMENT SKELETONS of every function of muduo/net/SocketsOps.cc, Socket.cc (+ the inline functions of
Socket.h), InetAddress.cc (+ the inline functions of InetAddress.h), Endian.h, poller/DefaultPoller.cc, Poller.cc, the
constructors / destructors and `operationToString` of EPollPoller.cc / PollPoller.cc, `Channel::tie`, `createEventfd`
(EventLoop.cc) and `detail::createTimerfd` (TimerQueue.cc), from clang's AST of /repo's current sources.

The models (Model/Conn.lean, Acceptor.lean, Client.lean, Poller.lean, Timer.lean, Loop.lean, Inet.lean) take
`sockets::write/read/readv/accept/connect/close/shutdownWrite/getSocketError/...`, `Socket::*`, `createEventfd`,
`createTimerfd`, `Poller::newDefaultPoller` and the text conversions of `InetAddress` as PRIMITIVES: "one system call with
the arguments passed through, the result returned unchanged, an error only logged".  This module extracts what each of
these functions really does, as a tree

    Skel ::= act Act | ite <condition> <then> <else> | loop <whileDo | doWhile | forDo> <condition> <body>
           | switch <scrutinee> <body>            (body: `label` actions mark `case v:` / `default:`, fall-through as in C)

(vocabulary: lean/MuduoVerif/Model/SysSkelDecl.lean; walker: vlib/logskel_common.py, extended here).  Actions:
`sys f args` - a libc / system call (NOT a function of muduo::net: decided by the DECLARATION the call refers to, so
`::close` and `sockets::close` are told apart even where the source drops the qualifier); `call f args` - a function of
muduo (printed with its qualifier relative to `muduo::net`: `sockets::close`, `sockets::toIp`, `Poller::Poller` for a
base-class initialiser, `peeraddr.setSockAddrInet6`, `memZero`); `store` (members, through pointers, `errno`), `assign`
(locals), `log <error | syserr | fatal | sysfatal>` (`LOG_ERROR` / `LOG_SYSERR` continue, `LOG_FATAL` / `LOG_SYSFATAL`
end the process), `assertion`, `label`, `brk`, `ret <value>`.  Expressions are printed canonically (casts of every kind,
`sockets::sockaddr_cast`-free only where the source has none: the cast FUNCTIONS are value calls and are printed; C
casts, `static_cast`, `implicit_cast`, temporaries are dropped; minimal parentheses; integer macros are printed by value,
enumerators by name).

Where the value of an action call is used: when the call is the only action of the expression and is evaluated
unconditionally, the action comes first and `<result>` stands for its value in the expression that follows
(`return ::write(..)` is `[sys write "..", ret "<result>"]`, `if (::close(fd) < 0)` is `[sys close "fd", ite "<result> <
0" ..]`).  Inside a LOOP condition, or when the call is evaluated conditionally (right of `&&` / `||`, inside `?:`) or
is one of several, it is printed inline as `{sys f(args)}` in the condition text (only conditions may do this; anywhere
else it is an ExtractError).

Never guesses: every call must be classified (value / call / sys) by the declaration it refers to or by the type of the
object it is made on; an unknown call, a `goto`, `try`, lambda, range-`for`, a local of an unknown record type ->
ExtractError.

IGNORED (the models abstract from exactly these; listed again in the header of the generated file):
  I1  log statements below ERROR (`LOG_TRACE/DEBUG/INFO/WARN`, with or without the `if (logLevel() <= L)` gate) and the
      TEXT of every log statement; only value getters may be called inside one (anything else stops the extraction)
  I2  declarations of locals without an initialiser or default-constructed records (`int optval`, `struct sockaddr_in6
      addr`, `struct tcp_info tcpi`, `struct hostent hent`): storage only
  I3  casts of every kind (C-style, `static_cast`, `reinterpret_cast`, `implicit_cast`, implicit conversions,
      temporaries), `(void)x`
  I4  base-class initialisers without arguments (`noncopyable`, `copyable`) and default-constructed members
  I5  `static_assert`, `MUDUO_VERIF_POINT` (an empty `do { } while (0)`), empty statements
  I6  functions without a body (`Poller::~Poller() = default`, `PollPoller::~PollPoller() = default`): nothing to extract;
      code excluded by the preprocessor in the build the checks use (`#if VALGRIND || defined (NO_ACCEPT4)`:
      `setNonBlockAndCloseOnExec`, the `::accept` branch; `#ifndef SO_REUSEPORT`)
"""
from ..extract import HEADER, ExtractError, ast_dump, body_of, ctype, kids, walk
from ..logskel_common import (CALL_KINDS, CTOR_KINDS, FN_KINDS, P_ATOM, P_UNARY, PREC, Engine, Walker, callee_name, is_void_cast,
                              lean_str, param_types, peel, peel_plain, type_class, type_name)

NAME = "SysSkel"

NS_FILTER = "muduo::net::"          # one clang run per translation unit: every declaration of muduo::net it can see
P_ASSIGN = 1


class SysEngine(Engine):
    # methods by the class of the object they are called on
    methods = {
        "Socket": {"value": ("fd",)},
        "InetAddress": {"value": ("family", "getSockAddr", "portNetEndian", "ipv4NetEndian", "port", "toIp", "toIpPort"),
                        "call": ("setSockAddrInet6", "setScopeId")},
        "StringArg": {"value": ("c_str",)},
        "string": {"value": ("c_str", "size", "data", "empty")},
        "Channel": {"value": ("fd", "events", "index", "isNoneEvent", "ownerLoop")},
        "Poller": {"value": ()},
        "EPollPoller": {"value": ()},
        "PollPoller": {"value": ()},
        "ChannelMap": {"value": ("find", "end", "begin", "size", "empty")},
    }
    # functions of muduo::net (named relative to it), by the declaration the call refers to
    free_value = ("sockets::sockaddr_cast", "sockets::sockaddr_in_cast", "sockets::sockaddr_in6_cast",
                  "sockets::hostToNetwork16", "sockets::hostToNetwork32", "sockets::hostToNetwork64",
                  "sockets::networkToHost16", "sockets::networkToHost32", "sockets::networkToHost64")
    free_call = ("sockets::createNonblockingOrDie", "sockets::bindOrDie", "sockets::listenOrDie", "sockets::accept",
                 "sockets::connect", "sockets::read", "sockets::readv", "sockets::write", "sockets::close",
                 "sockets::shutdownWrite", "sockets::toIpPort", "sockets::toIp", "sockets::fromIpPort",
                 "sockets::getSocketError", "sockets::getLocalAddr", "sockets::getPeerAddr", "sockets::isSelfConnect",
                 "detail::createTimerfd", "Poller::newDefaultPoller")
    # everything else (NOT declared in muduo::net): by plain name
    ext_value = ("strlen", "strchr", "memcmp", "__bswap_16", "__bswap_32", "__bswap_64", "__uint16_identity",
                 "__uint32_identity", "__uint64_identity", "strerror_tl")
    ext_call = ("memZero",)                                              # muduo::memZero = memset(p, 0, n)
    ext_sys = ("socket", "bind", "listen", "accept", "accept4", "connect", "read", "readv", "write", "close", "shutdown",
               "getsockopt", "setsockopt", "getsockname", "getpeername", "inet_ntop", "inet_pton", "snprintf", "fcntl",
               "gethostbyname_r", "getenv", "epoll_create1", "epoll_create", "eventfd", "timerfd_create", "abort", "dup",
               "recv", "send", "writev", "usleep", "poll")
    storage_types = ("sockaddr_in6", "sockaddr_in", "sockaddr", "tcp_info", "hostent", "in6_addr", "in_addr", "epoll_event", "pollfd")
    object_types = ("PollPoller", "EPollPoller")                         # `new PollPoller(loop)` prints as a value
    log_pure = ("operator<<", "stream", "logLevel", "__errno_location", "strerror_tl", "c_str", "fd")


PURE_OPS = {"operator==": "==", "operator!=": "!=", "operator<": "<", "operator<=": "<=", "operator>": ">", "operator>=": ">="}
LOG_LEVELS = {"TRACE": None, "DEBUG": None, "INFO": None, "WARN": None, "ERROR": "error", "FATAL": "fatal"}


# ----------------------------------------------------------------------------- declarations of one translation unit

def qualify(docs):
    """({clang id of a function / method declaration -> its name relative to muduo::net}, [(qualified name, definition)])
    of one dump made with NS_FILTER (top-level documents are the members of muduo::net)"""
    ctx, names, defs, seen = {}, {}, [], set()

    def rec(n, prefix):
        k = n.get("kind")
        if k == "NamespaceDecl" or k in ("CXXRecordDecl", "ClassTemplateSpecializationDecl"):
            nm = n.get("name")
            if nm is None:
                return                                                  # anonymous record / namespace: not ours
            q = prefix + nm
            if n.get("id") is not None:
                ctx.setdefault(n["id"], q)
            for c in kids(n):
                rec(c, q + "::")
            return
        if k in FN_KINDS:
            pre = prefix
            if n.get("parentDeclContextId") in ctx:                     # an out-of-line definition
                pre = ctx[n["parentDeclContextId"]] + "::"
            elif n.get("previousDecl") in names:
                names[n["id"]] = names[n["previousDecl"]]
                pre = None
            if pre is not None:
                names[n["id"]] = pre + n.get("name", "?")
            if body_of(n) is not None and not n.get("isImplicit") and n["id"] not in seen:
                seen.add(n["id"])
                defs.append((names[n["id"]], n))
    # two passes: a context may be dumped after the definition that names it
    for d in docs:
        if d.get("kind") in ("NamespaceDecl", "CXXRecordDecl", "ClassTemplateSpecializationDecl"):
            rec(d, "")
    for d in docs:
        if d.get("kind") in FN_KINDS:
            rec(d, "")
    return names, defs


# ----------------------------------------------------------------------------- log statements

def is_log_expr(n):
    """`Logger(..).stream() << ..`"""
    n = peel_plain(n)
    if n.get("kind") != "CXXOperatorCallExpr" or callee_name(n) != "operator<<":
        return False
    return any(x.get("kind") in CTOR_KINDS and ctype(x).replace("muduo::", "") == "Logger" for x in walk(n))


def is_loglevel_if(n):
    """`if (Logger::logLevel() <= L) Logger(..).stream() << ..` (LOG_TRACE / LOG_DEBUG / LOG_INFO)"""
    if n.get("kind") != "IfStmt" or len(kids(n)) != 2:
        return False
    return any(x.get("kind") == "DeclRefExpr" and x.get("referencedDecl", {}).get("name") == "logLevel" for x in walk(kids(n)[0])) \
        and is_log_expr(kids(n)[1])


def log_level(n):
    """None = below ERROR (I1), else the LogLevel constructor"""
    ctors = [x for x in walk(n) if x.get("kind") in CTOR_KINDS and ctype(x).replace("muduo::", "") == "Logger"]
    if len(ctors) != 1:
        raise ExtractError("log statement with %d Logger constructions" % len(ctors))
    args = kids(ctors[0])
    if len(args) == 2:
        return None                                                     # Logger(file, line): INFO
    a = peel_plain(args[2])
    if a.get("kind") == "CXXBoolLiteralExpr":
        return "sysfatal" if a.get("value") else "syserr"
    if a.get("kind") == "DeclRefExpr" and a.get("referencedDecl", {}).get("name") in LOG_LEVELS:
        return LOG_LEVELS[a["referencedDecl"]["name"]]
    raise ExtractError("log statement whose level I cannot read")


# ----------------------------------------------------------------------------- the walker

class SysWalker(Walker):
    qual = {}                   # clang id -> name relative to muduo::net, of the translation unit being walked
    hoisted = None              # id of the action call whose value is `<result>` in the expression being printed
    inline = 0                  # > 0: inside a condition that may print action calls inline

    # -------------------------------------------------------------- calls
    def qname(self, n):
        c = peel_plain(kids(n)[0]) if kids(n) else {}
        if c.get("kind") != "DeclRefExpr":
            return None, False
        rd = c.get("referencedDecl", {})
        if rd.get("id") in self.qual:
            return self.qual[rd["id"]], True
        return rd.get("name"), False

    def classify(self, n):
        k = n.get("kind")
        if k == "CallExpr":
            nm, ours = self.qname(n)
            if nm is None:
                self.err("indirect call that cannot be named")
            if not ours and nm in ("implicit_cast", "down_cast") and len(kids(n)) == 2:
                return "cast", None
            if ours:
                if nm in self.e.free_value:
                    return "value", nm
                if nm in self.e.free_call:
                    return "call", nm
                if nm.split("::")[0] == self.owner and nm.count("::") == 1:
                    return "call", nm.split("::")[1]                    # a static member of the same class
                self.err("call of `%s` (a function of muduo::net) is not in the vocabulary" % nm)
            if nm in self.e.ext_value:
                return "value", nm
            if nm in self.e.ext_call:
                return "call", nm
            if nm in self.e.ext_sys:
                return "sys", nm
            self.err("call of `%s` (not a function of muduo::net) is not in the vocabulary" % nm)
        if k == "CXXOperatorCallExpr":
            nm = callee_name(n)
            if nm in PURE_OPS and len(kids(n)) == 3:
                return "value", nm
            return Walker.classify(self, n)
        return Walker.classify(self, n)

    # -------------------------------------------------------------- printing
    def is_errno(self, n):
        n = peel(n)
        if n.get("kind") == "UnaryOperator" and n.get("opcode") == "*":
            a = peel(kids(n)[0])
            return a.get("kind") == "CallExpr" and callee_name(a) == "__errno_location"
        return False

    def pp_(self, n):
        n = peel(n)
        k = n.get("kind")
        if self.hoisted is not None and n.get("id") == self.hoisted:
            return "<result>", P_ATOM
        if self.is_errno(n):
            return "errno", P_ATOM
        if k == "MemberExpr" and kids(n):
            b = peel_plain(kids(n)[0])
            if b.get("kind") == "MemberExpr" and not b.get("name"):    # a member of the anonymous union of InetAddress
                bb = peel_plain(kids(b)[0]) if kids(b) else {"kind": "CXXThisExpr"}
                if bb.get("kind") == "CXXThisExpr":
                    return n["name"], P_ATOM
                obj, _ = self.deref(kids(b)[0])
                return self.pp(obj, P_ATOM) + "." + n["name"], P_ATOM
        if k in ("CallExpr", "CXXMemberCallExpr"):
            kind, name = self.classify(n)
            if kind in ("call", "sys"):
                if self.inline > 0:
                    return "{%s %s(%s)}" % (kind, name, self.args(kids(n)[1:])), P_ATOM
                self.err("the call of `%s` (an action) is nested inside another expression" % name)
            if k == "CallExpr" and kind == "value":
                return "%s(%s)" % (name, self.args(kids(n)[1:])), P_ATOM
        if k == "CXXOperatorCallExpr" and callee_name(n) in PURE_OPS and len(kids(n)) == 3:
            op = PURE_OPS[callee_name(n)]
            p = PREC[op]
            return "%s %s %s" % (self.pp(kids(n)[1], p), op, self.pp(kids(n)[2], p + 1)), p
        if k == "BinaryOperator" and n.get("opcode") == "=":
            l, r = kids(n)
            return "%s = %s" % (self.pp(l, P_UNARY), self.pp(r, P_ASSIGN)), P_ASSIGN
        if k == "CompoundAssignOperator":
            l, r = kids(n)
            return "%s %s %s" % (self.pp(l, P_UNARY), n.get("opcode"), self.pp(r, P_ASSIGN)), P_ASSIGN
        if k == "CXXNewExpr":
            ks = kids(n)
            c = peel_plain(ks[0]) if len(ks) == 1 else {}
            if c.get("kind") not in CTOR_KINDS:
                self.err("`new` of something that is not a single constructed object")
            return "new %s(%s)" % (type_class(ctype(c)), self.args(kids(c))), P_UNARY
        return Walker.pp_(self, n)

    # -------------------------------------------------------------- action calls inside expressions
    def find_actions(self, n, cond, acc):
        n = peel(n)
        k = n.get("kind")
        if is_void_cast(n):
            self.find_actions(kids(n)[0], cond, acc)
            return
        if k in ("LambdaExpr", "StmtExpr"):
            self.err("%s is not in the vocabulary" % k)
        if self.is_errno(n):
            return
        if k in CALL_KINDS:
            kind, _ = self.classify(n)
            if kind in ("call", "sys"):
                acc.append((n, cond))
                return                                                  # its arguments are printed with the action
        if k == "BinaryOperator" and n.get("opcode") in ("&&", "||"):
            l, r = kids(n)
            self.find_actions(l, cond, acc)
            self.find_actions(r, True, acc)
            return
        if k == "ConditionalOperator":
            c, a, b = kids(n)
            self.find_actions(c, cond, acc)
            self.find_actions(a, True, acc)
            self.find_actions(b, True, acc)
            return
        for c in kids(n):
            self.find_actions(c, cond, acc)

    def hoist(self, n, out, in_condition=False):
        """text of value `n`; an action call inside it: see the module comment"""
        acc = []
        self.find_actions(n, False, acc)
        if not acc:
            return self.pp(n)
        if len(acc) == 1 and not acc[0][1]:
            a = acc[0][0]
            kind, name = self.classify(a)
            out.append(("act", ".%s %s %s" % (kind, lean_str(name), lean_str(self.args(kids(a)[1:])))))
            old, self.hoisted = self.hoisted, a.get("id")
            try:
                return self.pp(n)
            finally:
                self.hoisted = old
        if not in_condition:
            self.err("%d action calls inside one expression (`%s` ..), or one that is evaluated conditionally" % (
                len(acc), self.classify(acc[0][0])[1]))
        return self.inline_text(n)

    def inline_text(self, n):
        self.inline += 1
        try:
            return self.pp(n)
        finally:
            self.inline -= 1

    def value_or_action(self, n, out):
        return self.hoist(n, out)

    # -------------------------------------------------------------- statements
    def check_log(self, n):
        for x in walk(n):
            if x.get("kind") in CALL_KINDS and callee_name(x) not in self.e.log_pure:
                self.err("call of `%s` inside a log statement" % callee_name(x))
            if x.get("kind") in ("LambdaExpr", "CXXNewExpr", "CXXDeleteExpr", "CompoundAssignOperator") or (
                    x.get("kind") == "BinaryOperator" and x.get("opcode") == "=") or (
                    x.get("kind") == "UnaryOperator" and x.get("opcode") in ("++", "--")):
                self.err("side effect inside a log statement")

    def log_stmt(self, s, out):
        n = peel_plain(s)
        if is_log_expr(n):
            self.check_log(n)
            lvl = log_level(n)
            if lvl is not None:
                out.append(("act", ".log .%s" % lvl))
            return True
        if is_loglevel_if(n):
            self.check_log(n)
            if log_level(kids(n)[1]) is not None:
                self.err("a log statement of level ERROR or above behind the log-level gate")
            return True
        return False

    def for_text(self, s):
        inner = s.get("inner") or []
        if len(inner) != 5 or (isinstance(inner[1], dict) and inner[1].get("kind")):
            self.err("`for` of an unexpected shape")
        init, _, cnd, inc, body = inner
        parts = []
        if isinstance(init, dict) and init.get("kind") == "DeclStmt":
            vs = []
            for v in kids(init):
                if v.get("kind") != "VarDecl":
                    self.err("`for` declaring a %s" % v.get("kind"))
                vs.append("%s = %s" % (v["name"], self.inline_text(kids(v)[0])) if kids(v) else v["name"])
            parts.append(", ".join(vs))
        else:
            parts.append(self.inline_text(init) if isinstance(init, dict) and init.get("kind") else "")
        parts.append(self.inline_text(cnd) if isinstance(cnd, dict) and cnd.get("kind") else "")
        parts.append(self.inline_text(inc) if isinstance(inc, dict) and inc.get("kind") else "")
        return "; ".join(parts), body

    def stmt(self, s, out):
        k = s.get("kind")
        if self.log_stmt(s, out):
            return
        if k == "IfStmt":
            ks = kids(s)
            if s.get("hasInit") or s.get("hasVar") or len(ks) not in (2, 3):
                self.err("`if` with an init statement / condition variable")
            name = self.hoist(ks[0], out, in_condition=True)
            thn, els = [], []
            self.stmt(ks[1], thn)
            if len(ks) == 3:
                self.stmt(ks[2], els)
            out.append(("ite", name, thn, els))
            return
        if k == "WhileStmt":
            ks = kids(s)
            if s.get("hasVar") or len(ks) != 2:
                self.err("`while` with a condition variable")
            body = []
            name = self.inline_text(ks[0])
            self.stmt(ks[1], body)
            out.append(("loop", ".whileDo", name, body))
            return
        if k == "DoStmt":
            b, c = kids(s)[0], kids(s)[1]
            if b.get("kind") == "CompoundStmt" and not kids(b) and peel(c).get("kind") in ("IntegerLiteral", "CXXBoolLiteralExpr"):
                return                                                  # I5
            body = []
            self.stmt(b, body)
            out.append(("loop", ".doWhile", self.inline_text(c), body))
            return
        if k == "ForStmt":
            text, b = self.for_text(s)
            body = []
            self.stmt(b, body)
            out.append(("loop", ".forDo", text, body))
            return
        if k == "SwitchStmt":
            ks = kids(s)
            if s.get("hasInit") or s.get("hasVar") or len(ks) != 2:
                self.err("`switch` with an init statement / condition variable")
            name = self.hoist(ks[0], out, in_condition=True)
            body = []
            self.stmt(ks[1], body)
            out.append(("switch", name, body))
            return
        if k == "CaseStmt":
            ks = kids(s)
            if len(ks) != 2:
                self.err("`case` range")
            out.append(("act", ".label %s" % lean_str(self.pp(ks[0]))))
            self.stmt(ks[1], out)
            return
        if k == "DefaultStmt":
            out.append(("act", ".label \"default\""))
            for c in kids(s):
                self.stmt(c, out)
            return
        if k == "ContinueStmt":
            out.append(("act", ".cont"))
            return
        Walker.stmt(self, s, out)

    def expr_stmt(self, s, out):
        n = peel(s)
        k = n.get("kind")
        if is_void_cast(n):
            self.hoist(kids(n)[0], out)                                 # `(void)x;` / `(void)::read(..);`
            return
        if k == "CXXOperatorCallExpr" and callee_name(n) == "operator=" and len(kids(n)) == 3:
            _, l, r = kids(n)                                           # assignment of a record / smart pointer
            self.store(l, self.hoist(r, out), out)
            return
        if k in ("CXXMemberCallExpr", "CallExpr"):
            kind, name = self.classify(n)
            if kind in ("call", "sys"):
                out.append(("act", ".%s %s %s" % (kind, lean_str(name), lean_str(self.args(kids(n)[1:])))))
                return
            self.hoist(n, out)                                          # a value computed and dropped
            return
        if k == "CXXDeleteExpr":
            out.append(("act", ".call \"delete\" %s" % lean_str(self.pp(kids(n)[0]))))
            return
        Walker.expr_stmt(self, s, out)

    def args(self, args):
        # the arguments of an action are values; an action among them may only be printed inside a condition
        return ", ".join(self.pp(a) for a in args if a.get("kind") != "CXXDefaultArgExpr")

    def local(self, v, out):
        init = kids(v)
        if v.get("storageClass") == "static":
            self.err("a static local")
        if not init:
            return                                                      # I2
        i0 = peel(init[0])
        if i0.get("kind") in CTOR_KINDS:
            args = [a for a in kids(i0) if a.get("kind") != "CXXDefaultArgExpr"]
            cls = type_class(ctype(v))
            if not args:
                if cls in self.e.storage_types or cls == "string":
                    return                                              # I2
                self.err("default construction of a `%s` is not in the vocabulary" % type_name(ctype(v)))
        out.append(("act", ".assign %s %s" % (lean_str(v["name"]), lean_str(self.hoist(init[0], out)))))

    def ctor_inits(self, fn, out):
        for c in kids(fn):
            if c.get("kind") != "CXXCtorInitializer":
                continue
            e = peel(kids(c)[0]) if kids(c) else {}
            if "baseInit" in c:
                args = [a for a in kids(e) if a.get("kind") != "CXXDefaultArgExpr"] if e.get("kind") in CTOR_KINDS else [e]
                if e.get("kind") in CTOR_KINDS and not args:
                    continue                                            # I4
                b = type_name(c["baseInit"].get("qualType", "?")).replace("net::", "")
                out.append(("act", ".call %s %s" % (lean_str("%s::%s" % (b, b.split("::")[-1])), lean_str(self.args(args)))))
                continue
            m = c.get("anyInit", {}).get("name")
            if m is None:
                self.err("constructor initialiser without a member name")
            if e.get("kind") in CTOR_KINDS:
                args = [a for a in kids(e) if a.get("kind") != "CXXDefaultArgExpr"]
                if not args:
                    continue                                            # I4
                if len(args) == 1:
                    out.append(("act", ".store %s %s" % (lean_str(m), lean_str(self.hoist(args[0], out)))))
                    continue
                self.err("member `%s` is constructed from %d arguments" % (m, len(args)))
            out.append(("act", ".store %s %s" % (lean_str(m), lean_str(self.hoist(kids(c)[0], out)))))


def render(items, ind):
    pad = " " * ind
    lines = []

    def block(br):
        return ("\n%s  [\n%s\n%s  ]" % (pad, render(br, ind + 4), pad)) if br else " []"
    for it in items:
        if it[0] == "act":
            lines.append("%s.act (%s)" % (pad, it[1]))
        elif it[0] == "loop":
            lines.append("%s.loop %s %s%s" % (pad, it[1], lean_str(it[2]), block(it[3])))
        elif it[0] == "switch":
            lines.append("%s.switch %s%s" % (pad, lean_str(it[1]), block(it[2])))
        else:
            lines.append("%s.ite %s%s%s" % (pad, lean_str(it[1]), block(it[2]), block(it[3])))
    return ",\n".join(lines)


def skeleton_of(owner, fn, qual):
    w = SysWalker(SysEngine, owner, fn.get("name"), {}, None)
    w.qual = qual
    w.local_ids = frozenset(x.get("id") for x in walk(fn) if x.get("kind") in ("VarDecl", "ParmVarDecl"))
    items = []
    if fn.get("kind") == "CXXConstructorDecl":
        w.ctor_inits(fn, items)
    w.stmt(body_of(fn), items)
    return items


# (Lean name, translation unit, name relative to muduo::net, parameter types or None = the only definition)
S = "muduo/net/SocketsOps.cc"
K = "muduo/net/Socket.cc"
A = "muduo/net/InetAddress.cc"
FUNCTIONS = [
    ("sockaddrCastConstIn6", S, "sockets::sockaddr_cast", ["const struct sockaddr_in6 *"]),
    ("sockaddrCastIn6", S, "sockets::sockaddr_cast", ["struct sockaddr_in6 *"]),
    ("sockaddrCastConstIn", S, "sockets::sockaddr_cast", ["const struct sockaddr_in *"]),
    ("sockaddrInCast", S, "sockets::sockaddr_in_cast", None),
    ("sockaddrIn6Cast", S, "sockets::sockaddr_in6_cast", None),
    ("createNonblockingOrDie", S, "sockets::createNonblockingOrDie", None),
    ("bindOrDie", S, "sockets::bindOrDie", None),
    ("listenOrDie", S, "sockets::listenOrDie", None),
    ("socketsAccept", S, "sockets::accept", None),
    ("socketsConnect", S, "sockets::connect", None),
    ("socketsRead", S, "sockets::read", None),
    ("socketsReadv", S, "sockets::readv", None),
    ("socketsWrite", S, "sockets::write", None),
    ("socketsClose", S, "sockets::close", None),
    ("socketsShutdownWrite", S, "sockets::shutdownWrite", None),
    ("socketsToIpPort", S, "sockets::toIpPort", None),
    ("socketsToIp", S, "sockets::toIp", None),
    ("fromIpPort4", S, "sockets::fromIpPort", ["const char *", "uint16_t", "struct sockaddr_in *"]),
    ("fromIpPort6", S, "sockets::fromIpPort", ["const char *", "uint16_t", "struct sockaddr_in6 *"]),
    ("getSocketError", S, "sockets::getSocketError", None),
    ("getLocalAddr", S, "sockets::getLocalAddr", None),
    ("getPeerAddr", S, "sockets::getPeerAddr", None),
    ("isSelfConnect", S, "sockets::isSelfConnect", None),
    ("hostToNetwork64", S, "sockets::hostToNetwork64", None),
    ("hostToNetwork32", S, "sockets::hostToNetwork32", None),
    ("hostToNetwork16", S, "sockets::hostToNetwork16", None),
    ("networkToHost64", S, "sockets::networkToHost64", None),
    ("networkToHost32", S, "sockets::networkToHost32", None),
    ("networkToHost16", S, "sockets::networkToHost16", None),
    ("socketCtor", K, "Socket::Socket", None),
    ("socketFd", K, "Socket::fd", None),
    ("socketDtor", K, "Socket::~Socket", None),
    ("getTcpInfo", K, "Socket::getTcpInfo", None),
    ("getTcpInfoString", K, "Socket::getTcpInfoString", None),
    ("bindAddress", K, "Socket::bindAddress", None),
    ("socketListen", K, "Socket::listen", None),
    ("socketAccept", K, "Socket::accept", None),
    ("socketShutdownWrite", K, "Socket::shutdownWrite", None),
    ("setTcpNoDelay", K, "Socket::setTcpNoDelay", None),
    ("setReuseAddr", K, "Socket::setReuseAddr", None),
    ("setReusePort", K, "Socket::setReusePort", None),
    ("setKeepAlive", K, "Socket::setKeepAlive", None),
    ("inetCtorPort", A, "InetAddress::InetAddress", ["uint16_t", "bool", "bool"]),
    ("inetCtorIpPort", A, "InetAddress::InetAddress", ["muduo::StringArg", "uint16_t", "bool"]),
    ("inetCtorIn", A, "InetAddress::InetAddress", ["const struct sockaddr_in &"]),
    ("inetCtorIn6", A, "InetAddress::InetAddress", ["const struct sockaddr_in6 &"]),
    ("inetFamily", A, "InetAddress::family", None),
    ("inetGetSockAddr", A, "InetAddress::getSockAddr", None),
    ("inetSetSockAddrInet6", A, "InetAddress::setSockAddrInet6", None),
    ("inetPortNetEndian", A, "InetAddress::portNetEndian", None),
    ("inetToIpPort", A, "InetAddress::toIpPort", None),
    ("inetToIp", A, "InetAddress::toIp", None),
    ("inetIpv4NetEndian", A, "InetAddress::ipv4NetEndian", None),
    ("inetPort", A, "InetAddress::port", None),
    ("inetResolve", A, "InetAddress::resolve", None),
    ("inetSetScopeId", A, "InetAddress::setScopeId", None),
    ("newDefaultPoller", "muduo/net/poller/DefaultPoller.cc", "Poller::newDefaultPoller", None),
    ("pollerCtor", "muduo/net/Poller.cc", "Poller::Poller", None),
    ("pollerDtor", "muduo/net/Poller.cc", "Poller::~Poller", None),
    ("pollerHasChannel", "muduo/net/Poller.cc", "Poller::hasChannel", None),
    ("epollCtor", "muduo/net/poller/EPollPoller.cc", "EPollPoller::EPollPoller", None),
    ("epollDtor", "muduo/net/poller/EPollPoller.cc", "EPollPoller::~EPollPoller", None),
    ("epollOperationToString", "muduo/net/poller/EPollPoller.cc", "EPollPoller::operationToString", None),
    ("pollCtor", "muduo/net/poller/PollPoller.cc", "PollPoller::PollPoller", None),
    ("pollDtor", "muduo/net/poller/PollPoller.cc", "PollPoller::~PollPoller", None),
    ("channelTie", "muduo/net/Channel.cc", "Channel::tie", None),
    ("createEventfd", "muduo/net/EventLoop.cc", "createEventfd", None),
    ("createTimerfd", "muduo/net/TimerQueue.cc", "detail::createTimerfd", None),
]
# a translation unit whose function is outside muduo::net (global anonymous namespace): dumped by name
OWN_FILTER = {"createEventfd": "createEventfd"}

HEAD_DOC = """/-!
Statement skeletons of the system-call layer that the engines' models treat as primitives: every function of
`muduo/net/SocketsOps.cc`, `Socket.cc` (+ `Socket.h`), `InetAddress.cc` (+ `InetAddress.h`), `Endian.h`,
`poller/DefaultPoller.cc`, `Poller.cc`, the constructors / destructors and `operationToString` of the two pollers,
`Channel::tie`, `createEventfd` (`EventLoop.cc`) and `detail::createTimerfd` (`TimerQueue.cc`) - the significant actions in
source order: `sys` = a libc / system call (decided by the declaration the call refers to: `::close`, not
`sockets::close`), `call` = a function of muduo (qualified relative to `muduo::net`), `store` (members, through pointers,
`errno`), `assign` (locals), `log` (`LOG_ERROR` / `LOG_SYSERR` continue, `LOG_FATAL` / `LOG_SYSFATAL` end the process),
`assertion`, `label` (`case v:` / `default:` inside a `switch`), `brk`, `ret <value>` - with every expression printed
canonically (casts dropped, minimal parentheses, integer macros by value, enumerators by name).  `<result>` is the value
of the action just before it (`return ::write(..)` is `[sys write "..", ret "<result>"]`); an action call inside a loop
condition, or one that is evaluated conditionally, is printed inline as `{sys f(args)}`.
`Proofs/SysSkelTie.lean` proves each one equal to the skeleton the models assume (`Model/SysSkelDecl.lean`).

Not part of a skeleton (the models abstract from exactly these):
* I1 log statements below ERROR (`LOG_TRACE/DEBUG/INFO/WARN`) and the text of every log statement (only value getters
  may be called inside one, anything else stops the extraction);
* I2 declarations of locals without an initialiser or default-constructed records (`int optval`, `struct sockaddr_in6
  addr`, `struct tcp_info tcpi`, `struct hostent hent`): storage only;
* I3 casts of every kind (C-style, `static_cast`, `reinterpret_cast`, `implicit_cast`, implicit conversions,
  temporaries), `(void)x`;
* I4 base-class initialisers without arguments (`noncopyable`, `copyable`) and default-constructed members;
* I5 `static_assert`, `MUDUO_VERIF_POINT` (an empty `do { } while (0)`), empty statements;
* I6 functions without a body (`Poller::~Poller() = default`, `PollPoller::~PollPoller() = default`; the generator
  fails when one of them gets a body) and code the preprocessor excludes in the build the checks use (`#if VALGRIND ||
  defined (NO_ACCEPT4)`, `#ifndef SO_REUSEPORT`).
Value calls (`sockets::sockaddr_cast` & co., the `Endian.h` helpers, `strlen`, `strchr`, `memcmp`, `__bswap_16/32/64`,
`InetAddress::family/getSockAddr/portNetEndian`, `StringArg::c_str`, `Channel::fd`, `channels_.find/end`) are printed
inside the expression that uses them; every other call must be classified as an action of the vocabulary or the
extraction fails, and every `goto`, `try`, lambda, range-`for` stops it.
-/
"""


def generate():
    out = [HEADER % "muduo/net/SocketsOps.cc, Socket.cc, Socket.h, InetAddress.cc, InetAddress.h, Endian.h, Poller.cc, "
                    "poller/DefaultPoller.cc, poller/EPollPoller.cc, poller/PollPoller.cc, Channel.cc, EventLoop.cc, TimerQueue.cc",
           "import MuduoVerif.Model.SysSkelDecl\n", HEAD_DOC, "namespace MuduoVerif.Gen.SysSkel", "open MuduoVerif.SysSkel\n"]
    cache = {}

    def unit(tu, flt):
        if (tu, flt) not in cache:
            docs = ast_dump(tu, flt)
            if flt == NS_FILTER:
                cache[(tu, flt)] = qualify(docs)
            else:
                fs = [n for d in docs for n in walk(d) if n.get("kind") in FN_KINDS and body_of(n) is not None]
                cache[(tu, flt)] = ({}, [(f.get("name"), f) for f in fs])
        return cache[(tu, flt)]
    for lean, tu, qn, ptypes in FUNCTIONS:
        qual, defs = unit(tu, OWN_FILTER.get(qn, NS_FILTER))
        fs = [f for q, f in defs if q == qn and (ptypes is None or param_types(f) == ptypes)]
        if len(fs) != 1:
            raise ExtractError("expected exactly one definition of %s%s in %s, found %d" % (
                qn, "(%s)" % ", ".join(ptypes) if ptypes else "", tu, len(fs)))
        owner = qn.rsplit("::", 1)[0] if "::" in qn else None
        items = skeleton_of(owner, fs[0], qual)
        out.append("/-- `%s(%s)` -/" % (qn, ", ".join(param_types(fs[0]))))
        if items:
            out.append("def %s : List Skel :=\n  [\n%s\n  ]\n" % (lean, render(items, 4)))
        else:
            out.append("def %s : List Skel := []\n" % lean)
    out.append("end MuduoVerif.Gen.SysSkel")
    return "\n".join(out) + "\n"
