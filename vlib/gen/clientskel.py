"""T1 for the client engine (C12), second part - STATEMENT SKELETONS of the Connector / TcpClient functions that
Model/Client.lean implements, from clang's AST of /repo's current sources.

vlib/gen/client.py extracts the constants, the errno table, every state test and the destructor's branch tests; what
it cannot see is the ORDER and NESTING of the statements between those tests (`setState(kConnected)` moved after the
hand-over, `retry(sockfd)` before the channel is gone, two `if`s merged, a call moved out of its branch ...).  This
module walks each function body in source order and emits a tree

    Skel ::= act Act | ite <guard name> <then : List Skel> <else : List Skel>
           | sw <table name> <proceed : List Skel> <retry : List Skel> <giveUp : List Skel>

of the "significant actions" (vocabulary: lean/MuduoVerif/Model/ClientSkelDecl.lean): state stores, operations on the
connector's channel (incl. its creation and destruction), the new-connection callback, hand-offs to the loop
(queueInLoop / runInLoop / runAfter of which function), direct calls of other member functions, calls on the
connector / the connection, socket calls, the creation of the TcpConnection, stores to members and to the locals that
feed a guard, a call or a later statement, assertions on members, `return`.  An `if` is named after the guard
vlib/gen/client.py generated from that very condition (its registry `client.SITES`, keyed by clang's node id in the
very AST objects `client.DOCS`); any other condition is printed in a canonical form.  The `switch (savedErrno)` of
`Connector::connect` is the generated table `connectTable` (`client.SWITCHES`): one branch per class
(proceed / retry / giveUp); every arm of a class must have the same skeleton.

Lean side: Model/ClientSkelDecl.lean declares the skeleton each model function implements; Proofs/ClientSkelTie.lean
proves `Gen.ClientSkel.<fn> = Decl.<fn>` by `decide`; Props/C12.lean re-exports the conjunction.

Never guesses: a call that is neither significant nor in one of the (short, explicit) lists of value-only getters, a
statement kind outside {compound, if, switch (registered), return, declaration, expression, empty}, a side effect
inside a condition other than a socket query, a functor whose target cannot be named -> ExtractError.

IGNORED (the model abstracts from exactly these; listed again in the header of the generated file):
  I1  log statements (LOG_*): `if (logLevel() <= L) Logger(..).stream() << ..` and unconditional
      `Logger(..).stream() << ..` - only value getters may be called inside (LOG_PURE), anything else is an error
  I2  `loop_->assertInLoopThread()` (the model runs the *InLoop functions and the callbacks on the loop thread by
      construction)
  I3  assertions over local variables only (none in the unchanged tree)
  I4  declarations of locals that are not of arithmetic type and whose initialiser performs no significant call and
      binds no functor (`TcpConnectionPtr conn;`, `char buf[32];`, `string connName = name_ + buf`), casts
  I5  `MutexLockGuard lock(mutex_)`: the model is sequential - every function is one atomic step, so the scope of the
      lock is invisible to it (the lock discipline is C08's subject)
  I6  an `if` none of whose branches contains a significant action
  I7  MUDUO_VERIF_POINT (an empty `do { } while (0)` in a normal build)
  I8  `snprintf` into a local buffer (text of the connection's name; the model names a connection by its socket)
  I9  the `break` that ends a switch arm (fall-through between arms stops the extraction in vlib/gen/client.py)
"""
import re

from ..extract import HEADER, ExtractError, ast_dump, body_of, ctype, kids, the_function, walk
from . import client

NAME = "ClientSkel"

# (Lean name, class, C++ function) in source order
CONNECTOR_FUNCTIONS = ["start", "startCycleInLoop", "startInLoop", "stop", "stopInLoop", "connect", "restart",
                       "connecting", "removeAndResetChannel", "resetChannel", "handleWrite", "handleError", "retry"]
# helpers that need not exist (a tree without them gets the empty skeleton: the tie with the declared one then fails)
OPTIONAL_CONNECTOR_FUNCTIONS = ["cancelRetryTimer"]
DETAIL_FUNCTIONS = [("detailRemoveConnection", "removeConnection"), ("detailRemoveConnector", "removeConnector")]
CLIENT_FUNCTIONS = [("dtor", "~TcpClient"), ("clientConnect", "connect"), ("clientDisconnect", "disconnect"),
                    ("clientStop", "stop"), ("newConnection", "newConnection"), ("removeConnection", "removeConnection")]

CHAN_OPS = ("enableWriting", "disableAll", "remove")
CHAN_SETCB = ("setWriteCallback", "setErrorCallback")
CB_OF = {"Connector": {"newConnectionCallback_": "newConnection"}, "TcpClient": {}, "detail": {}}
HANDOFF = {"queueInLoop": "queue", "runInLoop": "run", "runAfter": "timer"}
LOOPS = ("loop_", "loop")                                        # the member, and the parameter of detail::removeConnection
SYS_FREE = ("createNonblockingOrDie", "connect", "close", "getSocketError", "isSelfConnect", "getPeerAddr", "getLocalAddr")
SYS_IN_COND = ("isSelfConnect",)                                 # a query of the socket may be an `if` condition
# calls on other objects that are actions: object -> methods
ON_OPS = {"connector_": ("start", "stop", "restart"),
          "connection_": ("shutdown",),
          "conn": ("forceClose", "connectEstablished", "setConnectionCallback", "setMessageCallback",
                   "setWriteCompleteCallback", "setCloseCallback")}
PTR_MEMBERS = ("channel_", "connection_", "connector_")          # smart pointers: `m.reset(..)`, `m.unique()`, `m = ..`
CREATED = ("Channel", "TcpConnection")                           # `new T(..)`

# value-only getters
PURE_THIS = ("shared_from_this",)
PURE_METHODS = ("fd", "family", "getSockAddr", "getLoop", "toIpPort", "c_str", "serverAddress", "unique", "get")
PURE_FREE = ("__errno_location", "min", "max", "get_pointer", "snprintf")
PURE_OPERATORS = ("operator+", "operator==", "operator!=")
LOG_PURE = ("operator<<", "stream", "fd", "strerror_tl", "operator->", "operator*", "get", "c_str", "name", "toIpPort",
            "logLevel", "__errno_location", "get_pointer", "serverAddress")
FUNCTOR_BUILDERS = ("bind", "shared_from_this", "operator->", "operator*")
# types whose construction / conversion is not an action
VALUE_TYPES = ("std::", "const std::", "shared_ptr<", "const shared_ptr<", "weak_ptr<", "muduo::net::TcpConnectionPtr",
               "TcpConnectionPtr", "const muduo::net::TcpConnectionPtr", "muduo::net::ConnectorPtr", "ConnectorPtr",
               "muduo::string", "string", "basic_string<", "muduo::Timestamp", "Timestamp", "muduo::net::TimerCallback",
               "TimerCallback", "muduo::net::EventLoop::Functor", "Functor", "muduo::net::InetAddress", "InetAddress",
               "muduo::net::CloseCallback", "CloseCallback", "const muduo::net::CloseCallback",
               "muduo::net::Channel::EventCallback", "EventCallback", "muduo::net::ConnectionCallback", "muduo::net::TimerId", "TimerId",
               "muduo::net::MessageCallback", "muduo::net::WriteCompleteCallback", "typename _Bind_helper<")
LOCK_TYPES = ("muduo::MutexLockGuard", "MutexLockGuard")
ARITH = ("int", "long", "unsigned", "size_t", "ssize_t", "bool", "double", "float", "char", "short", "int64_t", "uint64_t",
         "int32_t", "uint32_t")

PEEL_KINDS = ("ParenExpr", "ExprWithCleanups", "MaterializeTemporaryExpr", "CXXBindTemporaryExpr", "ConstantExpr",
              "ImplicitCastExpr", "CStyleCastExpr", "CXXStaticCastExpr", "CXXReinterpretCastExpr", "CXXConstCastExpr")
CALL_KINDS = ("CXXMemberCallExpr", "CallExpr", "CXXOperatorCallExpr")
CTOR_KINDS = ("CXXConstructExpr", "CXXTemporaryObjectExpr")
CLASSES = ("proceed", "retry", "giveUp")                         # Gen.Client.ConnectClass


def peel(n):
    """skip parentheses, temporaries and every cast (casts are not actions)"""
    while True:
        k = n.get("kind")
        if k in PEEL_KINDS and kids(n):
            n = kids(n)[0]
        elif k == "CXXFunctionalCastExpr" and kids(n) and n.get("castKind") != "ConstructorConversion":
            n = kids(n)[0]
        else:
            return n


def lean_str(s):
    return '"' + s.replace("\\", "\\\\").replace('"', '\\"').replace("\n", "\\n") + '"'


def callee_name(n):
    """name of the function a call node calls (member, operator or free function), else None"""
    ks = kids(n)
    if not ks:
        return None
    c = peel(ks[0])
    if c.get("kind") == "MemberExpr":
        return c.get("name")
    if c.get("kind") == "DeclRefExpr":
        return c.get("referencedDecl", {}).get("name")
    return None


def deref(n):
    """the object a (smart) pointer expression points to: `p->`, `*p`"""
    n = peel(n)
    if n.get("kind") == "CXXOperatorCallExpr" and callee_name(n) in ("operator->", "operator*") and len(kids(n)) == 2:
        return deref(kids(n)[1])
    if n.get("kind") == "UnaryOperator" and n.get("opcode") == "*":
        return deref(kids(n)[0])
    return n


def this_member(n):
    """name of the member when `n` is `this->m` / `m` (through `->`/`*` of a smart pointer member), else None"""
    n = deref(n)
    if n.get("kind") == "MemberExpr" and kids(n) and peel(kids(n)[0]).get("kind") == "CXXThisExpr":
        return n.get("name")
    return None


def local_name(n):
    """name of the local variable / parameter when `n` is one (through `->`/`*`), else None"""
    n = deref(n)
    if n.get("kind") == "DeclRefExpr" and n.get("referencedDecl", {}).get("kind") in ("VarDecl", "ParmVarDecl"):
        return n["referencedDecl"]["name"]
    return None


def is_this(n):
    return deref(n).get("kind") == "CXXThisExpr"


def is_errno(n):
    n = peel(n)
    return n.get("kind") == "CallExpr" and callee_name(n) == "__errno_location"


def is_assert(n):
    n = peel(n)
    return n.get("kind") == "ConditionalOperator" and any(
        x.get("referencedDecl", {}).get("name") in ("__assert_fail", "__assert_perror_fail") for x in walk(n))


def assert_text(n):
    for x in walk(peel(n)):
        if x.get("kind") == "CallExpr" and callee_name(x) == "__assert_fail":
            lits = [y for y in walk(kids(x)[1]) if y.get("kind") == "StringLiteral"]
            if lits:
                v = lits[0]["value"]
                return v[1:-1] if v.startswith('"') and v.endswith('"') else v
    raise ExtractError("assertion without text")


def mentions_member(n):
    return any(x.get("kind") == "CXXThisExpr" for x in walk(n))


def is_log_expr(n):
    """`Logger(..).stream() << ..`"""
    n = peel(n)
    if n.get("kind") != "CXXOperatorCallExpr" or callee_name(n) != "operator<<":
        return False
    return any(x.get("kind") in CTOR_KINDS and ctype(x).replace("muduo::", "") == "Logger" for x in walk(n))


def is_log_stmt(n):
    n0 = peel(n)
    if is_log_expr(n0):
        return True
    if n0.get("kind") == "IfStmt":
        ks = kids(n0)
        if len(ks) == 2 and any(x.get("kind") == "DeclRefExpr" and x.get("referencedDecl", {}).get("name") == "logLevel"
                                for x in walk(ks[0])) and is_log_expr(ks[1]):
            return True
    return False


class Walker:
    """one function body -> list of Skel (as nested Python tuples)"""

    def __init__(self, tu, cls, fname):
        self.tu, self.cls, self.fname = tu, cls, fname

    def err(self, msg):
        raise ExtractError("%s::%s: %s" % (self.cls, self.fname, msg))

    # ------------------------------------------------------------------ canonical printing
    def pp(self, n, top=True):
        n = peel(n)
        k = n.get("kind")
        if k == "IntegerLiteral":
            return str(int(n["value"]))
        if k == "CXXBoolLiteralExpr":
            return "true" if n["value"] else "false"
        if k == "CXXNullPtrLiteralExpr" or k == "GNUNullExpr":
            return "nullptr"
        if k == "FloatingLiteral":
            return str(n["value"])
        if k == "StringLiteral":
            return n["value"]
        if k == "CXXThisExpr":
            return "this"
        if k == "DeclRefExpr":
            return n["referencedDecl"]["name"]
        if k == "MemberExpr":
            if not kids(n) or peel(kids(n)[0]).get("kind") == "CXXThisExpr":
                return n["name"]
            return self.pp(deref(kids(n)[0]), False) + "." + n["name"]
        if k == "CXXMemberCallExpr":
            callee = peel(kids(n)[0])
            if callee.get("kind") != "MemberExpr":
                self.err("cannot print a call through %s" % callee.get("kind"))
            if callee.get("name", "").startswith("operator ") and len(kids(n)) == 1:
                return self.pp(deref(kids(callee)[0]), False)          # conversion operator: the object itself
            return "%s(%s)" % (self.pp(callee, False), ", ".join(self.pp(a) for a in kids(n)[1:]))
        if k == "CXXOperatorCallExpr":
            op = callee_name(n) or "operator?"
            args = kids(n)[1:]
            if op in ("operator->", "operator*") and len(args) == 1:
                return self.pp(args[0], False)
            if op == "operator()":
                return "%s(%s)" % (self.pp(args[0], False), ", ".join(self.pp(a) for a in args[1:]))
            sym = op[len("operator"):]
            if len(args) == 2:
                s = "%s %s %s" % (self.pp(args[0], False), sym, self.pp(args[1], False))
                return s if top else "(" + s + ")"
            if len(args) == 1:
                return sym + self.pp(args[0], False)
            self.err("cannot print operator call %s" % op)
        if k == "CallExpr":
            if is_errno(n):
                return "&errno"
            nm = callee_name(n)
            if nm is None:
                self.err("cannot print an indirect call")
            if nm == "bind":
                return "bind " + self.bound(n)
            return "%s(%s)" % (nm, ", ".join(self.pp(a) for a in kids(n)[1:]))
        if k == "UnaryOperator":
            op = n.get("opcode")
            a = kids(n)[0]
            if op == "*" and is_errno(a):
                return "errno"
            if n.get("isPostfix"):
                return self.pp(a, False) + op
            return op + self.pp(a, False)
        if k in ("BinaryOperator", "CompoundAssignOperator"):
            l, r = kids(n)
            s = "%s %s %s" % (self.pp(l, False), n.get("opcode"), self.pp(r, False))
            return s if top else "(" + s + ")"
        if k == "ConditionalOperator":
            c, a, b = kids(n)
            return "(%s ? %s : %s)" % (self.pp(c, False), self.pp(a, False), self.pp(b, False))
        if k == "CXXNewExpr":
            ctor = [x for x in kids(n) if x.get("kind") in CTOR_KINDS]
            if len(ctor) != 1:
                self.err("cannot print this `new` expression")
            return "new %s(%s)" % (ctype(ctor[0]).replace("muduo::net::", ""), ", ".join(self.pp(a) for a in kids(ctor[0])))
        if k in CTOR_KINDS or k == "CXXFunctionalCastExpr":
            args = kids(n)
            t = ctype(n)
            if len(args) == 1 and k != "CXXTemporaryObjectExpr":
                return self.pp(args[0], top)                           # copy / conversion: the value itself
            return "%s(%s)" % (t, ", ".join(self.pp(a) for a in args))
        if k == "UnaryExprOrTypeTraitExpr":
            return "%s(%s)" % (n.get("name", "sizeof"), ", ".join(self.pp(a) for a in kids(n)) or n.get("argType", {}).get("qualType", ""))
        if k == "CXXDefaultArgExpr":
            return "<default>"
        self.err("cannot print expression node %s" % k)

    # ------------------------------------------------------------------ functors
    def bound(self, bind, kind="a functor"):
        """`std::bind(&C::f, obj, args..)` -> "C::f(args..)", `std::bind(&f, args..)` -> "f(args..)": the function it
        runs + its bound value arguments (the object a member function is called on is not printed when it is `this` /
        `shared_from_this()`; a bound local or member is)"""
        for x in walk(bind):
            k = x.get("kind")
            if k == "LambdaExpr":
                self.err("a lambda inside %s (cannot name what it runs)" % kind)
            if k in CALL_KINDS and x is not bind:
                nm = callee_name(x)
                if nm not in FUNCTOR_BUILDERS:
                    self.err("call of `%s` while building %s" % (nm, kind))
                if nm == "bind":
                    self.err("nested std::bind in %s" % kind)
        bargs = kids(bind)[1:]
        if not bargs:
            self.err("std::bind without a target in %s" % kind)
        t = peel(bargs[0])
        target, is_method = None, False
        if t.get("kind") == "UnaryOperator" and t.get("opcode") == "&":
            d = peel(kids(t)[0])
            if d.get("kind") == "DeclRefExpr" and d.get("referencedDecl", {}).get("kind") in ("CXXMethodDecl", "FunctionDecl"):
                target = d["referencedDecl"]["name"]
                is_method = d["referencedDecl"]["kind"] == "CXXMethodDecl"
                if is_method:                                           # `void (muduo::net::Connector::*)()`
                    m = re.search(r"\((?:\w+::)*(\w+)::\*\)", ctype(t))
                    if not m:
                        self.err("cannot name the class of the member function `%s` bound in %s" % (target, kind))
                    target = m.group(1) + "::" + target
        if target is None:
            self.err("cannot name the function %s runs" % kind)
        rest = bargs[1:]
        extra = []
        for i, a in enumerate(rest):
            if is_method and i == 0:
                # the object the member function runs on: `this` / `shared_from_this()` are the connector / client
                # itself; anything else (a connection) is printed
                if peel(a).get("kind") == "CXXThisExpr" or any(
                        y.get("kind") == "MemberExpr" and y.get("name") == "shared_from_this" for y in walk(a)):
                    continue
            extra.append(self.pp(a))
        return target + ("(%s)" % ", ".join(extra) if extra else "")

    def functor_of(self, f, kind):
        binds = [x for x in walk(f) if x.get("kind") == "CallExpr" and callee_name(x) == "bind"]
        if len(binds) == 1:
            inner = set(id(y) for y in walk(binds[0]))
            for x in walk(f):
                if x.get("kind") in CALL_KINDS and id(x) not in inner and callee_name(x) not in FUNCTOR_BUILDERS:
                    self.err("call of `%s` around the functor handed to %s" % (callee_name(x), kind))
            return self.bound(binds[0], "the functor handed to %s" % kind)
        if not binds:
            v = local_name(f)
            if v is not None:
                return v                                              # a functor built before, by its name
            m = this_member(f)
            if m is not None:
                return m
        self.err("cannot name the function the functor handed to %s runs" % kind)

    def handoff(self, call, kind):
        """Act of `loop_->queueInLoop/runInLoop/runAfter(...)`"""
        args = kids(call)[1:]
        delay = None
        if kind == "timer":
            if len(args) != 2:
                self.err("runAfter with %d arguments" % len(args))
            delay, args = self.pp(args[0]), args[1:]
        if len(args) != 1:
            self.err("%s with %d arguments" % (kind, len(args)))
        what = self.functor_of(args[0], kind)
        if kind == "timer":
            return ".timer %s %s" % (lean_str(delay), lean_str(what))
        return ".%s %s" % (kind, lean_str(what))

    # ------------------------------------------------------------------ calls
    def args_text(self, args):
        return lean_str(", ".join(self.pp(a) for a in args))

    def classify(self, n):
        """(act or None, descend into the arguments?) of one call node; unknown -> ExtractError"""
        k = n.get("kind")
        nm = callee_name(n)
        args = [a for a in kids(n)[1:] if a.get("kind") != "CXXDefaultArgExpr"]      # `p.reset()` is `p.reset(pointer())`
        if k == "CXXMemberCallExpr":
            callee = peel(kids(n)[0])
            base = kids(callee)[0] if kids(callee) else None
            arrow = bool(callee.get("isArrow"))
            if base is None or is_this(base):
                if nm == "setState":
                    e = peel(args[0]) if len(args) == 1 else {}
                    if e.get("kind") != "DeclRefExpr" or e.get("referencedDecl", {}).get("kind") != "EnumConstantDecl":
                        self.err("setState with an argument that is not an enumerator")
                    return ".setState .%s" % e["referencedDecl"]["name"], False
                if nm in PURE_THIS:
                    return None, True
                return ".call %s %s" % (lean_str(nm), self.args_text(args)), True
            m = this_member(base)
            v = local_name(base) if m is None else None
            obj = m if m is not None else v
            if obj is not None:
                if nm.startswith("operator ") and not args:
                    return None, True                                   # `channel_` / `conn` tested as a boolean
                # pointer-level operations of a smart pointer (`.`), as opposed to operations of the pointee (`->`)
                if not arrow and obj in PTR_MEMBERS and nm == "reset":
                    if obj == "channel_":
                        if not args:
                            return ".chanReset", False
                        a = peel(args[0])
                        ctor = [x for x in kids(a) if x.get("kind") in CTOR_KINDS] if a.get("kind") == "CXXNewExpr" else []
                        if len(args) == 1 and len(ctor) == 1 and ctype(ctor[0]).replace("muduo::net::", "") == "Channel":
                            for c in kids(ctor[0]):
                                self.no_action(c, "the arguments of `new Channel`")
                            return ".chanNew %s" % self.args_text(kids(ctor[0])), False
                        self.err("channel_.reset(..) with something that is not `new Channel(..)`")
                    if args:
                        self.err("%s.reset(..) with an argument" % obj)
                    return ".assign %s %s" % (lean_str(obj), lean_str("nullptr")), False
                if not arrow and obj in PTR_MEMBERS and nm in ("unique", "get"):
                    return None, True
                if arrow and m == "channel_" and nm in CHAN_OPS:
                    if args:
                        self.err("channel_->%s with arguments" % nm)
                    return ".chan .%s \"\"" % nm, False
                if arrow and m == "channel_" and nm in CHAN_SETCB:
                    if len(args) != 1:
                        self.err("channel_->%s with %d arguments" % (nm, len(args)))
                    return ".chan .%s %s" % (nm, lean_str(self.functor_of(args[0], nm))), False
                if arrow and obj in LOOPS and nm == "assertInLoopThread":
                    return None, False                                  # I2
                if arrow and obj in LOOPS and nm in HANDOFF:
                    return self.handoff(n, HANDOFF[nm]), False
                if arrow and obj in LOOPS and nm == "cancel":
                    # `loop_->cancel(<TimerId member>)`: the timer named by that member will not run
                    a = peel(args[0]) if len(args) == 1 else {}
                    if a.get("kind") in CTOR_KINDS and len(kids(a)) == 1:          # TimerId is passed by value (a copy)
                        a = peel(kids(a)[0])
                    tm = this_member(a) if a else None
                    if tm is None:
                        self.err("loop_->cancel(..) of something that is not a member")
                    return ".cancelTimer %s" % lean_str(tm), False
                if arrow and nm in ON_OPS.get(obj, ()):
                    if len(args) == 1 and any(x.get("kind") == "CallExpr" and callee_name(x) == "bind" for x in walk(args[0])):
                        return ".on %s %s %s" % (lean_str(obj), lean_str(nm), lean_str("bind " + self.functor_of(args[0], nm))), False
                    return ".on %s %s %s" % (lean_str(obj), lean_str(nm), self.args_text(args)), True
                if nm in PURE_METHODS:
                    return None, True
                self.err("call of `%s` on `%s` is not in the vocabulary" % (nm, obj))
            if nm in PURE_METHODS:
                return None, True                                       # getter on a temporary: `x.toIpPort().c_str()`
            self.err("call of `%s` on an object I cannot name" % nm)
        if k == "CXXOperatorCallExpr":
            if nm in ("operator->", "operator*"):
                return None, True
            if nm == "operator()":
                m = this_member(args[0]) if args else None
                if m is not None and m in CB_OF.get(self.cls, {}):
                    return ".cb .%s %s" % (CB_OF[self.cls][m], self.args_text(args[1:])), True
                self.err("call of a function object that is not a known callback member")
            if nm in PURE_OPERATORS:
                return None, True
            self.err("operator call `%s` is not in the vocabulary" % nm)
        if k == "CallExpr":
            if nm in SYS_FREE:
                return ".sys .%s %s" % (nm, self.args_text(args)), True
            if nm in PURE_FREE:
                return None, True
            if nm == "bind":
                self.err("std::bind outside a hand-off, a callback setter or a functor declaration")
            self.err("call of free function `%s` is not in the vocabulary" % nm)
        self.err("unexpected call node %s" % k)

    def no_action(self, n, where):
        sink = []
        self.expr(n, sink)
        if sink:
            self.err("significant action inside %s: %s" % (where, sink[0][1]))

    def is_local(self, n):
        n = peel(n)
        return n.get("kind") == "DeclRefExpr" and n.get("referencedDecl", {}).get("kind") in ("VarDecl", "ParmVarDecl")

    def lhs_name(self, n):
        n = peel(n)
        if n.get("kind") == "UnaryOperator" and n.get("opcode") == "*" and is_errno(kids(n)[0]):
            return "errno"
        if self.is_local(n):
            return n["referencedDecl"]["name"]
        m = this_member(n) if n.get("kind") == "MemberExpr" else None
        if m is not None:
            return m
        self.err("assignment to something that is neither a local nor a member (%s)" % n.get("kind"))

    def expr(self, n, out, in_cond=False):
        """append the acts of expression `n` to `out`, in evaluation order (arguments before the call)"""
        n = peel(n)
        k = n.get("kind")
        if k == "LambdaExpr":
            self.err("lambda expression")
        if k == "CXXOperatorCallExpr" and callee_name(n) == "operator=" and len(kids(n)) == 3:
            _, l, r = kids(n)                                           # `conn = connection_`: a store, as `=` on an int
            self.assign(l, r, "=", n, out, in_cond)
            return
        if k in CALL_KINDS:
            act, descend = self.classify(n)
            if descend:
                for c in kids(n):
                    self.expr(c, out, in_cond)
            if act is not None:
                if in_cond and not (act.startswith(".sys .") and callee_name(n) in SYS_IN_COND):
                    self.err("side effect inside a condition: %s" % act)
                out.append(("act", act))
            return
        if k == "CXXNewExpr":
            ctor = [x for x in kids(n) if x.get("kind") in CTOR_KINDS]
            t = ctype(ctor[0]).replace("muduo::net::", "") if len(ctor) == 1 else None
            if t not in CREATED or t == "Channel":
                self.err("`new` of %s outside the vocabulary (a Channel is created by channel_.reset(new Channel(..)))" % t)
            for c in kids(ctor[0]):
                self.expr(c, out, in_cond)
            if in_cond:
                self.err("`new` inside a condition")
            out.append(("act", ".create %s %s" % (lean_str(t), self.args_text(kids(ctor[0])))))
            return
        if k in CTOR_KINDS or k == "CXXFunctionalCastExpr":
            t = ctype(n)
            if not t.startswith(VALUE_TYPES):
                self.err("construction of a `%s` is not in the vocabulary" % t)
            for c in kids(n):
                self.expr(c, out, in_cond)
            return
        if k in ("BinaryOperator", "CompoundAssignOperator") and (n.get("opcode") == "=" or k == "CompoundAssignOperator"):
            l, r = kids(n)
            self.assign(l, r, n.get("opcode"), n, out, in_cond)
            return
        if k == "UnaryOperator" and n.get("opcode") in ("++", "--"):
            name = self.lhs_name(kids(n)[0])
            if in_cond:
                self.err("increment inside a condition")
            out.append(("act", ".assign %s %s" % (lean_str(name), lean_str(self.pp(n)))))
            return
        if k in ("CXXDeleteExpr", "CXXThrowExpr", "StmtExpr"):
            self.err("%s is not in the vocabulary" % k)
        for c in kids(n):
            self.expr(c, out, in_cond)

    def assign(self, l, r, op, whole, out, in_cond):
        """`x = e` / `x op= e`: the acts of `e`, then the store (with `e` printed - a significant call included)"""
        name = self.lhs_name(l)
        if in_cond:
            self.err("assignment inside a condition")
        self.expr(r, out)
        out.append(("act", ".assign %s %s" % (lean_str(name), lean_str(self.pp(r) if op == "=" else self.pp(whole)))))

    # ------------------------------------------------------------------ statements
    def check_log(self, n):
        for x in walk(n):
            if x.get("kind") in CALL_KINDS and callee_name(x) not in LOG_PURE:
                self.err("call of `%s` inside a log statement" % callee_name(x))
            if x.get("kind") == "LambdaExpr" or (x.get("kind") in ("BinaryOperator", "CompoundAssignOperator") and
                                                  (x.get("opcode") == "=" or x.get("kind") == "CompoundAssignOperator")):
                self.err("assignment or lambda inside a log statement")
            if x.get("kind") == "UnaryOperator" and x.get("opcode") in ("++", "--"):
                self.err("increment inside a log statement")

    def cond(self, c, out):
        """name of the condition; a socket query made by the condition is appended to `out` (it happens before the test)"""
        self.expr(c, out, in_cond=True)
        key = (self.tu, c.get("id"))
        if key in client.SITES:
            return client.SITES[key]
        return self.pp(c)

    def switch(self, s, out):
        key = (self.tu, s.get("id"))
        if key not in client.SWITCHES:
            self.err("a `switch` that vlib/gen/client.py has not turned into a table")
        table, arms = client.SWITCHES[key]
        self.no_action(kids(s)[0], "the operand of the switch")
        per = {c: [] for c in CLASSES}
        for labels, stmts, cls in arms:
            if cls not in per:
                self.err("switch arm %s of unknown class %s" % (labels, cls))
            items = []
            for st in stmts:
                self.stmt(st, items)
            per[cls].append((labels, items))
        branches = []
        for c in CLASSES:
            if not per[c]:
                self.err("table %s: no arm of class `%s`" % (table, c))
            first = per[c][0][1]
            for labels, items in per[c][1:]:
                if items != first:
                    self.err("table %s: the arms of class `%s` do not perform the same actions (arm %s differs from arm %s)"
                             % (table, c, labels, per[c][0][0]))
            branches.append(first)
        out.append(("sw", table, branches))

    def stmt(self, s, out):
        k = s.get("kind")
        if k == "NullStmt":
            return
        if k == "CompoundStmt":
            for c in kids(s):
                self.stmt(c, out)
            return
        if is_log_stmt(s):                                              # I1
            self.check_log(s)
            return
        if k == "IfStmt":
            ks = kids(s)
            if s.get("hasInit") or s.get("hasVar") or len(ks) not in (2, 3):
                self.err("`if` with an init statement / condition variable")
            pre = []
            name = self.cond(ks[0], pre)
            thn, els = [], []
            self.stmt(ks[1], thn)
            if len(ks) == 3:
                self.stmt(ks[2], els)
            if thn or els or pre:                                       # I6
                out.extend(pre)
                out.append(("ite", name, thn, els))
            return
        if k == "SwitchStmt":
            self.switch(s, out)
            return
        if k == "ReturnStmt":
            val = ""
            for c in kids(s):
                self.expr(c, out)
                val = self.pp(c)
            out.append(("act", ".ret %s" % lean_str(val)))
            return
        if k == "DoStmt":
            body, cnd = kids(s)[0], kids(s)[1]
            if body.get("kind") == "CompoundStmt" and not kids(body) and peel(cnd).get("kind") in ("IntegerLiteral", "CXXBoolLiteralExpr"):
                return                                                  # I7
            self.err("a do-loop that is not an empty MUDUO_VERIF_POINT")
        if k == "DeclStmt":
            for v in kids(s):
                if v.get("kind") != "VarDecl":
                    self.err("declaration of a %s inside the body" % v.get("kind"))
                init = kids(v)
                t = ctype(v).replace("const ", "").strip()
                if t in LOCK_TYPES:                                     # I5
                    for x in walk(v):
                        if x.get("kind") in CALL_KINDS:
                            self.err("call inside the initialiser of a lock guard")
                    continue
                if not init:
                    continue
                if any(x.get("kind") == "CallExpr" and callee_name(x) == "bind" for x in walk(init[0])):
                    # a functor built for later: which function it runs (functor_of rejects any other call inside)
                    out.append(("act", ".assign %s %s" % (lean_str(v["name"]), lean_str("bind " + self.functor_of(init[0], "the local `%s`" % v["name"])))))
                    continue
                self.expr(init[0], out)
                if t in ARITH:
                    out.append(("act", ".assign %s %s" % (lean_str(v["name"]), lean_str(self.pp(init[0])))))
            return
        if is_assert(s):
            cnd = kids(peel(s))[0]
            self.no_action(cnd, "an assertion")
            if mentions_member(cnd):
                out.append(("act", ".assertion %s" % lean_str(assert_text(s))))
            return                                                      # I3 otherwise
        if k.endswith("Stmt") and k not in ("DeclStmt",):
            self.err("statement kind %s is outside the supported subset" % k)
        # an expression statement
        self.expr(s, out)


def render(items, ind):
    pad = " " * ind
    lines = []
    for it in items:
        if it[0] == "act":
            lines.append("%s.act (%s)" % (pad, it[1]))
            continue
        if it[0] == "ite":
            s = "%s.ite %s" % (pad, lean_str(it[1]))
            branches = (it[2], it[3])
        else:
            s = "%s.sw %s" % (pad, lean_str(it[1]))
            branches = it[2]
        for br in branches:
            if br:
                s += "\n%s  [\n%s\n%s  ]" % (pad, render(br, ind + 4), pad)
            else:
                s += " []"
        lines.append(s)
    return ",\n".join(lines)


HEAD_DOC = """/-!
Statement skeletons of the `Connector` and `TcpClient` functions modelled in `Model/Client.lean` (and of
`detail::removeConnection` / `detail::removeConnector`): the significant actions in source order, `if`s as
`ite <guard> then else` named after the guard `Generated/Client.lean` took from that very condition (any other
condition is printed), the `switch (savedErrno)` of `Connector::connect` as `sw "connectTable" proceed retry giveUp`
(one branch per class of the generated table; all arms of a class perform the same actions or the extraction
stops).  A socket query made by a condition (`else if (sockets::isSelfConnect(sockfd))`) is the action before
that `ite`.  `Proofs/ClientSkelTie.lean` proves each skeleton equal to the one the model implements
(`Model/ClientSkelDecl.lean`).

Not part of a skeleton (the model abstracts from exactly these):
* I1 log statements (`LOG_*`; only value getters may be called inside one, anything else stops the extraction);
* I2 `loop_->assertInLoopThread()` - the model runs the `*InLoop` functions and callbacks on the loop thread by
  construction;
* I3 assertions over local variables only (none at present);
* I4 declarations of non-arithmetic locals whose initialiser performs no significant call and binds no functor
  (`TcpConnectionPtr conn;`, `char buf[32];`, `string connName = name_ + buf`), casts;
* I5 `MutexLockGuard lock(mutex_)` - the model is sequential, every function is one atomic step (lock discipline: C08);
* I6 an `if` none of whose branches contains a significant action;
* I7 `MUDUO_VERIF_POINT` (an empty `do { } while (0)`);
* I8 `snprintf` into a local buffer (the text of the connection's name; the model names a connection by its socket);
* I9 the `break` ending a switch arm (an arm that falls through stops the extraction).
Value getters (`channel_->fd()`, `serverAddr_.family()/getSockAddr()`, `conn->getLoop()`, `connection_.unique()`,
`shared_from_this()`, `std::min`, `errno`, a smart pointer or callback tested as a boolean, `==` of two pointers, `+`
of strings) are not actions; every other call must be in the vocabulary or the extraction fails.
-/
"""


def generate():
    client.generate()          # fills client.DOCS / SITES / SWITCHES for the tree as it is now
    docs, cdocs = client.DOCS["Connector"], client.DOCS["TcpClient"]
    ddocs = ast_dump("muduo/net/TcpClient.cc", "muduo::net::detail::remove")
    out = [HEADER % "muduo/net/Connector.cc, TcpClient.cc", "import MuduoVerif.Model.ClientSkelDecl\n", HEAD_DOC,
           "namespace MuduoVerif.Gen.ClientSkel", "open MuduoVerif.ClientSkel\n"]
    todo = [(f, "Connector", "Connector", the_function(docs, f)) for f in CONNECTOR_FUNCTIONS]
    from ..extract import functions
    missing = [f for f in OPTIONAL_CONNECTOR_FUNCTIONS if not functions(docs, f)]
    todo += [(f, "Connector", "Connector", the_function(docs, f)) for f in OPTIONAL_CONNECTOR_FUNCTIONS if f not in missing]
    todo += [(lean, "detail", "detail", the_function(ddocs, cxx)) for lean, cxx in DETAIL_FUNCTIONS]
    todo += [(lean, "TcpClient", "TcpClient", the_function(cdocs, cxx)) for lean, cxx in CLIENT_FUNCTIONS]
    for lean, tu, cls, fn in todo:
        w = Walker(tu, cls, fn["name"])
        items = []
        w.stmt(body_of(fn), items)
        ptypes = [ctype(k) for k in kids(fn) if k.get("kind") == "ParmVarDecl"]
        out.append("/-- `%s::%s(%s)` -/" % (cls, fn["name"], ", ".join(ptypes)))
        if items:
            out.append("def %s : List Skel :=\n  [\n%s\n  ]\n" % (lean, render(items, 4)))
        else:
            out.append("def %s : List Skel := []\n" % lean)
    for f in missing:
        out.append("/-- `Connector::%s`: not defined in the source -/\ndef %s : List Skel := []\n" % (f, f))
    out.append("end MuduoVerif.Gen.ClientSkel")
    return "\n".join(out) + "\n"
