"""T1 for the log back-end (C16): LogFile (roll / flush tests, period arithmetic, kRollPerSeconds_),
FileUtil::AppendFile::append (loop test, short-write test, accumulation), FixedBuffer::append's space test and the
buffer-size constants.  (AsyncLogging itself: vlib/gen/asynclog.py.)

Everything is read from the clang AST of the current sources; a site whose shape is not the expected
one raises ExtractError (reported as a broken tie), nothing is guessed.
"""
import re

from ..extract import (HEADER, ExtractError, Tr, ast_dump, body_of, const_int, ctype, desugared, find_ifs, functions,
                       if_cond, kids, locate_var, mentions, prop_def, strip, the_function, unparen, walk)

NAME = "LogFile"

# (translation unit, clang node id of an `if` / `while` condition) -> name of the guard generated from it (filled by generate(); read by
# vlib/gen/logfileskel.py so that both files always talk about the same site)
SITES = {}


def callee_name(call):
    ks = kids(call)
    if not ks:
        return None
    c = strip(ks[0])
    if c.get("kind") == "DeclRefExpr":
        return c["referencedDecl"]["name"]
    if c.get("kind") in ("MemberExpr", "CXXDependentScopeMemberExpr", "UnresolvedMemberExpr"):
        return c.get("name") or c.get("member")
    if c.get("kind") == "UnresolvedLookupExpr":
        return c.get("name")
    return None


class GuardTr(Tr):
    """`Tr` + the dependent forms clang leaves inside the template pattern of FixedBuffer"""

    def expr(self, n):
        m = strip(n)
        if m.get("kind") == "CallExpr":
            nm = callee_name(m)
            ks = kids(m)
            if nm in ("implicit_cast", "static_cast") and len(ks) == 2:
                return self.expr(ks[1])
            c = strip(ks[0])
            if c.get("kind") == "MemberExpr" and len(ks) == 1:
                base = kids(c)
                if not base or strip(base[0]).get("kind") == "CXXThisExpr":
                    return self.lookup(c["name"] + "()", m)
        return Tr.expr(self, n)


def one_if(fn, what, *names, then_mentions=None):
    c = [i for i in find_ifs(fn) if all(mentions(if_cond(i), nm) for nm in names)]
    if then_mentions is not None:
        c = [i for i in c if len(kids(i)) >= 2 and mentions(kids(i)[1], then_mentions)]
    if len(c) != 1:
        raise ExtractError("%s: expected exactly one `if` mentioning %s%s, found %d"
                           % (what, names, " whose branch mentions " + then_mentions if then_mentions else "", len(c)))
    return c[0]


def stmts(fn, kind):
    return [n for n in walk(body_of(fn)) if n.get("kind") == kind]


def calls_named(node, name):
    res = []
    for n in walk(node):
        if n.get("kind") in ("CXXMemberCallExpr", "CallExpr") and callee_name(n) == name:
            res.append(n)
    return res


def int_prop(name, params, body, doc):
    return prop_def(name, [(p, "Int") for p in params], body, doc)


def nat_prop(name, params, body, doc):
    return prop_def(name, [(p, "Nat") for p in params], body, doc)


def generate():
    SITES.clear()
    out = [HEADER % "muduo/base/LogFile.{h,cc}, FileUtil.cc, LogStream.h",
           "namespace MuduoVerif.Gen.LogFile\n"]

    # ------------------------------------------------------------------ LogFile
    lf = ast_dump("muduo/base/LogFile.cc", "muduo::LogFile")
    kroll = const_int(lf, "kRollPerSeconds_")
    consts = {"kRollPerSeconds_": "kRollPerSeconds"}
    out.append("def kRollPerSeconds : Int := %d\n" % kroll)

    au = the_function(lf, "append_unlocked")
    # the first statement must hand the record to the file before any test (roll happens after an append)
    first = kids(body_of(au))[0]
    if not (first.get("kind") in ("CXXMemberCallExpr", "ExprWithCleanups") and calls_named(first, "append")):
        raise ExtractError("LogFile::append_unlocked no longer starts with file_->append(...)")
    t = Tr({"file_.writtenBytes()": "written", "rollSize_": "rollSize"}, consts, int_mode=True)
    by_size = one_if(au, "append_unlocked", "rollSize_")
    SITES[("LogFile.cc", if_cond(by_size).get("id"))] = "rollBySize"
    out.append(int_prop("rollBySize", ["written", "rollSize"], unparen(t.expr(if_cond(by_size))),
                        "`LogFile::append_unlocked`: roll because of the size of the current file"))
    if not calls_named(kids(by_size)[1], "rollFile"):
        raise ExtractError("append_unlocked: the size test no longer guards rollFile()")
    if len(kids(by_size)) < 3:
        raise ExtractError("append_unlocked: the size test lost its else branch")
    els = kids(by_size)[2]
    # `++count_` precedes the test on count_
    incs = [n for n in walk(els) if n.get("kind") == "UnaryOperator" and n.get("opcode") == "++" and mentions(n, "count_")]
    if len(incs) != 1:
        raise ExtractError("append_unlocked: expected exactly one ++count_ in the else branch")
    t = Tr({"count_": "count", "checkEveryN_": "checkEveryN"}, consts, int_mode=True)
    chk = one_if(au, "append_unlocked", "count_", "checkEveryN_")
    SITES[("LogFile.cc", if_cond(chk).get("id"))] = "checkDue"
    out.append(int_prop("checkDue", ["count", "checkEveryN"], unparen(t.expr(if_cond(chk))),
                        "`LogFile::append_unlocked`: the clock is consulted (after `++count_`)"))
    resets = [n for n in walk(kids(chk)[1]) if n.get("kind") == "BinaryOperator" and n.get("opcode") == "="
              and mentions(kids(n)[0], "count_")]
    if len(resets) != 1 or strip(kids(resets[0])[1]).get("kind") != "IntegerLiteral":
        raise ExtractError("append_unlocked: count_ is no longer reset to a literal")
    out.append("/-- `LogFile::append_unlocked`: value `count_` is reset to when the clock is consulted -/\n"
               "def countReset : Int := %d\n" % int(strip(kids(resets[0])[1])["value"]))
    t = Tr({"now": "now"}, consts, int_mode=True)
    per = locate_var(au, "thisPeriod_")
    out.append("/-- `LogFile::append_unlocked`: `thisPeriod_` -/\ndef periodOf (now : Int) : Int := %s\n"
               % unparen(t.expr(kids(per)[-1])))
    t = Tr({"thisPeriod_": "thisPeriod", "startOfPeriod_": "startOfPeriod"}, consts, int_mode=True)
    pc = one_if(au, "append_unlocked", "thisPeriod_", "startOfPeriod_")
    SITES[("LogFile.cc", if_cond(pc).get("id"))] = "periodChanged"
    out.append(int_prop("periodChanged", ["thisPeriod", "startOfPeriod"], unparen(t.expr(if_cond(pc))),
                        "`LogFile::append_unlocked`: roll because a new period started"))
    if not calls_named(kids(pc)[1], "rollFile"):
        raise ExtractError("append_unlocked: the period test no longer guards rollFile()")
    t = Tr({"now": "now", "lastFlush_": "lastFlush", "flushInterval_": "flushInterval"}, consts, int_mode=True)
    fd = one_if(au, "append_unlocked", "lastFlush_", "flushInterval_")
    SITES[("LogFile.cc", if_cond(fd).get("id"))] = "flushDue"
    out.append(int_prop("flushDue", ["now", "lastFlush", "flushInterval"], unparen(t.expr(if_cond(fd))),
                        "`LogFile::append_unlocked`: flush because of the interval"))
    if not calls_named(kids(fd)[1], "flush"):
        raise ExtractError("append_unlocked: the interval test no longer guards flush()")

    rf = the_function(lf, "rollFile")
    t = Tr({"now": "now", "lastRoll_": "lastRoll"}, consts, int_mode=True)
    ifs = find_ifs(rf)
    if len(ifs) != 1:
        raise ExtractError("rollFile: expected exactly one `if`, found %d" % len(ifs))
    SITES[("LogFile.cc", if_cond(ifs[0]).get("id"))] = "rollAllowed"
    out.append(int_prop("rollAllowed", ["now", "lastRoll"], unparen(t.expr(if_cond(ifs[0]))),
                        "`LogFile::rollFile`: a new file is opened iff"))
    if not [n for n in walk(kids(ifs[0])[1]) if n.get("kind") == "CXXNewExpr"]:
        raise ExtractError("rollFile: the test no longer guards the creation of the file")
    st = locate_var(rf, "start")
    t = Tr({"now": "now"}, consts, int_mode=True)
    out.append("/-- `LogFile::rollFile`: `start` (becomes `startOfPeriod_`) -/\ndef rollStart (now : Int) : Int := %s\n"
               % unparen(t.expr(kids(st)[-1])))

    # ------------------------------------------------------------------ AppendFile::append
    fu = ast_dump("muduo/base/FileUtil.cc", "muduo::FileUtil::AppendFile")
    ap = the_function(fu, "append")
    whiles = stmts(ap, "WhileStmt")
    if len(whiles) != 1:
        raise ExtractError("AppendFile::append: expected exactly one loop")
    SITES[("FileUtil.cc", kids(whiles[0])[0].get("id"))] = "appendContinues"
    t = Tr({"written": "written", "len": "len", "remain": "remain", "n": "n"})
    out.append(nat_prop("appendContinues", ["written", "len"], unparen(t.expr(kids(whiles[0])[0])),
                        "`AppendFile::append`: the loop continues while"))
    rem = locate_var(ap, "remain")
    out.append("/-- `AppendFile::append`: `remain` -/\ndef appendRemain (len : Nat) (written : Nat) : Nat := %s\n"
               % unparen(t.expr(kids(rem)[-1])))
    nvar = locate_var(ap, "n")
    wcall = strip(kids(nvar)[-1])
    if callee_name(wcall) != "write" or len(kids(wcall)) != 3:
        raise ExtractError("AppendFile::append: `n` is no longer the result of write(p, k)")
    # the request: logline + written, remain
    a0, a1 = strip(kids(wcall)[1]), strip(kids(wcall)[2])
    if not (a0.get("kind") == "BinaryOperator" and a0.get("opcode") == "+" and mentions(a0, "logline") and mentions(a0, "written")):
        raise ExtractError("AppendFile::append: write() no longer starts at logline + written")
    tt = Tr({"written": "written", "logline": "0"})
    out.append("/-- `AppendFile::append`: offset of the write request inside the record -/\n"
               "def appendOffset (written : Nat) : Nat := %s\n" % unparen(tt.expr(a0)))
    out.append("/-- `AppendFile::append`: length of the write request -/\n"
               "def appendRequest (remain : Nat) : Nat := %s\n" % unparen(t.expr(a1)))
    short = one_if(ap, "AppendFile::append", "n", "remain")
    SITES[("FileUtil.cc", if_cond(short).get("id"))] = "appendShort"
    out.append(nat_prop("appendShort", ["n", "remain"], unparen(t.expr(if_cond(short))),
                        "`AppendFile::append`: the error flag of the stream is consulted iff"))
    errs = [i for i in find_ifs(ap) if mentions(if_cond(i), "err")]
    if len(errs) != 1 or not [n for n in walk(kids(errs[0])[1]) if n.get("kind") == "BreakStmt"]:
        raise ExtractError("AppendFile::append: `if (err)` no longer leaves the loop")
    if not [n for n in walk(kids(short)[1]) if n is errs[0]]:
        raise ExtractError("AppendFile::append: the error test is no longer inside the short-write test")
    # accumulation inside the loop, after the test
    acc = [n for n in walk(kids(whiles[0])[1]) if n.get("kind") in ("CompoundAssignOperator", "BinaryOperator")
           and n.get("opcode") in ("+=", "=") and strip(kids(n)[0]).get("kind") == "DeclRefExpr"
           and strip(kids(n)[0])["referencedDecl"]["name"] == "written"]
    if len(acc) != 1:
        raise ExtractError("AppendFile::append: expected exactly one assignment to `written` in the loop")
    rhs = t.expr(kids(acc[0])[1])
    out.append("/-- `AppendFile::append`: `written` after one more write of `n` bytes -/\n"
               "def appendAdvance (written : Nat) (n : Nat) : Nat := %s\n"
               % (("written + %s" % rhs) if acc[0]["opcode"] == "+=" else unparen(rhs)))
    tot = [n for n in walk(body_of(ap)) if n.get("kind") in ("CompoundAssignOperator", "BinaryOperator")
           and n.get("opcode") in ("+=", "=") and mentions(kids(n)[0], "writtenBytes_")]
    if len(tot) != 1:
        raise ExtractError("AppendFile::append: expected exactly one assignment to writtenBytes_")
    if [n for n in walk(kids(whiles[0])[1]) if n is tot[0]]:
        raise ExtractError("AppendFile::append: writtenBytes_ is now updated inside the loop")
    tw = Tr({"written": "written", "writtenBytes_": "total"}, int_mode=True)
    rhs = tw.expr(kids(tot[0])[1])
    out.append("/-- `AppendFile::append`: `writtenBytes_` after the loop -/\n"
               "def appendTotal (total : Int) (written : Int) : Int := %s\n"
               % (("total + %s" % rhs) if tot[0]["opcode"] == "+=" else unparen(rhs)))

    # ------------------------------------------------------------------ buffers
    ls = ast_dump("muduo/base/LogStream.cc", "muduo::detail")
    out.append("def kSmallBuffer : Nat := %d" % const_int(ls, "kSmallBuffer"))
    out.append("def kLargeBuffer : Nat := %d\n" % const_int(ls, "kLargeBuffer"))
    app = [f for f in functions(ls, "append")
           if len([k for k in kids(f) if k["kind"] == "ParmVarDecl"]) == 2 and mentions(body_of(f), "memcpy")]
    guards = set()
    for f in app:
        g = GuardTr({"avail()": "avail", "len": "len"})
        ifs = find_ifs(f)
        if len(ifs) != 1 or len(kids(ifs[0])) != 2:
            raise ExtractError("FixedBuffer::append: expected a single `if` without else")
        guards.add(unparen(g.expr(if_cond(ifs[0]))))
    if len(guards) != 1:
        raise ExtractError("FixedBuffer::append: expected one guard, found %s" % sorted(guards))
    out.append(nat_prop("fixedAppendFits", ["avail", "len"], guards.pop(),
                        "`FixedBuffer::append`: the bytes are copied iff (otherwise the call does nothing)"))

    # ------------------------------------------------------------------ thread-safe wrappers
    # `append` and `flush` are the only public entry points that touch the file; with threadSafe=true both must do
    # all their work under *mutex_ (AppendFile writes with fwrite_unlocked: the stdio lock protects nothing)
    def wrapper_locks(name, inner):
        fn = the_function(lf, name)
        stmts = [k for k in kids(body_of(fn))]
        ifs = [k for k in stmts if k.get("kind") == "IfStmt"]
        others = [k for k in stmts if k.get("kind") != "IfStmt" and any(x.get("kind") in ("CXXMemberCallExpr", "CallExpr") for x in walk(k))]
        if len(ifs) != 1 or others or not mentions(if_cond(ifs[0]), "mutex_"):
            return False
        then = kids(ifs[0])[1]
        tk = [k for k in kids(then)] if then.get("kind") == "CompoundStmt" else [then]
        # first statement of the locked branch declares the guard, the work follows it in the same block
        if not tk or tk[0].get("kind") != "DeclStmt" or "MutexLockGuard" not in str(tk[0]):
            return False
        return any(calls_named(k, inner) for k in tk[1:])
    out.append("/-- `LogFile::append` does its work (`append_unlocked`) under `*mutex_` when the file is thread safe -/\n"
               "def appendLocks : Bool := %s\n" % ("true" if wrapper_locks("append", "append_unlocked") else "false"))
    out.append("/-- `LogFile::flush` flushes under `*mutex_` when the file is thread safe -/\n"
               "def flushLocks : Bool := %s\n" % ("true" if wrapper_locks("flush", "flush") else "false"))
    out.append("end MuduoVerif.Gen.LogFile\n")
    return "\n".join(out)
