"""T1 for LogStream / Logging (C17), second part - STATEMENT SKELETONS of the functions of muduo/base/LogStream.{h,cc}
and Logging.cc that Model/LogStream.lean implements, from clang's AST of /repo's current sources.

vlib/gen/logstream.py extracts the constants, the digit tables, every space guard, the printf formats, the pieces a log
line is assembled from (incl. the statement list of `Logger::Impl::Impl`, `implSteps` - NOT repeated here) and the
branch tables of formatSI / formatIEC; what it cannot see is the ORDER and NESTING of the statements of the other
functions (the digit stored before the division, `do .. while` turned into `while`, the sign appended before the
loop or after the reverse, `add(len)` outside the space test, `cur_ += len` before the copy, the cached second stored
outside the cache-miss branch, `g_output` before `finish()`, the FATAL tail ...).  This module walks each function body
in source order and emits a tree

    Skel ::= act Act | ite <guard> <then> <else> | loop <whileDo | doWhile> <guard> <body>

(vocabulary: lean/MuduoVerif/Model/LogStreamSkelDecl.lean; walker: vlib/logskel_common.py).  Actions: stores to members,
globals and through pointers (`x += e` is the store of `x + e`), initialised locals and assignments to locals, calls of
other functions of the engine (`convert`, `formatInteger`, `buffer_.append`, `buffer_.add`, `operator<<(T)`,
`impl_.finish`, `g_output` ...), libc calls (`memcpy`, `snprintf`, `std::reverse`, `abort`), insertion chains into
`stream_` (`ins <pieces>`, the pieces printed by vlib/gen/logstream.py's own `piece`), the `snprintf` of a
formatSI / formatIEC branch (`fmtRow <buffer> <bound> <table row>`), assertions, `return <value>`.  An `if` is named
after the guard / table row vlib/gen/logstream.py generated from that very condition (its registries
`logstream.SITES`, `logstream.ROWS`, keyed by translation unit and clang node id); any other condition is printed.
A function template (`convert`, `formatInteger`, `Fmt::Fmt`) and a member of the class template `FixedBuffer` is
extracted from every instantiation; they must all give the same skeleton.

Lean side: Model/LogStreamSkelDecl.lean declares the skeleton each model function implements;
Proofs/LogStreamSkelTie.lean proves `Gen.LogStreamSkel.<fn> = Decl.<fn>` by `decide`; Props/C17.lean re-exports the
conjunction (`statement_order_tied`).

Never guesses: every call must be classified (value getter / engine call / libc call) by the type of the object it is
made on or by its name; an action call nested inside another expression, an assignment inside an expression, an
insertion chain with an operand `logstream.piece` does not know, a statement kind outside {compound, if, while, do,
break, return, declaration, expression, empty}, a lambda -> ExtractError.

IGNORED (the model abstracts from exactly these; listed again in the header of the generated file):
  I1  (no log statement or diagnostic output occurs in these functions; one would stop the extraction)
  I2  declarations of locals without an initialiser or default-constructed (`char buf[64]`, `struct DateTime dt`):
      storage only
  I3  casts of every kind (`static_cast<int>(i % 10)`, `static_cast<double>(s)`, `reinterpret_cast<uintptr_t>(p)`,
      `implicit_cast<size_t>(avail())`, implicit conversions, temporaries), `(void)len`
  I4  the base-class initialiser and default-constructed members of a constructor
  I5  `static_assert` (compile time), `MUDUO_VERIF_POINT` (an empty `do { } while (0)`), empty statements
NOT extracted: `Logger::Impl::Impl` (its statement list is `Gen.LogStream.implSteps`, executed by the model), the
`Logger` constructors (`funcPieces`; the others must have empty bodies - vlib/gen/logstream.py), the getters of
`FixedBuffer` / `Fmt`, `debugString`, the cookies, `staticCheck`.
"""
from ..extract import HEADER, ExtractError, ast_dump, kids
from ..logskel_common import (Engine, Walker, callee_name, index_functions, is_dependent, lean_str, param_types, peel,
                              pick, render, signatures_of, skeleton_of, type_name_keep)
from . import logstream

NAME = "LogStreamSkel"


class LogStreamEngine(Engine):
    methods = {
        "LogStream": {"value": ("buffer",), "call": ("append",)},
        "FixedBuffer": {"value": ("avail", "current", "length", "data", "end", "toStringPiece", "toString"),
                        "call": ("append", "add", "reset")},
        "Fmt": {"value": ("data", "length")},
        "T": {"value": ()},
        "Impl": {"value": (), "call": ("finish", "formatTime")},
        "Logger": {"value": ("stream",)},
        "Timestamp": {"value": ("microSecondsSinceEpoch",)},
        "TimeZone": {"value": ("valid", "toLocalTime")},
        "string": {"value": ("c_str", "size", "data", "length")},
        "StringPiece": {"value": ("data", "size")},
    }
    free_value = ("strlen", "toUtcTime")
    free_call = ("convert", "convertHex", "g_output", "g_flush")
    free_sys = ("memcpy", "snprintf", "reverse", "abort")
    storage_types = ("DateTime",)
    object_types = ("Fmt",)


class LSWalker(Walker):
    tu = None

    def special_stmt(self, n, out):
        k = n.get("kind")
        if k == "CallExpr" and (self.tu, n.get("id")) in logstream.ROWS:
            args = kids(n)[1:]
            if callee_name(n) != "snprintf" or len(args) < 3:
                self.err("a formatSI / formatIEC branch that is not a snprintf call")
            out.append(("act", ".fmtRow %s %s %s" % (lean_str(self.pp(args[0])), lean_str(self.pp(args[1])),
                                                     lean_str(logstream.ROWS[(self.tu, n["id"])]))))
            return True
        if k == "CXXOperatorCallExpr" and callee_name(n) == "operator<<" and len(kids(n)) == 3:
            root = n
            while root.get("kind") == "CXXOperatorCallExpr" and callee_name(root) == "operator<<" and len(kids(root)) == 3:
                root = peel(kids(root)[1])
            if root.get("kind") == "MemberExpr" and root.get("name") == "stream_" and \
                    (not kids(root) or peel(kids(root)[0]).get("kind") == "CXXThisExpr"):
                ps = [logstream.piece(x) for x in logstream.chain(n)]   # raises on an operand it does not know
                out.append(("act", ".ins [%s]" % ", ".join(ps)))
                return True
            if root.get("kind") == "UnaryOperator" and root.get("opcode") == "*" and \
                    peel(kids(root)[0]).get("kind") == "CXXThisExpr":
                if peel(kids(n)[1]) is not root:
                    self.err("a chain of insertions into `*this`")
                callee = peel(kids(n)[0])
                sig = self.signatures.get(callee.get("referencedDecl", {}).get("id"))
                if sig is None:
                    self.err("cannot tell which overload of `operator<<` is called")
                out.append(("act", ".call %s %s" % (lean_str("operator<<(%s)" % ", ".join(type_name_keep(t) for t in sig)),
                                                   lean_str(self.pp(kids(n)[2])))))
                return True
            self.err("an insertion chain that starts neither at `stream_` nor at `*this`")
        return False


# (Lean name, translation unit key, owner class or None, C++ name, parameter types or None, how the doc comment names it)
FUNCTIONS = [
    # LogStream.h
    ("bufAppend", "LogStream.cc", "FixedBuffer", "append", None),
    ("bufAdd", "LogStream.cc", "FixedBuffer", "add", None),
    ("bufReset", "LogStream.cc", "FixedBuffer", "reset", None),
    ("insBool", "LogStream.cc", "LogStream", "operator<<", ["bool"]),
    ("insFloat", "LogStream.cc", "LogStream", "operator<<", ["float"]),
    ("insChar", "LogStream.cc", "LogStream", "operator<<", ["char"]),
    ("insCStr", "LogStream.cc", "LogStream", "operator<<", ["const char *"]),
    ("insUCStr", "LogStream.cc", "LogStream", "operator<<", ["const unsigned char *"]),
    ("insString", "LogStream.cc", "LogStream", "operator<<", ["const std::string &"]),
    ("insPiece", "LogStream.cc", "LogStream", "operator<<", ["const muduo::StringPiece &"]),
    ("insBuffer", "LogStream.cc", "LogStream", "operator<<", ["const muduo::LogStream::Buffer &"]),
    ("streamAppend", "LogStream.cc", "LogStream", "append", None),
    ("resetBuffer", "LogStream.cc", "LogStream", "resetBuffer", None),
    ("insFmt", "LogStream.cc", None, "operator<<", ["muduo::LogStream &", "const muduo::Fmt &"]),
    # LogStream.cc
    ("convert", "LogStream.cc", None, "convert", None),
    ("convertHex", "LogStream.cc", None, "convertHex", None),
    ("formatSI", "LogStream.cc", None, "formatSI", None),
    ("formatIEC", "LogStream.cc", None, "formatIEC", None),
    ("formatInteger", "LogStream.cc", "LogStream", "formatInteger", None),
    ("insShort", "LogStream.cc", "LogStream", "operator<<", ["short"]),
    ("insUShort", "LogStream.cc", "LogStream", "operator<<", ["unsigned short"]),
    ("insInt", "LogStream.cc", "LogStream", "operator<<", ["int"]),
    ("insUInt", "LogStream.cc", "LogStream", "operator<<", ["unsigned int"]),
    ("insLong", "LogStream.cc", "LogStream", "operator<<", ["long"]),
    ("insULong", "LogStream.cc", "LogStream", "operator<<", ["unsigned long"]),
    ("insLongLong", "LogStream.cc", "LogStream", "operator<<", ["long long"]),
    ("insULongLong", "LogStream.cc", "LogStream", "operator<<", ["unsigned long long"]),
    ("insPointer", "LogStream.cc", "LogStream", "operator<<", ["const void *"]),
    ("insDouble", "LogStream.cc", "LogStream", "operator<<", ["double"]),
    ("fmtCtor", "LogStream.cc", "Fmt", "Fmt", None),
    # Logging.cc
    ("tCtor", "Logging.cc", "T", "T", None),
    ("insT", "Logging.cc", None, "operator<<", ["muduo::LogStream &", "muduo::T"]),
    ("insSourceFile", "Logging.cc", None, "operator<<", ["muduo::LogStream &", "const Logger::SourceFile &"]),
    ("formatTime", "Logging.cc", "Impl", "formatTime", None),
    ("finish", "Logging.cc", "Impl", "finish", None),
    ("loggerDtor", "Logging.cc", "Logger", "~Logger", None),
]

# Used ONLY when vlib/gen/logstream.py stopped with an ExtractError (reported as such by the engine "LogStream") before
# it had registered all its sites: the canonical print each site has on the tree logstream.py accepts (the three numeric
# operators test the same expression: there the function decides).  A condition it had not reached and that prints
# exactly like this keeps the site's name, so that the functions the change did not touch still tie and the broken
# `skeleton_<fn>` theorems name the changed function(s) only.
FALLBACK_SITES = {"avail() > len": "appendFits", "buffer_.avail() >= kMaxNumericSize": None,
                  "seconds != t_lastSecond || zoneGen != t_lastZoneGen": "cacheMiss"}
FALLBACK_BY_FUNCTION = {"formatInteger": "integerFits", "insPointer": "pointerFits", "insDouble": "doubleFits"}

HEAD_DOC = """/-!
Statement skeletons of the functions of `muduo/base/LogStream.{h,cc}` and `Logging.cc` modelled in
`Model/LogStream.lean`: the significant actions in source order - stores to members, globals and through pointers
(`x += e` is the store of `x + e`), initialised locals and assignments to locals (`assign`), calls of other functions of
the engine (`call`; an overloaded `operator<<` is named with its parameter type), libc calls (`sys`), insertion chains
into `stream_` (`ins <pieces>`, in the `Piece` vocabulary of `Generated/LogStream.lean`), the `snprintf` of a
formatSI / formatIEC branch (`fmtRow <buffer> <bound> <row>`), assertions, `return <value>` - with every expression
printed canonically (casts and smart-pointer dereferences dropped, minimal parentheses).  An `if` is
`ite <guard> then else`, a `do .. while` is `loop .doWhile <guard> body`; a guard is named after the definition / table
row `Generated/LogStream.lean` took from that very condition (`siRow<i>` / `iecRow<i>`: the i-th test of the cascade,
`i = 0` the integer branch, `i >= 1` row `i - 1` of `siTable` / `iecTable`); any other condition is printed.
`<result>` is the value of the action just before it.  Function templates and members of `FixedBuffer<SIZE>` are
extracted from every instantiation (all agree).  `Proofs/LogStreamSkelTie.lean` proves each one equal to the skeleton
the model implements (`Model/LogStreamSkelDecl.lean`).

Not part of a skeleton (the model abstracts from exactly these):
* I1 (no log statement or diagnostic output occurs in these functions; one would stop the extraction);
* I2 declarations of locals without an initialiser or default-constructed (`char buf[64]`, `struct DateTime dt`);
* I3 casts of every kind (`static_cast<int>(i % 10)`, `static_cast<double>(s)`, `reinterpret_cast<uintptr_t>(p)`,
  `implicit_cast<size_t>(avail())`, implicit conversions, temporaries), `(void)len`;
* I4 the base-class initialiser and default-constructed members of a constructor;
* I5 `static_assert`, `MUDUO_VERIF_POINT` (an empty `do { } while (0)`), empty statements.
Value getters (`avail()`, `current()`, `length()`, `data()`, `toStringPiece()`, `buffer()`, `stream()`, `c_str()`,
`size()`, `strlen`, `microSecondsSinceEpoch()`, `g_logTimeZone.valid()/toLocalTime()`, `TimeZone::toUtcTime`, reads of
`g_logTimeZoneGen`) are printed inside the expression that uses them; every other call must be classified as an action
of the vocabulary or the extraction fails.
Not extracted: `Logger::Impl::Impl` (its statement list is `Gen.LogStream.implSteps`, which the model executes), the
`Logger` constructors (`funcPieces`), the getters, `debugString`, the cookies, `staticCheck`.
-/
"""


def generate():
    fallback = {}
    try:
        logstream.generate()       # fills logstream.SITES / ROWS for the tree as it is now (same cached AST dumps)
    except ExtractError:
        fallback = {k: v for k, v in FALLBACK_SITES.items() if v}   # reported by the engine "LogStream" itself
        # the sites registered so far stay; the two cascades register their rows on their own
        for table in (logstream.si_table, logstream.iec_table):
            try:
                table(ast_dump("muduo/base/LogStream.cc", "muduo"))
            except ExtractError:
                pass
    docs = {"LogStream.cc": ast_dump("muduo/base/LogStream.cc", "muduo"), "Logging.cc": ast_dump("muduo/base/Logging.cc", "muduo")}
    dumps = {tu: index_functions(d) for tu, d in docs.items()}
    sigs = {tu: signatures_of(d) for tu, d in docs.items()}
    out = [HEADER % "muduo/base/LogStream.h, LogStream.cc, Logging.cc", "import MuduoVerif.Model.LogStreamSkelDecl\n", HEAD_DOC,
           "namespace MuduoVerif.Gen.LogStreamSkel", "open MuduoVerif.LogStreamSkel MuduoVerif.Gen.LogStream\n"]
    for lean, tu, owner, cxx, ptypes in FUNCTIONS:
        fs = [f for f in pick(dumps[tu], owner, cxx, ptypes) if not is_dependent(f)]
        if not fs:
            raise ExtractError("no (non-dependent) definition of %s%s found" % (owner + "::" if owner else "", cxx))
        sites = {i: nm for (t, i), nm in logstream.SITES.items() if t == tu}
        fb = dict(fallback)
        if fallback and lean in FALLBACK_BY_FUNCTION:
            fb["buffer_.avail() >= kMaxNumericSize"] = FALLBACK_BY_FUNCTION[lean]
        skels = []
        for f in fs:
            LSWalker.tu = tu
            skels.append(skeleton_of(LSWalker, LogStreamEngine, owner, f, sites, fb, sigs[tu]))
        if any(s != skels[0] for s in skels[1:]):
            raise ExtractError("the %d instantiations of %s%s do not have the same statement skeleton"
                               % (len(fs), owner + "::" if owner else "", cxx))
        sig = sorted(set("(%s)" % ", ".join(param_types(f)) for f in fs))
        what = "%s%s%s" % (owner + "::" if owner else "", cxx, sig[0] if len(sig) == 1 else "<..> - %d instantiations, all agree" % len(fs))
        if len(sig) == 1 and len(fs) > 1:
            what += " - %d instantiations, all agree" % len(fs)
        out.append("/-- `%s` -/" % what)
        if skels[0]:
            out.append("def %s : List Skel :=\n  [\n%s\n  ]\n" % (lean, render(skels[0], 4)))
        else:
            out.append("def %s : List Skel := []\n" % lean)
    out.append("end MuduoVerif.Gen.LogStreamSkel")
    return "\n".join(out) + "\n"
