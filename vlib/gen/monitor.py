"""T1 for C14/C15 — "monitor skeletons" and guards of BlockingQueue, BoundedBlockingQueue,
CountDownLatch and ThreadPool, from clang's AST of /repo's current sources.

Per method: (a) the statement skeleton as a flat token list (`lock`, `unlock` at the end of the guard's
scope, `whileWait c` / `ifWait c` for a loop/branch whose body is `c.wait()`, `notify c`, `notifyAll c`,
`act "<verb> <members touched>"` for every other statement that touches the object, `ifBegin/elseBegin/
ifEnd`, `whileBegin/whileEnd`, `forBegin/forEnd`, `point` for MUDUO_VERIF_POINT, `ret`) — so the lock
scope, `while` vs `if` around a wait, the condition waited on, notify vs notifyAll, the position of a
notify relative to the mutation and reads outside the lock are all visible in the token order;
(b) every `while`/`if` condition translated through a per-class symbol map into a Lean `Prop` guard
`<method>_g<i>` that the model calls.  The transition systems (Model/Monitor.lean, Model/TPool.lean)
read what a method does off its skeleton (`waitOf`: is there a wait, `while` or `if`, on which condition;
`notifsOf`: which notify/notifyAll, in order) and call the generated guards; Proofs/MonitorTie.lean and
Proofs/TPoolTie.lean declare the skeleton the proofs are about (`Declared.*`) and show the extracted one
equal to it by `decide`.
"""
import os

from ..common import BUILD, write_if_changed
from ..extract import (HEADER, ExtractError, Tr, ast_dump, body_of, ctype, kids, prop_def, strip, tree_hash, unparen, walk)

NAME = "Monitor"

INST = """#include "muduo/base/BlockingQueue.h"
#include "muduo/base/BoundedBlockingQueue.h"
template class muduo::BlockingQueue<int>;
template class muduo::BoundedBlockingQueue<int>;
"""


class MTr(Tr):
    """`f` (std::function) and atomics used as a condition: key of the object itself"""

    def atom_key(self, n):
        if n.get("kind") == "CXXMemberCallExpr" and len(kids(n)) == 1:
            callee = strip(kids(n)[0])
            if callee.get("kind") == "MemberExpr" and callee.get("name", "").startswith("operator bool") and kids(callee):
                return self.atom_key(strip(kids(callee)[0]))
        return Tr.atom_key(self, n)


def is_assert(n):
    n = strip(n)
    if n.get("kind") != "ConditionalOperator":
        return False
    return any(x.get("referencedDecl", {}).get("name") in ("__assert_fail", "__assert_perror_fail") for x in walk(n))


def this_members(n):
    """names of fields / methods of `this` mentioned in n (in order of first appearance)"""
    out = []
    for x in walk(n):
        if x.get("kind") == "MemberExpr" and kids(x) and strip(kids(x)[0]).get("kind") == "CXXThisExpr":
            if x["name"] not in out:
                out.append(x["name"])
    return out


def member_call(n):
    """(member-of-this, method) for `member_.method(...)`, else None"""
    n = strip(n)
    if n.get("kind") != "CXXMemberCallExpr":
        return None
    callee = strip(kids(n)[0])
    if callee.get("kind") != "MemberExpr" or not kids(callee):
        return None
    base = strip(kids(callee)[0])
    if base.get("kind") == "MemberExpr" and kids(base) and strip(kids(base)[0]).get("kind") == "CXXThisExpr":
        return base["name"], callee["name"], ctype(base)
    return None


def cond_call(n):
    mc = member_call(n)
    if mc and "Condition" in mc[2] and mc[1] in ("wait", "notify", "notifyAll", "waitForSeconds"):
        return mc[0], mc[1]
    return None


def verb(n):
    n = strip(n)
    k = n.get("kind")
    if k == "CXXMemberCallExpr":
        callee = strip(kids(n)[0])
        return callee.get("name", "call")
    if k == "CXXOperatorCallExpr":
        op = strip(kids(n)[0])
        return op.get("referencedDecl", {}).get("name", "operator")
    if k in ("UnaryOperator", "BinaryOperator", "CompoundAssignOperator"):
        return n.get("opcode", "op")
    if k == "CallExpr":
        callee = strip(kids(n)[0])
        return callee.get("referencedDecl", {}).get("name", "call")
    if k == "DeclStmt":
        return "decl " + ",".join(v.get("name", "?") for v in kids(n) if v.get("kind") == "VarDecl")
    if k == "ReturnStmt":
        return "return"
    return k or "?"


def only_wait(body):
    """the condition waited on when `body` is just `c.wait();` (possibly in braces), else None"""
    b = strip(body)
    stmts = kids(b) if b.get("kind") == "CompoundStmt" else [b]
    stmts = [s for s in stmts if not is_assert(s)]
    if len(stmts) == 1:
        cc = cond_call(stmts[0])
        if cc and cc[1] == "wait":
            return cc[0]
    return None


class Skel:
    def __init__(self, cls, method, sym, int_mode=False):
        self.cls, self.method, self.sym, self.int_mode = cls, method, sym, int_mode
        self.tokens, self.guards = [], []

    def guard(self, cond):
        tr = MTr(self.sym, int_mode=False)
        self.guards.append(unparen(tr.expr(cond)))

    def stmt(self, s):
        s0 = strip(s)
        k = s0.get("kind")
        if k in ("NullStmt",) or is_assert(s0):
            return
        if k == "CompoundStmt":
            self.block(s0)
            return
        if k == "CXXTryStmt":
            self.block(kids(s0)[0])
            return
        if k == "DoStmt":
            body = kids(s0)[0]
            if body.get("kind") == "CompoundStmt" and not kids(body):
                self.tokens.append('.point')
                return
            raise ExtractError("%s::%s: a do-loop that is not a MUDUO_VERIF_POINT" % (self.cls, self.method))
        if k == "DeclStmt":
            vs = [v for v in kids(s0) if v.get("kind") == "VarDecl"]
            if len(vs) == 1 and "MutexLockGuard" in ctype(vs[0]):
                m = this_members(vs[0])
                if m != ["mutex_"]:
                    raise ExtractError("%s::%s: lock guard on %s" % (self.cls, self.method, m))
                self.tokens.append(".lock")
                return "locked"
            touched = this_members(s0)
            if touched:
                self.tokens.append('.act "%s %s"' % (verb(s0), " ".join(touched)))
            return
        if k == "WhileStmt":
            cond, body = kids(s0)[0], kids(s0)[-1]
            w = only_wait(body)
            self.guard(cond)
            if w is not None:
                self.tokens.append('.whileWait "%s"' % w)
            else:
                self.tokens.append(".whileBegin")
                self.stmt(body)
                self.tokens.append(".whileEnd")
            return
        if k == "IfStmt":
            ks = kids(s0)
            cond, then = ks[0], ks[1]
            els = ks[2] if len(ks) > 2 else None
            self.guard(cond)
            w = only_wait(then)
            if w is not None and els is None:
                self.tokens.append('.ifWait "%s"' % w)
                return
            self.tokens.append(".ifBegin")
            self.stmt(then)
            if els is not None:
                self.tokens.append(".elseBegin")
                self.stmt(els)
            self.tokens.append(".ifEnd")
            return
        if k in ("ForStmt", "CXXForRangeStmt"):
            self.tokens.append(".forBegin")
            self.stmt(kids(s0)[-1])
            self.tokens.append(".forEnd")
            return
        if k == "ReturnStmt":
            touched = this_members(s0)
            if touched:
                inner = strip(kids(s0)[0])
                v = verb(inner) + " " if inner.get("kind") in ("CXXMemberCallExpr", "CXXOperatorCallExpr", "CallExpr") else ""
                self.tokens.append('.act "return %s%s"' % (v, " ".join(touched)))
            self.tokens.append(".ret")
            return
        cc = cond_call(s0)
        if cc:
            self.tokens.append('.%s "%s"' % ({"wait": "wait", "notify": "notify", "notifyAll": "notifyAll",
                                              "waitForSeconds": "timedWait"}[cc[1]], cc[0]))
            return
        touched = this_members(s0)
        # calls on locals that matter (task(), thr->join()): keep the verb even without a member of this
        if touched or verb(s0) in ("operator()", "join", "start"):
            self.tokens.append('.act "%s"' % (verb(s0) + (" " + " ".join(touched) if touched else "")))

    def block(self, comp):
        locked = False
        for s in kids(comp):
            if self.stmt(s) == "locked":
                locked = True
        if locked:
            self.tokens.append(".unlock")


def methods_of(docs, cls, spec):
    """{name: [definitions]} of class `cls` (the explicit instantiation when `spec`)"""
    res = {}
    for d in docs:
        for n in walk(d):
            if n.get("kind") == ("ClassTemplateSpecializationDecl" if spec else "CXXRecordDecl") and n.get("name") == cls:
                for m in kids(n):
                    if m.get("kind") == "CXXMethodDecl" and body_of(m) is not None:
                        res.setdefault(m["name"], [])
                        if m.get("id") not in [x.get("id") for x in res[m["name"]]]:
                            res[m["name"]].append(m)
            elif (not spec and n.get("kind") == "CXXMethodDecl" and body_of(n) is not None
                  and any(p.get("kind") == "CXXRecordDecl" for p in []) is False):
                pass
    return res


def out_of_line(docs, cls):
    """out-of-line definitions `Cls::m` in a .cc file"""
    res = {}
    for d in docs:
        for n in walk(d):
            if n.get("kind") == "CXXMethodDecl" and body_of(n) is not None:
                # an out-of-line definition carries parentDeclContextId / previousDecl; accept all with a body
                res.setdefault(n["name"], [])
                if n.get("id") not in [x.get("id") for x in res[n["name"]]]:
                    res[n["name"]].append(n)
    return res


def pick(defs, cls, name, overload=None):
    c = defs.get(name, [])
    if overload is not None:
        def ptype(f):
            ps = [k for k in kids(f) if k.get("kind") == "ParmVarDecl"]
            return ctype(ps[0]) if ps else ""
        c = [f for f in c if (("&&" in ptype(f)) == (overload == "move"))]
    if len(c) != 1:
        raise ExtractError("expected exactly one definition of %s::%s%s, found %d" % (cls, name, " (%s)" % overload if overload else "", len(c)))
    return c[0]


QSYM = {"queue_.empty()": "(size = 0)", "queue_.full()": "(size = cap)", "queue_.size()": "size", "queue_.capacity()": "cap"}
LSYM = {"count_": "count"}
PSYM = {"queue_.empty()": "(size = 0)", "queue_.size()": "size", "maxQueueSize_": "maxq", "running_": "(running = true)",
        "isFull()": "(pool_isFull_ret size maxq)", "threads_.empty()": "(nthreads = 0)", "task": "(taskValid = true)",
        "threadInitCallback_": "(initCb = true)", "numThreads": "numThreads"}

QPARAMS = [("size", "Nat"), ("cap", "Nat")]
LPARAMS = [("count", "Int")]
PPARAMS = [("size", "Nat"), ("maxq", "Nat"), ("nthreads", "Nat"), ("numThreads", "Nat"), ("running", "Bool"),
           ("taskValid", "Bool"), ("initCb", "Bool")]


def emit(out, lean_name, cls, fn, sym, params, where):
    sk = Skel(cls, fn["name"], sym)
    sk.block(body_of(fn))
    out.append("/-- skeleton of `%s::%s` (%s) -/" % (cls, fn["name"], where))
    out.append("def %s : List Stmt :=\n  [%s]\n" % (lean_name, ", ".join(sk.tokens)))
    for i, g in enumerate(sk.guards, 1):
        out.append(prop_def("%s_g%d" % (lean_name, i), params, g, "condition %d of `%s::%s`" % (i, cls, fn["name"])))
    return sk


def generate():
    tu_dir = os.path.join(BUILD, "monitor_tu")
    os.makedirs(tu_dir, exist_ok=True)
    tu = os.path.join(tu_dir, "inst.cc")
    write_if_changed(tu, INST)
    out = [HEADER % "BlockingQueue.h, BoundedBlockingQueue.h, CountDownLatch.cc, ThreadPool.cc",
           "import MuduoVerif.Model.MonitorSkel\n", "set_option linter.unusedVariables false\n", "namespace MuduoVerif.Generated.Monitor", "open MuduoVerif.MonitorSkel\n"]

    qdocs = ast_dump(tu, "BlockingQueue")
    bq = methods_of(qdocs, "BlockingQueue", True)
    bbq = methods_of(qdocs, "BoundedBlockingQueue", True)
    if not bq or not bbq:
        raise ExtractError("the explicit instantiations of BlockingQueue<int>/BoundedBlockingQueue<int> were not found")
    for lean, cls, defs, name, ovl in (
            ("bq_put_copy", "BlockingQueue", bq, "put", "copy"), ("bq_put_move", "BlockingQueue", bq, "put", "move"),
            ("bq_take", "BlockingQueue", bq, "take", None), ("bq_drain", "BlockingQueue", bq, "drain", None),
            ("bq_size", "BlockingQueue", bq, "size", None),
            ("bbq_put_copy", "BoundedBlockingQueue", bbq, "put", "copy"), ("bbq_put_move", "BoundedBlockingQueue", bbq, "put", "move"),
            ("bbq_take", "BoundedBlockingQueue", bbq, "take", None), ("bbq_empty", "BoundedBlockingQueue", bbq, "empty", None),
            ("bbq_full", "BoundedBlockingQueue", bbq, "full", None), ("bbq_size", "BoundedBlockingQueue", bbq, "size", None),
            ("bbq_capacity", "BoundedBlockingQueue", bbq, "capacity", None)):
        emit(out, lean, cls, pick(defs, cls, name, ovl), QSYM, QPARAMS, "muduo/base/%s.h" % cls)

    ldocs = ast_dump("muduo/base/CountDownLatch.cc", "CountDownLatch")
    latch = out_of_line(ldocs, "CountDownLatch")
    for lean, name in (("latch_wait", "wait"), ("latch_countDown", "countDown"), ("latch_getCount", "getCount")):
        emit(out, lean, "CountDownLatch", pick(latch, "CountDownLatch", name), LSYM, LPARAMS, "muduo/base/CountDownLatch.cc")

    pdocs = ast_dump("muduo/base/ThreadPool.cc", "ThreadPool")
    pool = out_of_line(pdocs, "ThreadPool")
    # isFull first: its return expression is the guard other sites call
    isfull = pick(pool, "ThreadPool", "isFull")
    rets = [n for n in walk(body_of(isfull)) if n.get("kind") == "ReturnStmt"]
    if len(rets) != 1:
        raise ExtractError("ThreadPool::isFull: expected one return")
    tr = MTr({k: v for k, v in PSYM.items() if k != "isFull()"})
    out.append(prop_def("pool_isFull_ret", [("size", "Nat"), ("maxq", "Nat")], unparen(tr.expr(kids(rets[0])[0])),
                        "value returned by `ThreadPool::isFull`"))
    for lean, name in (("pool_start", "start"), ("pool_stop", "stop"), ("pool_run", "run"), ("pool_take", "take"),
                       ("pool_isFull", "isFull"), ("pool_runInThread", "runInThread")):
        emit(out, lean, "ThreadPool", pick(pool, "ThreadPool", name), PSYM, PPARAMS, "muduo/base/ThreadPool.cc")
    out.append("end MuduoVerif.Generated.Monitor")
    return "\n".join(out) + "\n"
