"""T1 for the codec engine (property C18), second part - STATEMENT SKELETONS of the functions of
muduo/net/protobuf/ProtobufCodecLite.cc and examples/protobuf/codec/codec.cc that Model/Codec.lean implements, from
clang's AST of /repo's current sources.

vlib/gen/codec.py extracts the constants, the three guards of each `onMessage`, the offsets and the decision tree of
each `parse`.  What it cannot see is the ORDER and NESTING of the statements around those sites: `retrieve` before the
message callback, the checksum appended before the payload, the length computed before the checksum is in the buffer,
`break` dropped after the error callback, the raw callback asked after the frame has been parsed, two independent `if`s
merged into `if / else if`, a duplicated `retrieve` ...  This module walks each function body in source order and emits

    Skel ::= act Act | ite <guard> <then> <else> | loop <guard> <body>

of the "significant actions" (vocabulary: lean/MuduoVerif/Model/CodecSkelDecl.lean): every store (declaration with
an initialiser, assignment, `p.reset(v)`; the stored value `<result>` = the result of the action just before), calls
of the other functions of the codec (`call`), the C / zlib library (`lib`: `adler32`, `memcmp`, `memcpy`,
`ByteSizeConsistencyError`), protobuf (`pb`: `ParseFromArray`, `ByteSizeLong`, `SerializeWithCachedSizesToArray`,
`FindMessageTypeByName`, `GetPrototype`; `alloc`: `prototype->New()`), the mutating `Buffer` operations (`bufOp`), the
three callbacks (`cb`), `conn->send` (`connSend`), `assert`, `return <value>`, `break`, `continue`.  A `while` is `loop <guard> <body>`; an `if` / `while` condition is named after the guard (or
decision-tree input) vlib/gen/codec.py made from that very condition (its registry `codec.SITES`, keyed by translation
unit and clang node id); any other condition is printed in a canonical form.  Expressions are canonical prints (casts
dropped, `->` as `.`, minimal parentheses).  The actions an expression performs precede the action that uses its value,
in evaluation order (arguments before the call, right-hand side before the store); the actions of a CONDITION precede
its `ite` (only calls - `call`, `lib`, `pb`, the raw callback - may occur there; a store or a buffer operation in a
condition stops the extraction).

Lean side: Model/CodecSkelDecl.lean declares the skeleton each model function implements; Proofs/CodecSkelTie.lean
proves `Gen.CodecSkel.<fn> = Decl.<fn>` by `decide`; Props/C18 re-exports the conjunction (`statement_order_tied`).

Never guesses: a call that is neither in the vocabulary nor in one of the (short, explicit) lists of value getters,
a statement kind outside {compound, if, while, break, continue, return, declaration, expression, empty}, a
construction of a type that is not a plain value, a loop condition that performs an action -> ExtractError.  When
vlib/gen/codec.py itself cannot follow the (changed) source - the engine "Codec" reports that - the skeletons are
still produced with the sites it had registered up to that point; a site it had not reached keeps its name if its
condition prints exactly as on the accepted tree (FALLBACK_SITES).

IGNORED (the model abstracts from exactly these; listed again in the header of the generated file):
  I1  protobuf's own debug check `GOOGLE_DCHECK(message.IsInitialized()) << InitializationErrorMessage(..)` (a
      conditional expression that builds a `google::protobuf::internal::LogMessage`): protobuf is not modelled - only
      `IsInitialized` / `InitializationErrorMessage` / `operator<<` may be called inside, anything else is an error
  I2  casts of every kind (`static_cast`, `reinterpret_cast`, `implicit_cast`, `(void) x`), parentheses, temporaries
  I3  declarations of locals without an initialiser and default-constructed smart pointers / strings
      (`MessagePtr message;`: a null pointer - its value is the `assign` that follows)
  I4  `MUDUO_VERIF_POINT` (an empty `do { } while (0)`) and empty statements
"""
from ..extract import HEADER, ExtractError, ast_dump, body_of, ctype, functions, kids, walk
from . import codec

NAME = "CodecSkel"

LITE_TU = "muduo/net/protobuf/ProtobufCodecLite.cc"
EX_TU = "examples/protobuf/codec/codec.cc"

# (Lean name, C++ function) in source order
LITE_FUNCTIONS = [("send", "send"), ("fillEmptyBuffer", "fillEmptyBuffer"), ("onMessage", "onMessage"),
                  ("parseFromBuffer", "parseFromBuffer"), ("serializeToBuffer", "serializeToBuffer"),
                  ("asInt32", "asInt32"), ("checksum", "checksum"), ("validateChecksum", "validateChecksum"),
                  ("parse", "parse")]
EX_FUNCTIONS = [("exFillEmptyBuffer", "fillEmptyBuffer"), ("exAsInt32", "asInt32"), ("exOnMessage", "onMessage"),
                ("exCreateMessage", "createMessage"), ("exParse", "parse")]

PEEL_KINDS = ("ParenExpr", "ExprWithCleanups", "MaterializeTemporaryExpr", "CXXBindTemporaryExpr", "ConstantExpr",
              "ImplicitCastExpr", "CStyleCastExpr", "CXXStaticCastExpr", "CXXReinterpretCastExpr", "CXXConstCastExpr")
CALL_KINDS = ("CXXMemberCallExpr", "CallExpr", "CXXOperatorCallExpr")
CTOR_KINDS = ("CXXConstructExpr", "CXXTemporaryObjectExpr")
CAST_FREE = ("implicit_cast", "down_cast", "get_pointer")

# C precedence (larger binds tighter)
PREC = {"*": 13, "/": 13, "%": 13, "+": 12, "-": 12, "<<": 11, ">>": 11, "<": 9, "<=": 9, ">": 9, ">=": 9,
        "==": 8, "!=": 8, "&": 7, "^": 6, "|": 5, "&&": 4, "||": 3}
P_ATOM, P_UNARY, P_COND = 16, 15, 2
VALUE_OPS = {"operator==": "==", "operator!=": "!=", "operator<": "<", "operator<=": "<=", "operator>": ">",
             "operator>=": ">="}


# ----------------------------------------------------------------------------- AST helpers

def peel_plain(n):
    while n.get("kind") in PEEL_KINDS and kids(n):
        n = kids(n)[0]
    return n


def callee_name(n):
    ks = kids(n)
    if not ks:
        return None
    c = peel_plain(ks[0])
    if c.get("kind") == "MemberExpr":
        return c.get("name")
    if c.get("kind") == "DeclRefExpr":
        return c.get("referencedDecl", {}).get("name")
    return None


def peel(n):
    """skip parentheses, temporaries and every cast (I2)"""
    while True:
        k = n.get("kind")
        if k in PEEL_KINDS and kids(n):
            n = kids(n)[0]
        elif k == "CXXFunctionalCastExpr" and kids(n) and n.get("castKind") != "ConstructorConversion":
            n = kids(n)[0]
        elif k == "CallExpr" and callee_name(n) in CAST_FREE and len(kids(n)) == 2:
            n = kids(n)[1]
        else:
            return n


def deref(n):
    """the object a (smart) pointer expression points to: `p->`, `*p`"""
    n = peel(n)
    if n.get("kind") == "CXXOperatorCallExpr" and callee_name(n) in ("operator->", "operator*") and len(kids(n)) == 2:
        return deref(kids(n)[1])
    return n                    # `*p` of a plain pointer is kept (`*error = ..`): only smart pointers are looked through


def this_member(n):
    """name of the member when `n` is `this->m` / `m` (through `->` / `*` of a smart pointer member), else None"""
    n = deref(n)
    if n.get("kind") == "MemberExpr" and (not kids(n) or peel_plain(kids(n)[0]).get("kind") == "CXXThisExpr"):
        return n.get("name")
    return None


def lean_str(s):
    return '"' + s.replace("\\", "\\\\").replace('"', '\\"').replace("\n", "\\n") + '"'


def short_type(t):
    t = t.strip()
    for p in ("const ", "struct ", "class "):
        while t.startswith(p):
            t = t[len(p):]
    while t.endswith("&") or t.endswith("*"):
        t = t[:-1].strip()
    for q in ("::", "muduo::net::", "muduo::", "std::"):
        if t.startswith(q):
            t = t[len(q):]
    return t.strip()


def types_of(n):
    """the types clang gives the expression with and without its casts and smart-pointer dereferences"""
    return " | ".join(ctype(x) for x in (n, peel_plain(n), peel(n), deref(n)))


def is_assert(n):
    n = peel_plain(n)
    return n.get("kind") == "ConditionalOperator" and any(
        x.get("referencedDecl", {}).get("name") in ("__assert_fail", "__assert_perror_fail") for x in walk(n))


def is_pb_check(n):
    """I1: `cond ? (void)0 : LogFinisher() = LogMessage(..) << ..` (GOOGLE_CHECK / GOOGLE_DCHECK)"""
    n = peel_plain(n)
    return n.get("kind") == "ConditionalOperator" and any(
        x.get("kind") in CTOR_KINDS and "protobuf::internal::LogMessage" in ctype(x) for x in walk(n))


def char_text(v):
    v = int(v)
    if 32 <= v < 127 and chr(v) not in "'\\":
        return "'%s'" % chr(v)
    return "char(%d)" % v


# ----------------------------------------------------------------------------- the walker (shared with httpskel.py)

class SkelWalker:
    """one function body -> list of Skel (nested Python tuples).  Sub-classes say what a call is (`classify`),
    which actions a condition may perform (`COND_ACTS`), which types are plain values, and whether the vocabulary
    has `brk` / `cont`."""

    COND_ACTS = ()              # prefixes of the acts a condition may perform
    VALUE_TYPES = ()            # constructions of these (after short_type) are values
    DEFAULT_IGNORED = ()        # default construction of these is I3
    DEFAULT_VALUE = ()          # default construction of these is the store of `T()`
    HAS_BREAK = False
    PB_CHECK_PURE = ()

    def __init__(self, where, site_of, fallback_sites=None):
        self.where, self.site_of, self.fallback_sites = where, site_of, fallback_sites or {}

    def err(self, msg):
        raise ExtractError("%s: %s" % (self.where, msg))

    # ------------------------------------------------------------------ what a call is
    def classify(self, n):
        """('value', None) | ('action', builder) for a call node; the builder gets the printed arguments"""
        raise NotImplementedError

    def store_act(self, lhs, value):
        """the act of `lhs = value` (lhs: AST node, value: printed); sub-classes may special-case a left-hand side"""
        return ".assign %s %s" % (lean_str(self.lhs_text(lhs)), lean_str(value))

    def lhs_text(self, l):
        p = peel(l)
        if p.get("kind") in ("DeclRefExpr", "MemberExpr") or (p.get("kind") == "UnaryOperator" and p.get("opcode") == "*"):
            return self.pp(l, P_UNARY)
        self.err("store to something that is neither a variable, a member nor `*p` (%s)" % p.get("kind"))

    # ------------------------------------------------------------------ canonical printing
    def args(self, args, acts):
        return ", ".join(self.pp(a, 0, acts) for a in args if a.get("kind") != "CXXDefaultArgExpr")

    def pp(self, n, ctx=0, acts=None):
        s, p = self.pp_(n, acts)
        return s if p >= ctx else "(" + s + ")"

    def pp_(self, n, acts):
        """(text, precedence) of a value; the actions it performs are appended to `acts` in evaluation order
        (`acts is None`: none allowed)"""
        n = peel(n)
        k = n.get("kind")
        if k == "IntegerLiteral":
            return str(int(n["value"])), P_ATOM
        if k == "CharacterLiteral":
            return char_text(n["value"]), P_ATOM
        if k == "CXXBoolLiteralExpr":
            return ("true" if n["value"] else "false"), P_ATOM
        if k in ("CXXNullPtrLiteralExpr", "GNUNullExpr"):
            return "NULL", P_ATOM
        if k == "StringLiteral":
            return n["value"], P_ATOM
        if k == "CXXThisExpr":
            return "this", P_ATOM
        if k == "DeclRefExpr":
            return n["referencedDecl"]["name"], P_ATOM
        if k == "MemberExpr":
            if not kids(n) or peel_plain(kids(n)[0]).get("kind") == "CXXThisExpr":
                return n["name"], P_ATOM
            return self.pp(deref(kids(n)[0]), P_ATOM, acts) + "." + n["name"], P_ATOM
        if k == "ArraySubscriptExpr":
            a, i = kids(n)
            return "%s[%s]" % (self.pp(a, P_ATOM, acts), self.pp(i, 0, acts)), P_ATOM
        if k == "CXXMemberCallExpr":
            callee = peel_plain(kids(n)[0])
            if callee.get("kind") != "MemberExpr":
                self.err("call through %s" % callee.get("kind"))
            if callee.get("name", "").startswith("operator ") and len(kids(n)) == 1:
                return self.pp_(deref(kids(callee)[0]), acts)           # conversion operator: the object itself
            kind, build = self.classify(n)
            base = kids(callee)[0] if kids(callee) else None
            obj = "" if base is None or peel_plain(base).get("kind") == "CXXThisExpr" else self.pp(deref(base), P_ATOM, acts) + "."
            a = self.args(kids(n)[1:], acts)
            self.perform(kind, build, a, acts, callee.get("name"))
            return "%s%s(%s)" % (obj, callee.get("name"), a), P_ATOM
        if k == "CallExpr":
            nm = callee_name(n)
            if nm is None:
                self.err("an indirect call")
            kind, build = self.classify(n)
            a = self.args(kids(n)[1:], acts)
            self.perform(kind, build, a, acts, nm)
            return "%s(%s)" % (nm, a), P_ATOM
        if k == "CXXOperatorCallExpr":
            op = callee_name(n) or "operator?"
            a = kids(n)[1:]
            if op in ("operator->", "operator*") and len(a) == 1:
                return self.pp_(a[0], acts)
            if op in VALUE_OPS and len(a) == 2:
                self.check_value_op(n, op)
                p = PREC[VALUE_OPS[op]]
                return "%s %s %s" % (self.pp(a[0], p, acts), VALUE_OPS[op], self.pp(a[1], p + 1, acts)), p
            if op == "operator[]" and len(a) == 2:
                self.check_index(n)
                return "%s[%s]" % (self.pp(a[0], P_ATOM, acts), self.pp(a[1], 0, acts)), P_ATOM
            if op == "operator()":
                kind, build = self.classify(n)
                t = self.args(a[1:], acts)
                self.perform(kind, build, t, acts, "operator()")
                return "%s(%s)" % (self.pp(a[0], P_ATOM, acts), t), P_ATOM
            if op == "operator=":
                self.err("assignment inside an expression")
            self.err("operator call `%s` is not in the vocabulary" % op)
        if k == "UnaryOperator":
            op = n.get("opcode")
            a = kids(n)[0]
            if op in ("++", "--"):
                self.err("`%s` inside an expression" % op)
            if op == "__extension__":
                return self.pp_(a, acts)
            return op + self.pp(a, P_UNARY, acts), P_UNARY
        if k == "BinaryOperator":
            op = n.get("opcode")
            if op not in PREC:
                self.err("operator `%s` inside an expression" % op)
            l, r = kids(n)
            p = PREC[op]
            return "%s %s %s" % (self.pp(l, p, acts), op, self.pp(r, p + 1, acts)), p
        if k == "CompoundAssignOperator":
            self.err("assignment inside an expression")
        if k == "ConditionalOperator":
            c, a, b = kids(n)
            return "%s ? %s : %s" % (self.pp(c, P_COND + 1, acts), self.pp(a, P_COND + 1, acts), self.pp(b, P_COND, acts)), P_COND
        if k == "UnaryExprOrTypeTraitExpr":
            ks = kids(n)
            return "%s(%s)" % (n.get("name", "sizeof"), self.pp(ks[0]) if ks else n.get("argType", {}).get("qualType", "?")), P_ATOM
        if k == "CXXDefaultArgExpr":
            return "<default>", P_ATOM
        if k in CTOR_KINDS or k == "CXXFunctionalCastExpr":
            a = [x for x in kids(n) if x.get("kind") != "CXXDefaultArgExpr"]
            t = short_type(ctype(n))
            if not t.startswith(self.VALUE_TYPES):
                self.err("construction of a `%s` is not in the vocabulary" % t)
            if len(a) == 1 and k != "CXXTemporaryObjectExpr":
                return self.pp_(a[0], acts)                              # copy / conversion: the value itself
            return "%s(%s)" % (self.type_text(t), self.args(a, acts)), P_ATOM
        self.err("cannot print expression node %s" % k)

    def value(self, n, acts):
        """printed value of `n` for a store / `return`; `<result>` when the value is, as a whole, the result of one
        action call (which has then just been appended to `acts`)"""
        text = self.pp(n, 0, acts)
        p = peel(n)
        while p.get("kind") == "CXXConstructExpr" and len([a for a in kids(p) if a.get("kind") != "CXXDefaultArgExpr"]) == 1:
            p = peel([a for a in kids(p) if a.get("kind") != "CXXDefaultArgExpr"][0])   # copy / conversion of the value
        if p.get("kind") in ("CXXMemberCallExpr", "CallExpr") or (p.get("kind") == "CXXOperatorCallExpr" and callee_name(p) == "operator()"):
            if not (p.get("kind") == "CXXMemberCallExpr" and (callee_name(p) or "").startswith("operator ")):
                if self.classify(p)[0] == "action":
                    return "<result>"
        return text

    def type_text(self, t):
        return "string" if t.startswith("basic_string<") else t

    def perform(self, kind, build, a, acts, nm):
        if kind == "action":
            if acts is None:
                self.err("the call of `%s` (an action) occurs where only a value is allowed" % nm)
            acts.append(build(a))

    def check_value_op(self, n, op):
        pass

    def check_index(self, n):
        pass

    # ------------------------------------------------------------------ statements
    def check_pb_check(self, n):
        for x in walk(n):
            if x.get("kind") in CALL_KINDS and callee_name(x) not in self.PB_CHECK_PURE:
                self.err("call of `%s` inside a protobuf check macro" % callee_name(x))
            if x.get("kind") in ("LambdaExpr", "CXXNewExpr", "CXXDeleteExpr", "CompoundAssignOperator") or (
                    x.get("kind") == "BinaryOperator" and x.get("opcode") == "=") or (
                    x.get("kind") == "UnaryOperator" and x.get("opcode") in ("++", "--")):
                self.err("a store inside a protobuf check macro")

    def cond(self, c, out, loop=False):
        acts = []
        text = self.pp(c, 0, acts)
        if loop and acts:
            self.err("the loop condition performs an action: %s" % acts[0])
        for a in acts:
            if not a.startswith(self.COND_ACTS):
                self.err("side effect inside a condition: %s" % a)
        out.extend(("act", a) for a in acts)
        name = self.site_of(c)
        if name is None:
            name = self.fallback_sites.get(text)
        return name if name is not None else text

    def expr_stmt(self, s, out):
        n = peel(s)
        k = n.get("kind")
        acts = []
        if k == "BinaryOperator" and n.get("opcode") == "=":
            l, r = kids(n)
            v = self.value(r, acts)
            acts.append(self.store_act(l, v))
        elif k == "CXXOperatorCallExpr" and callee_name(n) == "operator=" and len(kids(n)) == 3:
            l, r = kids(n)[1:]
            v = self.value(r, acts)
            acts.append(self.store_act(l, v))
        elif k == "CompoundAssignOperator":
            l, r = kids(n)
            op = n.get("opcode")[:-1]
            if op not in PREC:
                self.err("compound assignment `%s`" % n.get("opcode"))
            p = PREC[op]
            acts.append(self.store_act(l, "%s %s %s" % (self.pp(l, p), op, self.pp(r, p + 1, acts))))
        elif k == "UnaryOperator" and n.get("opcode") in ("++", "--"):
            a = kids(n)[0]
            acts.append(self.store_act(a, "%s %s 1" % (self.pp(a, 12), n["opcode"][0])))
        elif k in ("LambdaExpr", "CXXNewExpr", "CXXDeleteExpr", "CXXThrowExpr", "StmtExpr"):
            self.err("%s is not in the vocabulary" % k)
        else:
            self.pp(n, 0, acts)                                         # a call: its acts; a bare value: checked, no act
        out.extend(("act", a) for a in acts)

    def stmt(self, s, out):
        k = s.get("kind")
        if k == "NullStmt":
            return                                                      # I4
        if k == "CompoundStmt":
            for c in kids(s):
                self.stmt(c, out)
            return
        if k == "IfStmt":
            ks = kids(s)
            if s.get("hasInit") or s.get("hasVar") or len(ks) not in (2, 3):
                self.err("`if` with an init statement / condition variable")
            name = self.cond(ks[0], out)
            thn, els = [], []
            self.stmt(ks[1], thn)
            if len(ks) == 3:
                self.stmt(ks[2], els)
            out.append(("ite", name, thn, els))
            return
        if k == "WhileStmt":
            ks = kids(s)
            if s.get("hasVar") or len(ks) != 2:
                self.err("`while` with a condition variable")
            name = self.cond(ks[0], out, loop=True)
            body = []
            self.stmt(ks[1], body)
            out.append(("loop", name, body))
            return
        if k in ("BreakStmt", "ContinueStmt"):
            if not self.HAS_BREAK:
                self.err("`%s` is not in the vocabulary of this engine" % ("break" if k == "BreakStmt" else "continue"))
            out.append(("act", ".brk" if k == "BreakStmt" else ".cont"))
            return
        if k == "ReturnStmt":
            ks = kids(s)
            acts = []
            v = self.value(ks[0], acts) if ks else ""
            out.extend(("act", a) for a in acts)
            out.append(("act", ".ret %s" % lean_str(v)))
            return
        if k == "DoStmt":
            body, cnd = kids(s)[0], kids(s)[1]
            if body.get("kind") == "CompoundStmt" and not kids(body) and peel(cnd).get("kind") in ("IntegerLiteral", "CXXBoolLiteralExpr"):
                return                                                  # I4
            self.err("a do-loop that is not an empty MUDUO_VERIF_POINT")
        if k == "DeclStmt":
            for v in kids(s):
                if v.get("kind") != "VarDecl":
                    self.err("declaration of a %s inside the body" % v.get("kind"))
                if v.get("storageClass") == "static":
                    self.err("a static local (`%s`)" % v.get("name"))
                init = kids(v)
                if not init:
                    continue                                            # I3
                i0 = peel(init[0])
                t = short_type(ctype(v))
                if i0.get("kind") in CTOR_KINDS and not [a for a in kids(i0) if a.get("kind") != "CXXDefaultArgExpr"]:
                    if t.startswith(self.DEFAULT_IGNORED):
                        continue                                        # I3
                    if t.startswith(self.DEFAULT_VALUE):
                        out.append(("act", ".assign %s %s" % (lean_str(v["name"]), lean_str("%s()" % self.type_text(t)))))
                        continue
                    self.err("default construction of a `%s` is not in the vocabulary" % t)
                acts = []
                if i0.get("kind") in CTOR_KINDS and len([a for a in kids(i0) if a.get("kind") != "CXXDefaultArgExpr"]) > 1:
                    if not t.startswith(self.VALUE_TYPES):
                        self.err("construction of a `%s` is not in the vocabulary" % t)
                    val = "%s(%s)" % (self.type_text(t), self.args(kids(i0), acts))      # `string m(start, end)`
                else:
                    val = self.value(init[0], acts)
                out.extend(("act", a) for a in acts)
                out.append(("act", ".assign %s %s" % (lean_str(v["name"]), lean_str(val))))
            return
        if is_assert(s):
            out.append(("act", ".assertion %s" % lean_str(self.pp(kids(peel_plain(s))[0]))))
            return
        if is_pb_check(s):                                              # I1
            self.check_pb_check(s)
            return
        if k.endswith("Stmt"):
            self.err("statement kind %s is outside the supported subset" % k)
        self.expr_stmt(s, out)


def render(items, ind):
    pad = " " * ind
    lines = []
    for it in items:
        if it[0] == "act":
            lines.append("%s.act (%s)" % (pad, it[1]))
        elif it[0] == "loop":
            _, name, body = it
            s = "%s.loop %s" % (pad, lean_str(name))
            s += "\n%s  [\n%s\n%s  ]" % (pad, render(body, ind + 4), pad) if body else " []"
            lines.append(s)
        else:
            _, name, thn, els = it
            s = "%s.ite %s" % (pad, lean_str(name))
            for br in (thn, els):
                if br:
                    s += "\n%s  [\n%s\n%s  ]" % (pad, render(br, ind + 4), pad)
                else:
                    s += " []"
            lines.append(s)
    return ",\n".join(lines)


def emit_function(out, lean, title, items):
    out.append("/-- %s -/" % title)
    if items:
        out.append("def %s : List Skel :=\n  [\n%s\n  ]\n" % (lean, render(items, 4)))
    else:
        out.append("def %s : List Skel := []\n" % lean)


# ----------------------------------------------------------------------------- the codec's vocabulary

# the functions of the two codecs (member, static member or - `asInt32` of codec.cc - free): a call is `call`
ENGINE_FNS = ("fillEmptyBuffer", "serializeToBuffer", "parseFromBuffer", "asInt32", "checksum", "validateChecksum", "parse",
              "createMessage", "send", "onMessage")
LIB_FNS = ("adler32", "memcmp", "memcpy", "ByteSizeConsistencyError")
PURE_FREE = ("hostToNetwork32", "networkToHost32", "hostToNetwork64", "networkToHost64", "hostToNetwork16", "networkToHost16",
             "ToIntSize", "generated_pool", "generated_factory", "InitializationErrorMessage")
BUF_PURE = ("readableBytes", "writableBytes", "prependableBytes", "peek", "peekInt32", "beginWrite")
BUF_OPS = ("append", "appendInt32", "prepend", "retrieve", "ensureWritableBytes", "hasWritten")
STRING_PURE = ("size", "data", "c_str", "empty", "length")
PIECE_PURE = ("data", "size")
PB_ACTS = ("ParseFromArray", "ByteSizeLong", "ByteSize", "SerializeWithCachedSizesToArray", "FindMessageTypeByName",
           "GetPrototype")
PB_PURE = ("GetTypeName", "IsInitialized")
CB_OF = {"messageCallback_": "message", "errorCallback_": "error", "rawCb_": "raw"}

# Used ONLY when vlib/gen/codec.py stopped with an ExtractError (reported as such by the engine "Codec") before it had
# registered all its sites: the canonical print each site has on the tree codec.py accepts, per translation unit.
FALLBACK_SITES = {
    LITE_TU: {"buf.readableBytes() >= kMinMessageLen + kHeaderLen": "headerAvailable",
              "len > kMaxMessageLen || len < kMinMessageLen": "lenOutOfRange",
              "buf.readableBytes() >= kHeaderLen + len": "frameAvailable",
              "validateChecksum(buf, len)": "checksumOk",
              "memcmp(buf, tag_.data(), tag_.size()) == 0": "tagOk",
              "parseFromBuffer(StringPiece(data, dataLen), message)": "payloadOk"},
    EX_TU: {"buf.readableBytes() >= kMinMessageLen + kHeaderLen": "headerAvailable",
            "len > kMaxMessageLen || len < kMinMessageLen": "lenOutOfRange",
            "buf.readableBytes() >= len + kHeaderLen": "frameAvailable",
            "checkSum == expectedCheckSum": "checksumOk",
            "nameLen >= 2 && nameLen <= len - 2 * kHeaderLen": "nameLenOk",
            "message": "typeKnown",
            "message.ParseFromArray(data, dataLen)": "payloadOk"},
}


class CodecWalker(SkelWalker):
    COND_ACTS = (".call ", ".lib ", ".pb ", ".cb .raw ")
    VALUE_TYPES = ("StringPiece", "string", "basic_string<", "Timestamp", "MessagePtr", "shared_ptr<", "TcpConnectionPtr")
    DEFAULT_IGNORED = ("MessagePtr", "shared_ptr<", "string", "basic_string<")
    DEFAULT_VALUE = ("Buffer",)
    HAS_BREAK = True
    PB_CHECK_PURE = ("IsInitialized", "InitializationErrorMessage", "operator<<", "operator=")

    def classify(self, n):
        k = n.get("kind")
        nm = callee_name(n)
        if k == "CXXMemberCallExpr":
            callee = peel_plain(kids(n)[0])
            base = kids(callee)[0] if kids(callee) else None
            if base is None or peel_plain(base).get("kind") == "CXXThisExpr":
                if nm in ENGINE_FNS:
                    return "action", lambda a: ".call %s %s" % (lean_str(nm), lean_str(a))
                self.err("call of member function `%s` is not in the vocabulary" % nm)
            ty = types_of(base)
            obj = self.pp(deref(base), P_ATOM)          # the object must be printable without an action
            if "protobuf::" in ty:
                if nm in PB_ACTS:
                    return "action", lambda a: ".pb %s %s %s" % (lean_str(obj), lean_str(nm), lean_str(a))
                if nm == "New" and len(kids(n)) == 1:
                    return "action", lambda a: ".alloc %s" % lean_str("%s.New()" % obj)
                if nm in PB_PURE:
                    return "value", None
                if nm in ("get",) and "shared_ptr" in ty:
                    return "value", None
                if nm == "reset" and "shared_ptr" in ty and len(kids(n)) == 2:
                    return "action", lambda a: ".assign %s %s" % (lean_str(obj), lean_str(a))
                self.err("call of `%s` on the protobuf object `%s` is not in the vocabulary" % (nm, obj))
            if "Buffer" in ty:
                if nm in BUF_PURE:
                    return "value", None
                if nm in BUF_OPS:
                    return "action", lambda a: ".bufOp .%s %s %s" % (nm, lean_str(obj), lean_str(a))
                self.err("call of `%s` on the buffer `%s` is not in the vocabulary" % (nm, obj))
            if "TcpConnection" in ty:
                if nm == "send":
                    return "action", lambda a: ".connSend %s" % lean_str(a)
                if nm in ("connected", "disconnected"):
                    return "value", None
                self.err("call of `%s` on the connection is not in the vocabulary" % nm)
            if "StringPiece" in ty and nm in PIECE_PURE:
                return "value", None
            if "basic_string" in ty or "std::string" in ty or "muduo::string" in ty:
                if nm in STRING_PURE:
                    return "value", None
            self.err("call of `%s` on `%s` is not in the vocabulary" % (nm, obj))
        if k == "CallExpr":
            if nm in ENGINE_FNS:
                return "action", lambda a: ".call %s %s" % (lean_str(nm), lean_str(a))
            if nm in LIB_FNS:
                return "action", lambda a: ".lib %s %s" % (lean_str(nm), lean_str(a))
            if nm in PURE_FREE:
                return "value", None
            self.err("call of free function `%s` is not in the vocabulary" % nm)
        if k == "CXXOperatorCallExpr" and nm == "operator()":
            a = kids(n)[1:]
            m = this_member(a[0]) if a else None
            if m in CB_OF:
                return "action", lambda t: ".cb .%s %s" % (CB_OF[m], lean_str(t))
            self.err("call of a function object that is not one of the codec's callbacks")
        self.err("unexpected call node %s (%s)" % (k, nm))

    def check_index(self, n):
        self.err("`x[..]` is not in the vocabulary")


HEAD_DOC = """/-!
Statement skeletons of the functions of `ProtobufCodecLite.cc` and of the example `codec.cc` modelled in
`Model/Codec.lean`: the significant actions in source order - every store (`assign`: declaration with an initialiser,
assignment, `p.reset(v)`; the value `<result>` is the result of the action just before), calls of other functions of
the codec (`call`), of the C library / zlib / google-inl.h (`lib`: `adler32`, `memcmp`, `memcpy`,
`ByteSizeConsistencyError`), of protobuf (`pb`; `alloc` for `prototype->New()`), the mutating `Buffer` operations
(`bufOp`), the callbacks (`cb`), `conn->send` (`connSend`), `assert`, `return <value>`, `break`, `continue`.
`while` is `loop <guard> <body>`, `if` is `ite <guard> <then> <else>`; a guard is named after the definition
`Generated/Codec.lean` took from that very condition (`headerAvailable`, `lenOutOfRange`, `frameAvailable`; the inputs
`checksumOk`, `tagOk`, `nameLenOk`, `typeKnown`, `payloadOk` of `parseDecision`), any other condition is printed.
Expressions are canonical prints (casts dropped, `->` as `.`, minimal parentheses).  The actions an expression performs
precede the action that uses its value (arguments before the call, right-hand side before the store); the calls a
condition performs precede its `ite` (a store or buffer operation inside a condition, and any action inside a loop
condition, stops the extraction).
`Proofs/CodecSkelTie.lean` proves each one equal to the skeleton the model implements (`Model/CodecSkelDecl.lean`).

Not part of a skeleton (the model abstracts from exactly these):
* I1 protobuf's own debug check `GOOGLE_DCHECK(message.IsInitialized()) << InitializationErrorMessage(..)` - protobuf
  is not modelled (only `IsInitialized` / `InitializationErrorMessage` / `operator<<` may occur inside, else the
  extraction stops);
* I2 casts of every kind (`static_cast`, `reinterpret_cast`, `implicit_cast`, `(void) x`), parentheses, temporaries;
* I3 declarations of locals without an initialiser, default-constructed smart pointers and strings
  (`MessagePtr message;` - a null pointer);
* I4 `MUDUO_VERIF_POINT` (an empty `do { } while (0)`) and empty statements.
Value getters (`readableBytes`, `peek`, `peekInt32`, `beginWrite` of a `Buffer`; `size` / `data` / `c_str` of a string
or `StringPiece`; `get` of a smart pointer; `GetTypeName`; the byte-order conversions; `ToIntSize`;
`generated_pool()` / `generated_factory()`; `callback_` tested as a boolean) are not actions of their own - they appear
inside the printed value that uses them; every other call, construction or statement kind must be in the vocabulary
or the extraction fails.
-/
"""


def site_lookup(tu):
    return lambda c: codec.SITES.get("%s:%s" % (tu, c.get("id")))


def top_function(docs, name):
    """the one out-of-line definition called `name` among the dumped top-level declarations (the inline forwarders of
    the class template `ProtobufCodecLiteT` are nested in their class and therefore skipped)"""
    fs = [d for d in docs if d.get("kind") in ("CXXMethodDecl", "FunctionDecl") and d.get("name") == name and body_of(d) is not None]
    if len(fs) != 1:
        raise ExtractError("expected exactly one out-of-line definition of %s, found %d" % (name, len(fs)))
    return fs[0]


def generate():
    fallback = False
    try:
        codec.generate()        # fills codec.SITES for the tree as it is now (same cached AST dumps)
    except ExtractError:
        fallback = True         # reported by the engine "Codec" itself; the sites found so far stay registered
    docs = ast_dump(LITE_TU, "muduo::net::ProtobufCodecLite")
    xdocs = ast_dump(EX_TU, "ProtobufCodec")
    adocs = ast_dump(EX_TU, "asInt32")
    out = [HEADER % "muduo/net/protobuf/ProtobufCodecLite.cc, examples/protobuf/codec/codec.cc",
           "import MuduoVerif.Model.CodecSkelDecl\n", HEAD_DOC, "namespace MuduoVerif.Gen.CodecSkel", "open MuduoVerif.CodecSkel\n"]
    todo = [(lean, "ProtobufCodecLite", LITE_TU, top_function(docs, cxx)) for lean, cxx in LITE_FUNCTIONS]
    for lean, cxx in EX_FUNCTIONS:
        if cxx == "asInt32":
            fs = [f for f in functions(adocs, cxx, kinds=("FunctionDecl",))]
            if len(fs) != 1:
                raise ExtractError("expected exactly one free function asInt32 in %s, found %d" % (EX_TU, len(fs)))
            todo.append((lean, None, EX_TU, fs[0]))
        else:
            todo.append((lean, "ProtobufCodec", EX_TU, top_function(xdocs, cxx)))
    for lean, cls, tu, fn in todo:
        where = "%s%s (%s)" % (cls + "::" if cls else "", fn["name"], tu)
        w = CodecWalker(where, site_lookup(tu), FALLBACK_SITES[tu] if fallback else None)
        items = []
        w.stmt(body_of(fn), items)
        ptypes = [short_type(ctype(k)) + ("*" if ctype(k).rstrip().endswith("*") else "") for k in kids(fn) if k.get("kind") == "ParmVarDecl"]
        emit_function(out, lean, "`%s%s(%s)` - %s" % (cls + "::" if cls else "", fn["name"], ", ".join(ptypes), tu), items)
    out.append("end MuduoVerif.Gen.CodecSkel")
    return "\n".join(out) + "\n"
