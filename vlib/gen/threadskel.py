"""T1 for the threading primitives (C14 / C15 / C05 / C17 / C16) - STATEMENT SKELETONS of muduo/base/Mutex.h,
Condition.h / Condition.cc, CountDownLatch.cc, Thread.cc and CurrentThread.h, and the deadline arithmetic of
`Condition::waitForSeconds` as a translated definition, from clang's AST of /repo's current sources.

The monitor models (Model/Monitor.lean, Model/TPool.lean, the EventLoopThread part of Model/Loop.lean, Model/AsyncLog.lean)
take `MutexLockGuard`, `Condition::wait / notify / notifyAll / waitForSeconds`, `CountDownLatch`, `Thread::start / join`
as atomic primitives ("wait releases the mutex and parks; re-acquires before it returns", "start returns once the new
thread runs", "join returns once its function has returned"), and Model/LogStream.lean takes the tid cache and what
`afterFork` / `runInThread` do to it.  vlib/gen/monitor.py and vlib/gen/logstream.py extract how the USERS of the
primitives are written; this module extracts how the primitives themselves are written: which pthread / libc calls
they make, in which order relative to the holder bookkeeping, the flags (`started_`, `joined_`), the latch hand-shake
and the tid publication.  It walks each function body in source order and emits a tree

    Skel ::= act Act | ite <condition> <then> <else> | loop <whileDo | doWhile> <condition> <body>
           | attempt <body> | handler <exception declaration> <body>

(vocabulary: lean/MuduoVerif/Model/ThreadSkelDecl.lean; walker: vlib/logskel_common.py).  Actions: stores to members,
thread-locals and through pointers (`x += e` is the store of `x + e`, `--x` of `x - 1`), initialised locals and
assignments to locals, calls of other functions of muduo (`call`), pthread / libc / system calls (`sys`), the same
under `MCHECK(..)` (`mcheck`: the result is asserted to be 0), `MutexLockGuard g(m)` (`lock m` .. `unlock m` at the end
of the block that declares it), any other RAII guard (`guard T m` .. `guardEnd T m`), assertions (by their source
text), `delete p`, `throw;` (`rethrow`), `LOG_SYSFATAL / LOG_FATAL` (`fatal`: they abort), `return <value>`.  A call
of a `std::function` member is `call <member>`.  Conditions are printed canonically.

Evaluation: an expression may contain at most ONE action call; it is emitted in front of the statement that uses its
value and `<result>` stands for the value (`return ETIMEDOUT == pthread_cond_timedwait(..)` is `sys pthread_cond_timedwait ..;
ret 110 == <result>`; `if (pthread_create(..))` is `sys pthread_create ..; ite <result> ..`).

The second output is `waitForSecondsDeadline` (class T): the two assignments of `Condition::waitForSeconds` that turn
the clock reading into the absolute deadline, translated statement by statement (C `/` and `%` on `int64_t` become
`Int.tdiv` / `Int.tmod`), with the `double -> int64_t` conversion `static_cast<int64_t>(seconds * kNanoSecondsPerSecond)`
supplied as the integer parameter `ns`.

Never guesses: every call must be classified (value getter / muduo call / system call) by the type of the object it is
made on or by its name; two actions in one expression, an assignment inside an expression, a statement kind outside
{compound, if, while, do, try, return, declaration, expression, empty}, a lambda, a `MCHECK` of another shape ->
ExtractError.

IGNORED (the models abstract from exactly these; listed again in the header of the generated file):
  I1  log statements below FATAL and diagnostic output: `fprintf(stderr, ..)` whose arguments call nothing but
      `c_str()`, `what()`, `stackTrace()`
  I2  declarations of locals without an initialiser or default-constructed (`struct timespec abstime`, `char buf[32]`)
  I3  casts of every kind (`static_cast<pid_t>`, `static_cast<int64_t>(seconds * k)` - the float-to-integer step is a
      parameter of the translated definition -, implicit conversions, temporaries, `std::move`), `(void)x`,
      `__builtin_expect(c, v)` (= `c`)
  I4  base-class initialisers (`noncopyable`) and default-constructed members (`mutex_()`) of a constructor
  I5  `MUDUO_VERIF_POINT` (an empty `do { } while (0)`) and empty statements
NOT extracted: `CurrentThread::stackTrace` (CurrentThread.cc; used by `Exception` only, no model mentions it), the
one-line getters (`getPthreadMutex`, `tidString`, `tidStringLength`, `name`, `Thread::started/tid/name/numCreated`).
"""
from ..extract import HEADER, ExtractError, Tr, ast_dump, body_of, ctype, kids, strip, unparen, walk
from ..logskel_common import (CALL_KINDS, CTOR_KINDS, P_ATOM, Engine, Walker, callee_name, index_functions, is_assert,
                                 lean_str, param_types, peel, peel_plain, pick, type_class)

NAME = "ThreadSkel"


class ThreadEngine(Engine):
    methods = {
        "MutexLock": {"value": ("isLockedByThisThread", "getPthreadMutex"), "call": ("lock", "unlock", "assignHolder", "unassignHolder")},
        "Condition": {"value": (), "call": ("wait", "notify", "notifyAll", "waitForSeconds")},
        "CountDownLatch": {"value": (), "call": ("wait", "countDown", "getCount")},
        "ThreadData": {"value": (), "call": ("runInThread",)},
        "Thread": {"value": ()},
        "UnassignGuard": {"value": ()},
        "MutexLockGuard": {"value": ()},
        "ThreadNameInitializer": {"value": ()},
        "AtomicInt32": {"value": ("get",), "call": ("incrementAndGet",)},
        "string": {"value": ("empty", "c_str", "size", "data", "length")},
        "Exception": {"value": ("what", "stackTrace")},
        "exception": {"value": ("what",)},
    }
    free_value = ("getpid", "move")
    free_call = ("tid", "cacheTid", "gettid", "afterFork", "startThread")
    free_sys = ("pthread_mutex_init", "pthread_mutex_destroy", "pthread_mutex_lock", "pthread_mutex_unlock",
                "pthread_cond_init", "pthread_cond_destroy", "pthread_cond_wait", "pthread_cond_timedwait",
                "pthread_cond_signal", "pthread_cond_broadcast", "pthread_create", "pthread_join", "pthread_detach",
                "pthread_atfork", "clock_gettime", "nanosleep", "prctl", "syscall", "snprintf", "abort")
    diag_streams = ("stderr",)
    diag_pure = ("c_str", "what", "stackTrace")
    lock_types = ("MutexLockGuard",)
    guard_types = ("UnassignGuard",)
    storage_types = ("timespec",)
    object_types = ()
    function_members = ("func_",)        # std::function members: `func_()` is `call func_`


def is_logger_expr(n):
    """`Logger(file, line, ..).stream() << ..`"""
    n = peel(n)
    if n.get("kind") != "CXXOperatorCallExpr" or callee_name(n) != "operator<<":
        return False
    return any(x.get("kind") in CTOR_KINDS and ctype(x).replace("muduo::", "") == "Logger" for x in walk(n))


def logger_level(n):
    """None = below FATAL (ignored, I1), "fatal" = LOG_FATAL / LOG_SYSFATAL (abort)"""
    ctors = [x for x in walk(n) if x.get("kind") in CTOR_KINDS and ctype(x).replace("muduo::", "") == "Logger"]
    if len(ctors) != 1 or len(kids(ctors[0])) < 3:
        raise ExtractError("log statement with %d Logger constructions" % len(ctors))
    a = peel(kids(ctors[0])[2])
    if a.get("kind") == "CXXBoolLiteralExpr":                       # Logger(file, line, toAbort)
        return "fatal" if a.get("value") else None
    if a.get("kind") == "DeclRefExpr":
        lv = a.get("referencedDecl", {}).get("name")
        if lv in ("TRACE", "DEBUG", "INFO", "WARN", "ERROR"):
            return None
        if lv == "FATAL":
            return "fatal"
    raise ExtractError("log statement whose level I cannot read")


def assert_text(n):
    for x in walk(peel_plain(n)):
        if x.get("kind") == "CallExpr" and callee_name(x) == "__assert_fail":
            lits = [y for y in walk(kids(x)[1]) if y.get("kind") == "StringLiteral"]
            if lits:
                v = lits[0]["value"]
                return v[1:-1] if v.startswith('"') and v.endswith('"') else v
    raise ExtractError("assertion without text")


class TWalker(Walker):
    _hoist = None          # list collecting the (at most one) action call of the expression being printed

    # ------------------------------------------------------------------ expressions
    def pp_(self, n):
        p = peel(n)
        k = p.get("kind")
        if k == "CallExpr" and callee_name(p) == "__builtin_expect" and len(kids(p)) == 3:
            return self.pp_(kids(p)[1])                                 # I3
        if k == "InitListExpr":
            return "{%s}" % ", ".join(self.pp(a) for a in kids(p)), P_ATOM
        if k in CALL_KINDS and self._hoist is not None:
            kind, name = self.classify(p)
            if kind in ("call", "sys"):
                if self._hoist:
                    self.err("more than one action call in one expression (`%s` after `%s`)" % (name, self._hoist[0][1]))
                saved, self._hoist = self._hoist, None                  # arguments: values only
                try:
                    act = ("act", ".%s %s %s" % (kind, lean_str(name), lean_str(self.args(kids(p)[1:]))))
                finally:
                    self._hoist = saved
                self._hoist.append(act)
                return "<result>", P_ATOM
        return Walker.pp_(self, n)

    def hoisted(self, n, out):
        """print `n`; the one action call it may contain is emitted first and printed as `<result>`"""
        if self._hoist is not None:
            self.err("nested hoisting")
        self._hoist = []
        try:
            text = self.pp(n)
            out.extend(self._hoist)
        finally:
            self._hoist = None
        return text

    def value_or_action(self, n, out):
        return self.hoisted(n, out)

    def cond_of(self, c, out):
        return self.hoisted(c, out)

    # ------------------------------------------------------------------ statement shapes of this engine
    def mcheck(self, n, out):
        """`MCHECK(call)` = `({ __typeof__(call) errnum = (call); assert(errnum == 0); (void) errnum; })`"""
        body = kids(n)
        if len(body) != 1 or body[0].get("kind") != "CompoundStmt" or len(kids(body[0])) != 3:
            self.err("a statement expression that is not MCHECK(..)")
        d, a, v = kids(body[0])
        vs = kids(d) if d.get("kind") == "DeclStmt" else []
        if len(vs) != 1 or vs[0].get("kind") != "VarDecl" or vs[0].get("name") != "errnum" or not kids(vs[0]):
            self.err("MCHECK: first statement is not `errnum = (call)`")
        call = peel(kids(vs[0])[0])
        if call.get("kind") != "CallExpr" or self.classify(call)[0] != "sys":
            self.err("MCHECK of something that is not a system call")
        if not is_assert(a) or assert_text(a) != "errnum == 0":
            self.err("MCHECK: second statement is not `assert(errnum == 0)`")
        out.append(("act", ".mcheck %s %s" % (lean_str(callee_name(call)), lean_str(self.args(kids(call)[1:])))))

    def special_stmt(self, n, out):
        k = n.get("kind")
        if k == "StmtExpr":
            self.mcheck(n, out)
            return True
        if k == "CXXDeleteExpr":
            out.append(("act", ".delete %s" % lean_str(self.pp(kids(n)[0]))))
            return True
        if k == "CXXThrowExpr":
            if kids(n):
                self.err("`throw <expression>` is not in the vocabulary")
            out.append(("act", ".rethrow"))
            return True
        if k == "CXXOperatorCallExpr" and callee_name(n) == "operator()" and len(kids(n)) == 2:
            f = peel(kids(n)[1])
            if f.get("kind") == "MemberExpr" and f.get("name") in self.e.function_members and \
                    (not kids(f) or peel_plain(kids(f)[0]).get("kind") == "CXXThisExpr"):
                out.append(("act", ".call %s \"\"" % lean_str(f["name"])))
                return True
            self.err("call of a function object that is not a std::function member of the vocabulary")
        if is_logger_expr(n):
            for x in walk(n):
                if x.get("kind") in ("CompoundAssignOperator", "LambdaExpr", "CXXNewExpr", "CXXDeleteExpr") or \
                        (x.get("kind") == "BinaryOperator" and x.get("opcode") == "=") or \
                        (x.get("kind") == "UnaryOperator" and x.get("opcode") in ("++", "--")):
                    self.err("side effect inside a log statement")
                if x.get("kind") in CALL_KINDS and callee_name(x) not in ("operator<<", "stream", "c_str", "strerror_tl", "__errno_location"):
                    self.err("call of `%s` inside a log statement" % callee_name(x))
            if logger_level(n) == "fatal":
                out.append(("act", ".fatal"))
            return True
        return False

    def stmt(self, s, out):
        k = s.get("kind")
        if k == "CompoundStmt":
            ends = []
            for c in kids(s):
                g = self.guard_decl(c, out)
                if g is not None:
                    ends.append(g)
                else:
                    self.stmt(c, out)
            for g in reversed(ends):                                    # destructors run in reverse order of construction
                out.append(("act", g))
            return
        if k == "IfStmt":
            ks = kids(s)
            if s.get("hasInit") or s.get("hasVar") or len(ks) not in (2, 3):
                self.err("`if` with an init statement / condition variable")
            if len(ks) == 2 and any(x.get("kind") == "DeclRefExpr" and x.get("referencedDecl", {}).get("name") == "logLevel"
                                    for x in walk(ks[0])) and is_logger_expr(ks[1]) and logger_level(peel(ks[1])) is None:
                return                                                  # I1: LOG_TRACE / LOG_DEBUG / LOG_INFO
            name = self.cond_of(ks[0], out)
            thn, els = [], []
            self.stmt(ks[1], thn)
            if len(ks) == 3:
                self.stmt(ks[2], els)
            out.append(("ite", name, thn, els))
            return
        if k == "WhileStmt":
            ks = kids(s)
            if s.get("hasVar") or len(ks) != 2:
                self.err("`while` with a condition variable")
            body = []
            self.stmt(ks[1], body)
            out.append(("loop", ".whileDo", self.pp(ks[0]), body))      # no action inside a loop condition
            return
        if k == "CXXTryStmt":
            ks = kids(s)
            body = []
            self.stmt(ks[0], body)
            out.append(("attempt", body))
            for h in ks[1:]:
                if h.get("kind") != "CXXCatchStmt":
                    self.err("unexpected %s inside a try statement" % h.get("kind"))
                hk = kids(h)
                decl = [x for x in hk if x.get("kind") == "VarDecl"]
                comp = [x for x in hk if x.get("kind") == "CompoundStmt"]
                if len(comp) != 1 or len(decl) > 1:
                    self.err("catch clause of an unexpected shape")
                what = "%s %s" % (ctype(decl[0]).replace("muduo::", ""), decl[0].get("name", "")) if decl else "..."
                hb = []
                self.stmt(comp[0], hb)
                out.append(("handler", what.strip(), hb))
            return
        if is_assert(s):
            self.pp(kids(peel_plain(s))[0])                             # checks: no action inside an assertion
            out.append(("act", ".assertion %s" % lean_str(assert_text(s))))
            return
        Walker.stmt(self, s, out)

    def guard_decl(self, s, out):
        """`MutexLockGuard g(m);` / `UnassignGuard g(m);` directly inside a block: emits the opening action and returns
        the action of the end of its scope; None for every other statement"""
        if s.get("kind") != "DeclStmt" or len(kids(s)) != 1 or kids(s)[0].get("kind") != "VarDecl":
            return None
        v = kids(s)[0]
        cls = type_class(ctype(v))
        if cls not in self.e.lock_types + self.e.guard_types:
            return None
        init = kids(v)
        i0 = peel(init[0]) if init else {}
        args = [a for a in kids(i0) if a.get("kind") != "CXXDefaultArgExpr"] if i0.get("kind") in CTOR_KINDS else []
        if len(args) != 1:
            self.err("guard `%s` is not constructed from exactly one object" % v.get("name"))
        m = lean_str(self.pp(args[0]))
        if cls in self.e.lock_types:
            out.append(("act", ".lock %s" % m))
            return ".unlock %s" % m
        out.append(("act", ".guard %s %s" % (lean_str(cls), m)))
        return ".guardEnd %s %s" % (lean_str(cls), m)

    def local(self, v, out):
        if type_class(ctype(v)) in self.e.lock_types + self.e.guard_types:
            self.err("a guard object that is not declared directly inside a block")
        Walker.local(self, v, out)


def render(items, ind):
    pad = " " * ind
    lines = []

    def block(body):
        return ("\n%s  [\n%s\n%s  ]" % (pad, render(body, ind + 4), pad)) if body else " []"
    for it in items:
        if it[0] == "act":
            lines.append("%s.act (%s)" % (pad, it[1]))
        elif it[0] == "loop":
            lines.append("%s.loop %s %s%s" % (pad, it[1], lean_str(it[2]), block(it[3])))
        elif it[0] == "attempt":
            lines.append("%s.attempt%s" % (pad, block(it[1])))
        elif it[0] == "handler":
            lines.append("%s.handler %s%s" % (pad, lean_str(it[1]), block(it[2])))
        else:
            lines.append("%s.ite %s%s%s" % (pad, lean_str(it[1]), block(it[2]), block(it[3])))
    return ",\n".join(lines)


# (Lean name, dump key, owner class or None, C++ name, qualified name for the doc comment, file)
MUTEX_H, COND_H, COND_CC, LATCH_CC, CUR_H, THREAD_CC = ("muduo/base/Mutex.h", "muduo/base/Condition.h", "muduo/base/Condition.cc",
                                                        "muduo/base/CountDownLatch.cc", "muduo/base/CurrentThread.h", "muduo/base/Thread.cc")
FUNCTIONS = [
    ("mutexCtor", "mutex", "MutexLock", "MutexLock", "MutexLock::MutexLock", MUTEX_H),
    ("mutexDtor", "mutex", "MutexLock", "~MutexLock", "MutexLock::~MutexLock", MUTEX_H),
    ("isLockedByThisThread", "mutex", "MutexLock", "isLockedByThisThread", "MutexLock::isLockedByThisThread", MUTEX_H),
    ("assertLocked", "mutex", "MutexLock", "assertLocked", "MutexLock::assertLocked", MUTEX_H),
    ("mutexLock", "mutex", "MutexLock", "lock", "MutexLock::lock", MUTEX_H),
    ("mutexUnlock", "mutex", "MutexLock", "unlock", "MutexLock::unlock", MUTEX_H),
    ("unassignHolder", "mutex", "MutexLock", "unassignHolder", "MutexLock::unassignHolder", MUTEX_H),
    ("assignHolder", "mutex", "MutexLock", "assignHolder", "MutexLock::assignHolder", MUTEX_H),
    ("unassignGuardCtor", "mutex", "UnassignGuard", "UnassignGuard", "MutexLock::UnassignGuard::UnassignGuard", MUTEX_H),
    ("unassignGuardDtor", "mutex", "UnassignGuard", "~UnassignGuard", "MutexLock::UnassignGuard::~UnassignGuard", MUTEX_H),
    ("lockGuardCtor", "mutex", "MutexLockGuard", "MutexLockGuard", "MutexLockGuard::MutexLockGuard", MUTEX_H),
    ("lockGuardDtor", "mutex", "MutexLockGuard", "~MutexLockGuard", "MutexLockGuard::~MutexLockGuard", MUTEX_H),
    ("condCtor", "cond", "Condition", "Condition", "Condition::Condition", COND_H),
    ("condDtor", "cond", "Condition", "~Condition", "Condition::~Condition", COND_H),
    ("condWait", "cond", "Condition", "wait", "Condition::wait", COND_H),
    ("condNotify", "cond", "Condition", "notify", "Condition::notify", COND_H),
    ("condNotifyAll", "cond", "Condition", "notifyAll", "Condition::notifyAll", COND_H),
    ("condWaitForSeconds", "cond", "Condition", "waitForSeconds", "Condition::waitForSeconds", COND_CC),
    ("latchCtor", "latch", "CountDownLatch", "CountDownLatch", "CountDownLatch::CountDownLatch", LATCH_CC),
    ("latchWait", "latch", "CountDownLatch", "wait", "CountDownLatch::wait", LATCH_CC),
    ("latchCountDown", "latch", "CountDownLatch", "countDown", "CountDownLatch::countDown", LATCH_CC),
    ("latchGetCount", "latch", "CountDownLatch", "getCount", "CountDownLatch::getCount", LATCH_CC),
    ("tid", "current", None, "tid", "CurrentThread::tid", CUR_H),
    ("cacheTid", "current", None, "cacheTid", "CurrentThread::cacheTid", THREAD_CC),
    ("isMainThread", "current", None, "isMainThread", "CurrentThread::isMainThread", THREAD_CC),
    ("sleepUsec", "current", None, "sleepUsec", "CurrentThread::sleepUsec", THREAD_CC),
    ("gettid", "detail", None, "gettid", "detail::gettid", THREAD_CC),
    ("afterFork", "detail", None, "afterFork", "detail::afterFork", THREAD_CC),
    ("threadNameInitializer", "detail", "ThreadNameInitializer", "ThreadNameInitializer",
     "detail::ThreadNameInitializer::ThreadNameInitializer", THREAD_CC),
    ("threadDataCtor", "detail", "ThreadData", "ThreadData", "detail::ThreadData::ThreadData", THREAD_CC),
    ("runInThread", "detail", "ThreadData", "runInThread", "detail::ThreadData::runInThread", THREAD_CC),
    ("startThread", "detail", None, "startThread", "detail::startThread", THREAD_CC),
    ("threadCtor", "thread", "Thread", "Thread", "Thread::Thread", THREAD_CC),
    ("threadDtor", "thread", "Thread", "~Thread", "Thread::~Thread", THREAD_CC),
    ("setDefaultName", "thread", "Thread", "setDefaultName", "Thread::setDefaultName", THREAD_CC),
    ("threadStart", "thread", "Thread", "start", "Thread::start", THREAD_CC),
    ("threadJoin", "thread", "Thread", "join", "Thread::join", THREAD_CC),
]

DUMPS = {
    "mutex": ("muduo/base/Condition.cc", "muduo::MutexLock"),
    "cond": ("muduo/base/Condition.cc", "muduo::Condition"),
    "latch": ("muduo/base/CountDownLatch.cc", "muduo::CountDownLatch"),
    "current": ("muduo/base/Thread.cc", "muduo::CurrentThread"),
    "detail": ("muduo/base/Thread.cc", "muduo::detail"),
    "thread": ("muduo/base/Thread.cc", "muduo::Thread"),
}


# ----------------------------------------------------------------------------- the deadline arithmetic (class T)
def assignment(s):
    """(printed left-hand side, opcode, right-hand side node) of `l = r` / `l += r`"""
    s = strip(s)
    if s.get("kind") not in ("BinaryOperator", "CompoundAssignOperator") or s.get("opcode") not in ("=", "+="):
        return None
    l, r = kids(s)
    l = strip(l)
    if l.get("kind") == "MemberExpr" and kids(l) and strip(kids(l)[0]).get("kind") == "DeclRefExpr":
        return "%s.%s" % (strip(kids(l)[0])["referencedDecl"]["name"], l["name"]), s["opcode"], r
    return None


class DeadlineTr(Tr):
    """casts between integer types do not change the value as long as nothing overflows (stated with the definition)"""

    def expr(self, n):
        n0 = n
        while n0.get("kind") in ("CXXStaticCastExpr", "CStyleCastExpr", "ImplicitCastExpr", "ParenExpr") and \
                n0.get("castKind", "IntegralCast") in ("IntegralCast", "NoOp", "LValueToRValue") and kids(n0):
            n0 = kids(n0)[-1]
        if n0 is not n:
            return self.expr(n0)
        return Tr.expr(self, n)


def deadline_section(fn):
    """`Condition::waitForSeconds`: the assignments to `abstime.tv_sec` / `abstime.tv_nsec` between the clock reading and
    the guard declaration (else the timed wait), translated in source order (each one a `let` that reads what the
    previous ones stored).  A store to `abstime` behind that point is visible in the skeleton `condWaitForSeconds`."""
    ss = [c for c in kids(body_of(fn))]

    def calls(s, name):
        return [x for x in walk(s) if x.get("kind") == "CallExpr" and callee_name(x) == name]
    clk_at = [i for i, s in enumerate(ss) if calls(s, "clock_gettime")]
    tw_at = [i for i, s in enumerate(ss) if calls(s, "pthread_cond_timedwait")]
    if len(clk_at) != 1 or len(tw_at) != 1 or not clk_at[0] < tw_at[0]:
        raise ExtractError("waitForSeconds: expected one clock_gettime followed by one pthread_cond_timedwait at the top level")
    clk, tw = calls(ss[clk_at[0]], "clock_gettime"), calls(ss[tw_at[0]], "pthread_cond_timedwait")
    if len(clk) != 1 or len(tw) != 1 or len(kids(clk[0])) != 3 or len(kids(tw[0])) != 4:
        raise ExtractError("waitForSeconds: clock_gettime / pthread_cond_timedwait of an unexpected shape")

    def addr_of(n):
        n = peel(n)
        if n.get("kind") == "UnaryOperator" and n.get("opcode") == "&" and peel(kids(n)[0]).get("kind") == "DeclRefExpr":
            return peel(kids(n)[0])["referencedDecl"]["name"]
        return None
    if addr_of(kids(clk[0])[2]) != "abstime" or addr_of(kids(tw[0])[3]) != "abstime":
        raise ExtractError("waitForSeconds: clock_gettime / pthread_cond_timedwait do not use `abstime`")
    clock = peel(kids(clk[0])[1])
    if clock.get("kind") != "IntegerLiteral":
        raise ExtractError("waitForSeconds: the clock id is not a constant")
    for s in ss[:clk_at[0]]:
        if assignment(s) is not None or any(x.get("kind") in CALL_KINDS for x in walk(s)):
            raise ExtractError("waitForSeconds: a statement in front of the clock reading assigns or calls")
    kval = None
    seen_ns = False
    lets = []
    sym = {"abstime.tv_sec": "sec", "abstime.tv_nsec": "nsec", "nanoseconds": "ns"}
    tr = DeadlineTr(sym, {"kNanoSecondsPerSecond": "kNanoSecondsPerSecond"}, int_mode=True)
    def is_guard(s):
        return s.get("kind") == "DeclStmt" and any(v.get("kind") == "VarDecl" and type_class(ctype(v)) in
                                                   ThreadEngine.guard_types + ThreadEngine.lock_types for v in kids(s))
    # the arithmetic ends where the guard is declared (everything from there on belongs to the skeleton only)
    end = min([i for i, s in enumerate(ss) if i > clk_at[0] and is_guard(s)] + [tw_at[0]])
    for s in ss[clk_at[0] + 1:end]:
        if s.get("kind") == "DeclStmt":
            for v in kids(s):
                if v.get("kind") != "VarDecl":
                    raise ExtractError("waitForSeconds: declaration of a %s" % v.get("kind"))
                if v["name"] == "kNanoSecondsPerSecond":
                    if not kids(v) or strip(kids(v)[-1]).get("kind") != "IntegerLiteral" or "const" not in ctype(v):
                        raise ExtractError("waitForSeconds: kNanoSecondsPerSecond is not a local constant with a literal initialiser")
                    kval = int(strip(kids(v)[-1])["value"])
                elif v["name"] == "nanoseconds":
                    # static_cast<int64_t>(seconds * kNanoSecondsPerSecond): the product is a double, the cast truncates
                    prod = kids(v)[-1] if kids(v) else {}
                    casts = [x.get("castKind") for x in walk(prod)]
                    mul = [x for x in walk(prod) if x.get("kind") == "BinaryOperator"]
                    leaves = sorted(x["referencedDecl"]["name"] for x in walk(prod) if x.get("kind") == "DeclRefExpr")
                    if "FloatingToIntegral" not in casts or len(mul) != 1 or mul[0].get("opcode") != "*" or \
                            leaves != ["kNanoSecondsPerSecond", "seconds"] or "int64_t" not in ctype(v):
                        raise ExtractError("waitForSeconds: nanoseconds is no longer int64_t(seconds * kNanoSecondsPerSecond)")
                    seen_ns = True
                else:
                    raise ExtractError("waitForSeconds: local `%s` between the clock reading and the wait" % v["name"])
            continue
        a = assignment(s)
        if a is None or a[0] not in ("abstime.tv_sec", "abstime.tv_nsec"):
            raise ExtractError("waitForSeconds: a statement between the clock reading and the wait that is not an assignment "
                               "to abstime.tv_sec / abstime.tv_nsec (%s)" % s.get("kind"))
        if not seen_ns or kval is None:
            raise ExtractError("waitForSeconds: abstime is updated before nanoseconds / kNanoSecondsPerSecond are defined")
        var = sym[a[0]]
        rhs = tr.expr(a[2])
        lets.append("  let %s := %s" % (var, unparen(rhs) if a[1] == "=" else "%s + %s" % (var, rhs)))
    if kval is None or not seen_ns:
        raise ExtractError("waitForSeconds: kNanoSecondsPerSecond / nanoseconds not found")
    out = []
    out.append("/-- `const int64_t kNanoSecondsPerSecond` of `Condition::waitForSeconds` -/\ndef kNanoSecondsPerSecond : Int := %d\n" % kval)
    out.append("/-- the clock `Condition::waitForSeconds` reads (`CLOCK_REALTIME` = 0, `CLOCK_MONOTONIC` = 1) -/\n"
               "def waitClockId : Int := %d\n" % int(clock["value"]))
    out.append("/-- a `struct timespec` -/\nstructure Timespec where\n  tv_sec : Int\n  tv_nsec : Int\nderiving DecidableEq, Repr\n")
    out.append("/-- `Condition::waitForSeconds(seconds)`: the absolute deadline handed to `pthread_cond_timedwait`, from the clock\n"
               "reading `now` (`clock_gettime(.., &abstime)`) and `ns = static_cast<int64_t>(seconds * kNanoSecondsPerSecond)` (the\n"
               "double-to-integer conversion is the caller's).  The assignments to `abstime.tv_sec` / `abstime.tv_nsec` in source\n"
               "order, each one reading what the previous ones stored; `/` and `%%` of `int64_t` are `Int.tdiv` / `Int.tmod`\n"
               "(truncation towards zero).  Exact as long as no intermediate value leaves `int64_t`. -/\n"
               "def waitForSecondsDeadline (now : Timespec) (ns : Int) : Timespec :=\n"
               "  let sec := now.tv_sec\n  let nsec := now.tv_nsec\n%s\n  { tv_sec := sec, tv_nsec := nsec }\n" % "\n".join(lets))
    return "\n".join(out)


HEAD_DOC = """/-!
Statement skeletons of muduo's threading primitives (`muduo/base/Mutex.h`, `Condition.h`, `Condition.cc`,
`CountDownLatch.cc`, `Thread.cc`, `CurrentThread.h`): the significant actions in source order - stores to members,
thread-locals and through pointers (`x += e` is the store of `x + e`), initialised locals and assignments to locals
(`assign`), calls of other functions of muduo (`call`; `call func_` is the call of the `std::function` member), pthread /
libc / system calls (`sys`; `mcheck` when wrapped in `MCHECK(..)`, i.e. the result is asserted to be 0),
`MutexLockGuard g(m)` (`lock m`, and `unlock m` where the block that declares it ends), any other RAII guard
(`guard T m` .. `guardEnd T m`), assertions (by their source text), `delete p`, `throw;` (`rethrow`),
`LOG_SYSFATAL` / `LOG_FATAL` (`fatal`), `return <value>` - with every expression printed canonically (casts dropped,
minimal parentheses, macros expanded: `ETIMEDOUT` = 110, `PR_SET_NAME` = 15, `SYS_gettid` = 186, `CLOCK_REALTIME` = 0).
An `if` is `ite <condition> then else`, a `while` is `loop .whileDo <condition> body`, `try { b } catch (D) { h }` is
`attempt b` followed by one `handler D h` per clause.  An expression contains at most one action call; it is emitted in
front of the statement that uses its value, which prints it as `<result>`.
`Proofs/ThreadSkelTie.lean` proves each skeleton equal to the one the models rely on (`Model/ThreadSkelDecl.lean`).

Not part of a skeleton (the models abstract from exactly these):
* I1 log statements below FATAL and diagnostic output (`fprintf(stderr, ..)` whose arguments call nothing but `c_str()`,
  `what()`, `stackTrace()`);
* I2 declarations of locals without an initialiser or default-constructed (`struct timespec abstime`, `char buf[32]`);
* I3 casts of every kind (`static_cast<pid_t>`, `static_cast<int64_t>(seconds * k)`, implicit conversions, temporaries,
  `std::move`), `(void)x`, `__builtin_expect(c, v)` (= `c`);
* I4 base-class initialisers (`noncopyable`) and default-constructed members (`mutex_()`) of a constructor;
* I5 `MUDUO_VERIF_POINT` (an empty `do { } while (0)`) and empty statements.
Not extracted: `CurrentThread::stackTrace`, the one-line getters.

`waitForSecondsDeadline` is a TRANSLATION (not a skeleton): the deadline arithmetic of `Condition::waitForSeconds`.
-/
"""


def generate():
    dumps = {k: index_functions(ast_dump(tu, flt)) for k, (tu, flt) in DUMPS.items()}
    out = [HEADER % "muduo/base/Mutex.h, Condition.h, Condition.cc, CountDownLatch.cc, Thread.cc, CurrentThread.h",
           "import MuduoVerif.Model.ThreadSkelDecl\n", HEAD_DOC, "namespace MuduoVerif.Gen.ThreadSkel", "open MuduoVerif.ThreadSkel\n"]
    wfs = None
    for lean, key, owner, cxx, qual, path in FUNCTIONS:
        fs = pick(dumps[key], owner, cxx)
        if len(fs) != 1:
            raise ExtractError("expected exactly one definition of %s%s, found %d" % (owner + "::" if owner else "", cxx, len(fs)))
        fn = fs[0]
        w = TWalker(ThreadEngine, owner, fn.get("name"), {}, None)
        w.local_ids = frozenset(x.get("id") for x in walk(fn) if x.get("kind") in ("VarDecl", "ParmVarDecl"))
        items = []
        if fn.get("kind") == "CXXConstructorDecl":
            w.ctor_inits(fn, items)
        w.stmt(body_of(fn), items)
        out.append("/-- `%s(%s)` (%s) -/" % (qual, ", ".join(t.replace("muduo::", "") for t in param_types(fn)), path))
        if items:
            out.append("def %s : List Skel :=\n  [\n%s\n  ]\n" % (lean, render(items, 4)))
        else:
            out.append("def %s : List Skel := []\n" % lean)
        if lean == "condWaitForSeconds":
            wfs = fn
    out.append("/-! ## The deadline arithmetic of `Condition::waitForSeconds` (translated) -/\n")
    out.append(deadline_section(wfs))
    out.append("end MuduoVerif.Gen.ThreadSkel")
    return "\n".join(out) + "\n"
