"""Free-running, oracle-only scenarios around the REAL TcpServer (harness/server_drv.cc).

Supporting evidence and failing-input search for C01 (stream clauses) and C02 (life-cycle, thread affinity, naming,
leak and io-thread assignment clauses).  NOT a proof and not a differential run: there is no model here; each scenario
is one process in which a TcpServer with N io threads talks to K raw-socket peers (plain sockets, no muduo) and the
harness's oracle is evaluated on the recorded trace after everything has been torn down.  The schedule is whatever the
kernel picks, so a replay re-runs the same *scenario*, not necessarily the same interleaving: `replay()` re-runs it up
to 5 times.

What the single-connection engine (conn_drv) cannot see and this one can: Acceptor, TcpServer::newConnection (names,
the connection map), removeConnection's hop io loop -> base loop -> io loop, ~TcpServer with live connections,
EventLoopThreadPool::getNextLoop.

A safety-net timeout anywhere ends a scenario as INCONCLUSIVE (a note, never a failure); no clause depends on timing.
"""
import os
import time

from .common import sh
from .runner import Case

# (textual address, ipv6?, histogram name).  The long form is a v4-mapped address: it binds on Linux without any
# interface configuration (127/8 is local) and, with a real port number, makes "-[::ffff:127.100.100.100]:54321#12"
# (34 characters) the suffix TcpServer::newConnection formats into its fixed-size buffer.
ADDRS = [("127.0.0.1", 0, "v4"), ("::1", 1, "v6"), ("::ffff:127.100.100.100", 1, "v6-long")]
SIZES = [0, 1, 2, 7, 100, 1023, 1024, 1025, 4095, 4096, 4097, 65535, 65536, 65537, 200000]
CAUSES = [("fin", 22), ("rst", 13), ("H", 18), ("C", 15), ("T", 12), ("stay", 20)]
CAUSE_NAME = {"fin": "peer-FIN", "rst": "peer-RST", "H": "server-shutdown", "C": "server-forceClose",
              "T": "server-forceCloseWithDelay", "stay": "server-destroyed", "stayfin": "server-destroyed-racing-peer-FIN",
              "stayrst": "server-destroyed-racing-peer-RST"}

# which failure kinds of the harness's oracle belong to which property ("crash"/"sanitizer": nothing can be judged)
C01_KINDS = ("stream-",)
COMMON_KINDS = ("crash", "sanitizer", "tsan")


# a scenario usually violates several clauses at once; report the one closest to the cause first
PRIORITY = ["peer-address", "name-dup", "round-robin", "pool-size", "affinity", "down-without-up", "double-up", "double-down", "up-after-down",
            "msg-before-up", "msg-after-down", "leak-after-down", "bad-log", "stream-", "write-complete-count", "fatal-log",
            "no-up", "never-served", "no-down", "leak", "fd-leak", "sanitizer", "tsan", "crash"]


def _prio(kind):
    for i, p in enumerate(PRIORITY):
        if kind == p or kind.startswith(p):
            return i
    return len(PRIORITY)


def relevant(prop_id, kind):
    if kind in COMMON_KINDS:
        return True
    is_stream = kind.startswith(C01_KINDS)
    return is_stream if prop_id == "C01" else not is_stream


def _pick(rng, weighted):
    tot = sum(w for _, w in weighted)
    x = rng.random() * tot
    for v, w in weighted:
        x -= w
        if x < 0:
            return v
    return weighted[-1][0]


def _size(rng, big_left):
    r = rng.random()
    if r < 0.45:
        return rng.choice(SIZES[:8])
    if r < 0.7:
        return rng.randrange(0, 6000)
    s = rng.choice(SIZES)
    if s >= 65535 and big_left[0] <= 0:
        return rng.choice(SIZES[:11])
    if s >= 65535:
        big_left[0] -= 1
    return s


def gen_scenario(rng, race=False):
    """returns the scenario text lines (what the harness reads on stdin) and a summary dict for the histograms"""
    n = rng.choice([0, 1, 2, 3])
    addr, v6, akind = rng.choice(ADDRS)
    portmode = "probe" if akind == "v6-long" else rng.choice(["zero", "probe"])
    poll = rng.randrange(2)
    end = rng.choice(["quit", "inloop"])
    k = rng.choice([1, 2, 3, 4, 5, 6, 8, 12]) if rng.random() < 0.8 else rng.randrange(1, 13)
    sndbuf = rng.choice([4096, 4096, 16384]) if rng.random() < 0.45 else 0
    lines = ["server threads=%d addr=%s v6=%d port=%s poll=%d end=%s reuseport=%d sndbuf=%d" % (n, addr, v6, portmode, poll, end, 1 if rng.random() < 0.1 else 0, sndbuf)]
    big_left = [3]
    causes = []
    for i in range(k):
        cause = _pick(rng, CAUSES)
        if race and cause == "stay":
            # NOT in the default mix: a close in flight while ~TcpServer runs ("FIXME: unsafe" in TcpServer.cc)
            cause = rng.choice(["stayfin", "stayrst", "stay"])
        causes.append(cause)
        steps = []
        nsteps = rng.randrange(0, 7)
        if cause == "rst" and rng.random() < 0.3:
            nsteps = 0
        tx = 0
        for _ in range(nsteps):
            r = rng.random()
            ln = _size(rng, big_left)
            seed = rng.randrange(1, 1 << 30)
            if r < 0.45:
                steps.append("E:%d:%d:%d:%d:%d" % (seed, ln, rng.randrange(3), rng.choice([0, 0, 1, 2]), 1 if rng.random() < 0.15 else 0))
                tx += ln
            elif r < 0.7:
                steps.append("S:%d:%d:%d:%d:%d" % (seed, ln, rng.randrange(3), rng.choice([0, 1, 1, 2]), 1 if rng.random() < 0.15 else 0))
            elif r < 0.85:
                steps.append("D:%d:%d" % (seed, ln))
                tx += ln
            elif r < 0.95:
                steps.append("sync")
            else:
                steps.append("nap:%d" % rng.choice([50, 300, 2000]))
        seed = rng.randrange(1, 1 << 30)
        if cause == "H":
            steps.append("H:%d:%d:%d:%d" % (seed, _size(rng, big_left), rng.randrange(3), rng.choice([0, 0, 1, 2])))
        elif cause == "C":
            if rng.random() < 0.4:
                steps.append("sync")
            steps.append("C:%d:%d:%d:%d" % (seed, rng.choice([0, 0, 1, 100, 4096, 65536]), rng.randrange(3), rng.choice([0, 0, 1, 2])))
        elif cause == "T":
            if rng.random() < 0.4:
                steps.append("sync")
            steps.append("T:%d:%d:%d:%d:%d" % (rng.choice([0, 1, 3, 10, 25]), seed, rng.choice([0, 1, 100, 4096]), rng.randrange(3), rng.choice([0, 0, 1, 2])))
        else:
            if cause == "rst" and steps and rng.random() < 0.5:
                steps.append("sync")
            steps.append(cause)
        start = "now"
        if i > 0:
            r = rng.random()
            if r < 0.25:
                start = "closing:%d" % rng.randrange(i)
            elif r < 0.40:
                start = "after:%d" % rng.randrange(i)
        rcvbuf, slow = 0, 0
        if rng.random() < 0.2:
            rcvbuf, slow = rng.choice([2048, 4096, 16384]), rng.choice([0, 100, 300])
        chunk = 0
        if rng.random() < 0.3:
            chunk = rng.choice([13, 1000, 4096, 65536]) if tx > 5000 else rng.choice([1, 13, 1000])
        lines.append("peer %d start=%s rcvbuf=%d slow=%d chunk=%d steps=%s" % (i, start, rcvbuf, slow, chunk, ",".join(steps)))
    return lines, {"N": n, "addr": akind, "port": portmode, "poll": poll, "end": end, "K": k, "causes": causes}


def gen_bulk_scenario(rng):
    """The "bulk upload" family: >= 2 io threads, >= 2 raw peers that all start at once and each write one frame of
    several MiB (the server's message callback leaves an incomplete frame in the input buffer, so after the first
    append the buffer never has writable room and EVERY readv of every connection goes through Buffer::readFd's spill
    area), the io threads therefore read concurrently for the whole scenario; the content check is the per-connection
    running FNV of what the message callbacks were shown (stream-c2s) plus the echo of a small trailing frame.
    State that the io threads must not share (the spill area, a static scratch buffer, a cached iovec ...) shows here."""
    n = rng.choice([2, 2, 3])
    k = rng.choice([2, 3]) if n == 2 else rng.choice([3, 4])
    addr, v6, akind = rng.choice(ADDRS[:2])
    poll = rng.randrange(2)
    end = rng.choice(["quit", "inloop"])
    portmode = rng.choice(["zero", "probe"])
    lines = ["server threads=%d addr=%s v6=%d port=%s poll=%d end=%s reuseport=0 sndbuf=0" % (n, addr, v6, portmode, poll, end)]
    budget = 9 << 20          # bytes per scenario (generation and hashing cost, not a limit of the library)
    per = budget // k
    for i in range(k):
        steps = []
        if rng.random() < 0.3:
            steps.append("D:%d:%d" % (rng.randrange(1, 1 << 30), rng.choice([0, 1, 100, 4096])))
        steps.append("D:%d:%d" % (rng.randrange(1, 1 << 30), rng.randrange(per // 2, per)))
        if rng.random() < 0.5:
            steps.append("E:%d:%d:%d:0:0" % (rng.randrange(1, 1 << 30), rng.choice([1, 100, 5000]), rng.randrange(3)))
        steps.append("fin")
        chunk = rng.choice([0, 0, 65536, 1 << 20])
        lines.append("peer %d start=now rcvbuf=0 slow=0 chunk=%d steps=%s" % (i, chunk, ",".join(steps)))
    return lines, {"N": n, "addr": akind, "port": portmode, "poll": poll, "end": end, "K": k, "causes": ["fin"] * k, "family": "bulk"}


def is_bulk_slot(i):
    """which scenarios of an exploration are taken from the bulk family: the first three, then every twelfth"""
    return i < 3 or i % 12 == 0


def run_scenario(exe, lines, timeout=150):
    """-> (status, fails, notes, out, err); status in PASS / FAIL / INCONCLUSIVE; fails = [(kind, details)]"""
    env = {"TSAN_OPTIONS": "halt_on_error=0 exitcode=66 second_deadlock_stack=1", "ASAN_OPTIONS": "detect_leaks=1"}
    rc, out, err = sh([exe], inp="\n".join(lines) + "\n", timeout=timeout, env=env)
    fails, notes = [], []
    for l in out.split("\n"):
        if l.startswith("FAIL "):
            w = l.split(" ", 2)
            fails.append((w[1], w[2] if len(w) > 2 else ""))
        elif l.startswith("INCONCLUSIVE ") or l.startswith("NOTE "):
            notes.append(l)
    fails.sort(key=lambda f: _prio(f[0]))
    if rc == 124:
        return "INCONCLUSIVE", [], notes + ["INCONCLUSIVE the harness did not end within %ds" % timeout], out, err
    tsan = [l.strip() for l in err.split("\n") if "WARNING: ThreadSanitizer" in l]
    if tsan:
        where = [l.strip() for l in err.split("\n") if l.strip().startswith("#0 ") or l.strip().startswith("#1 ")][:6]
        return "FAIL", fails + [("tsan", "%s %s" % (tsan[0], " | ".join(where)[:600]))], notes, out, err
    if rc in (0, 1, 2) and (rc != 1 or fails):
        return ("PASS", "FAIL", "INCONCLUSIVE")[rc], fails, notes, out, err
    # the process died: what it managed to say on stderr (an online FAIL line, an assertion, a sanitizer report)
    early = []
    for l in err.split("\n"):
        if l.startswith("FAIL "):
            w = l.split(" ", 2)
            early.append((w[1], (w[2] if len(w) > 2 else "") + " (then the process died with status %d)" % rc))
    san = [l.strip() for l in err.split("\n") if "ERROR: AddressSanitizer" in l or "runtime error:" in l or l.startswith("SUMMARY:")]
    tail = [l for l in err.strip().split("\n") if l.strip()][-3:]
    what = "the server process died with status %d: %s" % (rc, " | ".join(san[:2] or tail)[:600])
    return "FAIL", sorted(early, key=lambda f: _prio(f[0])) + [("sanitizer" if san else "crash", what)], notes, out, err


def _case(lines, flavour, origin="generated"):
    return Case("server", ["# flavour=%s (free-running: the schedule may differ from run to run; ./check --replay re-runs it up to 5 times)" % flavour] + list(lines), origin)


def _flavours(ctx):
    from . import build
    fl = ["dbg", "ndebug"]
    if not ctx.quick() or ctx.search_mode:
        for f in ("asan", "tsan"):
            try:
                ctx.exe("server_drv", f)
                fl.append(f)
            except build.BuildError as ex:
                ctx.notes.append("server_free: flavour %s does not build here (%s); skipped" % (f, ex.what))
    return fl


def explore(ctx, prop_id, n_quick=24, n_thorough=2000, budget_quick=12.0, budget_thorough=220.0):
    """runs scenarios until the count or the effort budget (wall clock; it limits effort only, no verdict depends on it)
    is used up; appends at most one failure to ctx.oracle_failures"""
    flavours = _flavours(ctx)
    exes = {f: ctx.exe("server_drv", f) for f in flavours}
    n = n_quick if ctx.quick() and not ctx.search_mode else n_thorough
    budget = budget_quick if ctx.quick() and not ctx.search_mode else budget_thorough
    if ctx.quick() and ctx.search_mode:
        budget = 60.0
    t0 = time.time()
    ctx.extra["server_free"] = ("free-running TcpServer scenarios (N io threads, raw-socket peers, oracle only): supporting evidence, "
                                "not proof; flavours " + ",".join(flavours))
    done = 0
    # corpus first: witnesses of repaired defects (free-running: each is run three times)
    import glob
    import os
    from .common import CORPUS
    for path in sorted(glob.glob(os.path.join(CORPUS, "server", "*.scenario"))):
        clines = [l.rstrip("\n") for l in open(path) if l.startswith("server ") or l.startswith("peer ")]
        for flav in flavours[:2]:
            for _ in range(3):
                status, fails, notes, out, err = run_scenario(exes[flav], clines)
                ctx.count("server:corpus-runs")
                mine = [(k, d) for k, d in fails if relevant(prop_id, k) or k in ("crash", "sanitizer", "tsan")]
                if prop_id == "C02" and mine:
                    ctx.oracle_failures.append((_case(clines, flav, "corpus:" + os.path.basename(path)), "server:" + mine[0][0],
                                                mine[0][1] + " [corpus scenario %s, %s]" % (os.path.basename(path), flav)))
                    return
    for i in range(n):
        if time.time() - t0 > budget or ctx.stop():
            break
        # every fourth scenario tears the server down while closes are still in flight
        if is_bulk_slot(i):
            lines, info = gen_bulk_scenario(ctx.rng)
            ctx.count("server:family:bulk-upload")
        else:
            lines, info = gen_scenario(ctx.rng, race=(i % 4 == 3))
        flav = flavours[i % len(flavours)]
        status, fails, notes, out, err = run_scenario(exes[flav], lines)
        done += 1
        ctx.count("server:scenarios")
        ctx.count("server:flavour:" + flav)
        ctx.count("server:N=%d" % info["N"])
        ctx.count("server:addr:" + info["addr"])
        ctx.count("server:port:" + info["port"])
        ctx.count("server:poller:" + ("poll" if info["poll"] else "epoll"))
        ctx.count("server:teardown:" + info["end"])
        ctx.count("server:peers", info["K"])
        for c in info["causes"]:
            ctx.count("server:cause:" + CAUSE_NAME[c])
        ctx.count("server:result:" + status)
        nb = sum(int(l.split("backlogged=")[1].split()[0]) for l in out.split("\n") if l.startswith("P ") and "backlogged=" in l)
        if nb:
            ctx.count("server:io-thread-sends-left-a-backlog", nb)
        case = _case(lines, flav)
        summary = [l for l in out.split("\n") if l.startswith("P ") or l.startswith("PASS")]
        ctx.record(case, [[lines[0]] + [l.split(" steps=")[1] for l in lines[1:]]], nontrivial=status == "PASS",
                   sample={"engine": "server (free-running)", "flavour": flav, "scenario": lines[:4], "result": summary[:4]} if i < 1 else None)
        if status == "INCONCLUSIVE":
            ctx.notes.append("server_free: scenario %d (%s) INCONCLUSIVE: %s" % (i, flav, "; ".join(notes)[:300]))
            continue
        mine = [(k, d) for k, d in fails if relevant(prop_id, k)]
        other = [(k, d) for k, d in fails if not relevant(prop_id, k)]
        if other:
            ctx.notes.append("server_free: scenario %d (%s) violates a clause decided under %s: %s %s" % (
                i, flav, "C01" if prop_id == "C02" else "C02", other[0][0], other[0][1][:200]))
        if mine:
            kind, desc = mine[0]
            # how stable is it?  (free-running: say so)
            again = 0
            for _ in range(5):
                s2, f2, _, _, _ = run_scenario(exes[flav], lines)
                if s2 == "FAIL" and any(k == kind for k, _ in f2):
                    again += 1
            ctx.oracle_failures.append((case, "server:" + kind,
                                        "%s [free-running TcpServer scenario, %s, N=%d io threads, %s, %d peers; the same failure kind came back in %d of 5 re-runs]"
                                        % (desc, flav, info["N"], info["addr"], info["K"], again)))
            break
    ctx.extra["server_free_scenarios"] = done
    ctx.extra["server_free_wall_s"] = round(time.time() - t0, 1)


def is_server_replay(path):
    try:
        with open(path) as f:
            first = f.readline()
        return first.startswith("engine=server")
    except OSError:
        return False


def replay(ctx, prop_id, path):
    """re-run the scenario of a replay file (up to 5 times: the schedule is free-running) and report"""
    flavour, lines = "dbg", []
    with open(path) as f:
        for l in f:
            l = l.rstrip("\n")
            if l.startswith("# flavour="):
                flavour = l[len("# flavour="):].split()[0]
            if l.startswith("server ") or l.startswith("peer "):
                lines.append(l)
    exe = ctx.exe("server_drv", flavour)
    case = _case(lines, flavour, "replay")
    for attempt in range(1, 6):
        status, fails, notes, out, err = run_scenario(exe, lines)
        ctx.count("server:replay-runs")
        ctx.record(case, [[status]], nontrivial=True, sample={"engine": "server (free-running)", "flavour": flavour, "attempt": attempt, "result": status})
        mine = [(k, d) for k, d in fails if relevant(prop_id, k)]
        print("[server/%s] attempt %d: %s %s" % (flavour, attempt, status, "; ".join("%s %s" % f for f in (mine or fails))[:400]))
        if mine:
            print("\n".join(l for l in out.split("\n") if l.startswith("T ") or l.startswith("P "))[-6000:])
            said = [l.rstrip() for l in err.split("\n") if any(t in l for t in ("ERROR: AddressSanitizer", "SUMMARY:", "Assertion", "FATAL", "ThreadSanitizer", "FAIL "))
                    or l.strip().startswith(("#0 ", "#1 ", "#2 ", "#3 "))]
            if said:
                print("\n".join(l[:300] for l in said[:24]))
            ctx.oracle_failures.append((case, "server:" + mine[0][0], mine[0][1] + " [replay attempt %d of 5, %s]" % (attempt, flavour)))
            return
        for nl in notes:
            if nl.startswith("INCONCLUSIVE"):
                ctx.notes.append("server_free replay: " + nl)
    print("[server/%s] not reproduced in 5 runs (free-running schedules differ from run to run)" % flavour)
