"""Deterministic differential test of the multi-loop ownership protocol of muduo::net::TcpServer (engine `owner`).

Implementation: harness/owner_drv.cc - the REAL TcpServer with L io threads and raw-socket peers on loopback; every
loop thread is gated, exactly one thread runs at a time, the schedule is the case text.  Model: drv_owner
(lean/Driver/OwnerDrv.lean over lean/MuduoVerif/Model/Owner.lean).  One case = one schedule; the implementation's
`<` lines (which event / functor / batch end / loop exit happened) are fed to the model in front of the op during which
they were recorded (Ctx.model_input), the `t ...` / `st ...` lines are compared (Ctx.compare).

The oracle below is evaluated on the implementation's own output only (never the model).

Usage: since /repo c11cd6c (close callback = removeConnectionGuarded with a life token; ~Channel does not touch its loop)
the server may be destroyed while the close of one of its connections is in flight, and a user's reference may be dropped
after the connection's loop is gone: `gen_case(rng, race=True)` (the default) produces such schedules and they are judged
like all others.  The rule of the older code (TcpServer.cc's "FIXME: unsafe") is still available as
`usage_violation(lines, blocks, strict=True)`; `close_in_flight()` is used for the histograms only.
"""
import glob
import os
import sys
import time

from .common import CORPUS
from .runner import Case, ddmin, split_blocks

ENGINE = "owner"
CAUSE_OPS = ("fin", "rst", "forceClose")
KINDS = ("new", "up", "msg", "down", "erase", "destroyed", "dtor")

# a case usually violates several clauses at once: report the one closest to the cause first
PRIORITY = ["crash", "sanitizer", "name", "pool-size", "map-thread", "round-robin", "affinity", "down-without-up", "double-up", "up-after-down",
            "double-down", "msg-before-up", "msg-after-down", "erase-order", "bad-dtor", "fd-close", "order", "no-down", "leak"]


def _prio(kind):
    return PRIORITY.index(kind) if kind in PRIORITY else len(PRIORITY)


# ---------------------------------------------------------------------------------------------------
# generator

def _pick(rng, weighted):
    tot = sum(w for _, w in weighted)
    x = rng.random() * tot
    for v, w in weighted:
        x -= w
        if x < 0:
            return v
    return weighted[-1][0]


def drain_rounds(npeers):
    """complete rounds (every loop iterated once) after which nothing is in flight any more: one accept per base
    iteration, then est / close event / removeConnectionInLoop / connectDestroyed on alternating loops"""
    return npeers + 4


def gen_case(rng, race=True, strand=False):
    """-> list of op lines.  race=True (default): in about half of the cases the server is destroyed without waiting for
    the closes in flight, and user references are dropped at any time (also after their loop is gone).
    strand=False (default): with L=0 the base loop is always parked before its poll when `quit` is given, so that the
    functors a close queues for the connection's own (= the base) loop are not queued from inside the drain at the exit
    of loop() - they would be stranded there (known finding, corpus/owner/strand-L0-forceClose-quit.case.disabled)."""
    race = race and rng.random() < 0.55
    L = _pick(rng, [(0, 2), (1, 2), (2, 5), (3, 2)])
    lines = ["server %d %d" % (L, 1 if rng.random() < 0.3 else 0)]
    maxpeers = rng.randint(1, 6)
    peers = []          # per peer: dict(open=, cause=)
    holds = {}          # c -> copies the controller holds (as far as the generator knows)
    later = []          # ops to be issued a few steps from now: [countdown, op]

    def loop_of(c):
        return 1 + c % L if L else 0

    def any_loop():
        return rng.randrange(L + 1)

    def walk(l):
        """advance loop l: one iteration, in one piece or gate by gate"""
        if rng.random() < 0.7:
            lines.append("iter %d" % l)
        else:
            for _ in range(rng.randint(1, 4)):
                lines.append("step %d" % l)

    def close_seq(c, full):
        seq = [loop_of(c), 0, loop_of(c)] if full else [loop_of(c), 0, loop_of(c)][:rng.randint(0, 2)]
        for l in seq:
            walk(l)

    def live_peers():
        return [i for i, p in enumerate(peers) if p["open"]]

    def uncaused():
        return [i for i, p in enumerate(peers) if not p["cause"]]

    n = rng.randint(3, 28)
    for _ in range(n):
        for it in later:
            it[0] -= 1
        for it in [it for it in later if it[0] <= 0]:
            later.remove(it)
            lines.append(it[1])
            if it[1].startswith("fin "):
                p = int(it[1].split()[1])
                peers[p]["cause"] = True
        k = _pick(rng, [("connect", 3.0 if len(peers) < maxpeers else 0.0), ("iter", 5.0), ("step", 3.0), ("send", 3.0), ("fin", 1.5),
                        ("rst", 1.0), ("forceClose", 1.5), ("shutdown", 1.0), ("hold", 1.2), ("drop", 1.2)])
        if k == "connect":
            c = len(peers)
            peers.append({"open": True, "cause": False})
            if L and rng.random() < 0.15:
                # the acceptor thread is preempted right after the hand-over of connectEstablished (see handover_case)
                lines.append("holdHandover")
                lines.append("connect")
                if rng.random() < 0.5:
                    lines.append("fin %d" % c)
                    peers[c]["cause"] = True
                lines.append("iter 0")
                for _ in range(rng.randint(0, 3)):
                    walk(loop_of(c) if rng.random() < 0.8 else any_loop())
                lines.append("iter 0")
                continue
            lines.append("connect")
            if rng.random() < 0.8:
                walk(0)
                if rng.random() < 0.75:
                    walk(loop_of(c))
        elif k == "iter":
            lines.append("iter %d" % any_loop())
        elif k == "step":
            l = any_loop()
            for _ in range(rng.randint(1, 3)):
                lines.append("step %d" % l)
        elif k == "send" and live_peers():
            p = rng.choice(live_peers())
            lines.append("send %d %d" % (p, rng.choice([1, 10, 100, 1000, 4096])))
            if rng.random() < 0.7:
                walk(loop_of(p))
        elif k == "fin" and live_peers():
            p = rng.choice(live_peers())
            lines.append("fin %d" % p)
            peers[p]["cause"] = True
            if rng.random() < 0.8:
                close_seq(p, rng.random() < 0.7)
        elif k == "rst" and live_peers():
            p = rng.choice(live_peers())
            lines.append("rst %d" % p)
            peers[p]["open"] = False
            peers[p]["cause"] = True
            if rng.random() < 0.8:
                close_seq(p, rng.random() < 0.7)
                if rng.random() < 0.5:
                    walk(loop_of(p))
        elif k == "forceClose" and peers:
            c = rng.randrange(len(peers))
            lines.append("forceClose %d" % c)
            peers[c]["cause"] = True
            if rng.random() < 0.8:
                close_seq(c, rng.random() < 0.7)
        elif k == "shutdown" and peers:
            c = rng.randrange(len(peers))
            lines.append("shutdown %d" % c)
            if rng.random() < 0.7:
                walk(loop_of(c))
            if peers[c]["open"] and rng.random() < 0.7:
                later.append([rng.randint(1, 4), "fin %d" % c])
        elif k == "hold" and peers:
            c = rng.randrange(len(peers))
            lines.append("hold %d" % c)
            holds[c] = holds.get(c, 0) + 1
        elif k == "drop" and any(holds.values()):
            c = rng.choice([c for c, v in holds.items() if v])
            lines.append("drop %d" % c)
            holds[c] -= 1

    def quit_():
        if L == 0 and not strand:
            lines.append("iter 0")
        lines.append("quit")

    def drop_all():
        for c in sorted(holds):
            while holds[c]:
                lines.append("drop %d" % c)
                holds[c] -= 1

    def drain():
        for _ in range(drain_rounds(len(peers)) + 1):
            order = list(range(1, L + 1))
            rng.shuffle(order)
            for l in order + [0]:
                lines.append("iter %d" % l)

    for it in later:
        lines.append(it[1])
        if it[1].startswith("fin "):
            peers[int(it[1].split()[1])]["cause"] = True
    early_drop = rng.random() < 0.5
    keep_holds = (L == 0 and rng.random() < 0.4) or race
    if not race:
        if early_drop and not keep_holds:
            drop_all()
        drain()
        if not keep_holds:
            drop_all()      # a reference that outlived everything else: the destructor runs on the controller thread
    elif rng.random() < 0.5:
        # a few rounds only: some closes have got half way
        for _ in range(rng.randint(1, 3)):
            for l in rng.sample(range(L + 1), rng.randint(1, L + 1)):
                lines.append("iter %d" % l)

    ending = _pick(rng, [("inloop", 6), ("quit", 3), ("drained", 2)] if race else [("inloop", 4), ("quit", 3), ("drained", 3)])
    if race and rng.random() < 0.6:
        # closes the server side has not even noticed, or has handled half way, when the server goes
        for c in rng.sample(uncaused(), min(len(uncaused()), rng.randint(1, 3))):
            how = rng.choice(["fin", "rst", "forceClose"]) if peers[c]["open"] else "forceClose"
            lines.append("%s %d" % (how, c))
            peers[c]["cause"] = True
            peers[c]["open"] = peers[c]["open"] and how != "rst"
            for l in [loop_of(c), 0, loop_of(c)][:rng.choice([0, 0, 1, 1, 2, 3])]:
                lines.append("%s %d" % (rng.choice(["iter", "iter", "step"]), l))
    if ending in ("inloop", "quit") and not race and rng.random() < 0.35:
        # a close that has got as far as DOWN (removeConnectionInLoop / connectDestroyed possibly still queued) when
        # the server is destroyed: every loop is parked before its poll and nothing is unread here, so the first
        # iteration of the connection's loop handles the close (an RST may take two: error first, then end of stream)
        for c in rng.sample(uncaused(), min(len(uncaused()), rng.randint(1, 2))):
            how = rng.choice(["fin", "rst", "forceClose"]) if peers[c]["open"] else "forceClose"
            lines.append("%s %d" % (how, c))
            peers[c]["cause"] = True
            peers[c]["open"] = peers[c]["open"] and how != "rst"
            lines.append("iter %d" % loop_of(c))
            if how == "rst":
                lines.append("iter %d" % loop_of(c))
            if rng.random() < 0.5:
                lines.append("iter 0")
                if rng.random() < 0.5:
                    lines.append("step %d" % loop_of(c))
    if ending in ("inloop", "quit"):
        # the server is destroyed with connections up and idle / still connecting / half closed / with unread bytes
        for _ in range(rng.randint(0, 3)):
            x = rng.random()
            if x < 0.35 and len(peers) < maxpeers + 2:
                c = len(peers)
                peers.append({"open": True, "cause": False})
                lines.append("connect")
                lines.append("iter 0")
                if rng.random() < 0.4:
                    walk(loop_of(c))
            elif x < 0.6 and uncaused():
                c = rng.choice(uncaused())
                lines.append("shutdown %d" % c)
                if rng.random() < 0.7:
                    walk(loop_of(c))
            elif x < 0.8 and [p for p in uncaused() if peers[p]["open"]]:
                lines.append("send %d %d" % (rng.choice([p for p in uncaused() if peers[p]["open"]]), rng.choice([1, 100, 4096])))
            elif peers:
                walk(any_loop())
    if ending in ("inloop", "quit") and L and rng.random() < 0.45:
        # loops parked in the middle of an iteration (batch swapped out already) when the server goes: what ~TcpServer
        # queues for them is only run by the drain at the exit of loop()
        for l in rng.sample(range(1, L + 1), rng.randint(1, L)):
            for _ in range(rng.randint(1, 2)):
                lines.append("step %d" % l)
    if ending == "inloop":
        lines.append("postDestroy")
        if rng.random() < 0.08:
            lines.append("postDestroy")
        if rng.random() < 0.6:
            lines.append("iter 0")
        else:
            for _ in range(rng.randint(1, 5)):
                lines.append("step 0")
            lines.append("iter 0")
        if rng.random() < (0.85 if race else 0.5):
            # the base loop keeps running after the server is gone: what was in flight arrives now
            for l in range(L + 1):
                lines.append("iter %d" % l)
            if race:
                lines.append("iter 0")
        if rng.random() < 0.3:
            lines.append("connect")      # refused: nobody listens any more
            lines.append("iter 0")
        if race and rng.random() < 0.4 and live_peers():
            # a close cause between postDestroy and the iteration that runs it
            p = rng.choice(live_peers())
            lines.insert(len(lines) - lines[::-1].index("postDestroy"), rng.choice(["fin %d", "forceClose %d"]) % p)
        if keep_holds and not race:
            drop_all()
        quit_()
    elif ending == "quit":
        if keep_holds and not race:
            drop_all()
        quit_()
    else:
        for c in uncaused():
            how = rng.choice(["fin", "rst", "forceClose"]) if peers[c]["open"] else "forceClose"
            lines.append("%s %d" % (how, c))
            peers[c]["cause"] = True
            if how == "rst":
                peers[c]["open"] = False
        if not race:
            drain()
            if keep_holds:
                drop_all()
        quit_()
    if race:
        if rng.random() < 0.5:
            drop_all()
    elif rng.random() < 0.1 and live_peers():
        lines.append("send %d 10" % rng.choice(live_peers()))     # peer side only: everything is gone
    return lines


def handover_case(rng):
    """-> list of op lines of the family "the acceptor thread is preempted right after the hand-over": L >= 1 io threads;
    `holdHandover` arms the harness so that the base thread is parked immediately after TcpServer::newConnection has
    appended connectEstablished to the io loop's queue (it has not executed another instruction of newConnection); the
    peer has usually closed already (FIN / RST queued in the socket before the server even accepts); the connection's io
    loop then iterates - connectEstablished (UP), the peer's end of stream, handleClose (DOWN, close callback) - while the
    acceptor thread is still held; only then does the acceptor thread go on (`iter 0`).  The connection belongs to the io
    loop from the hand-over on, so on a correct server every such schedule gives UP then DOWN, the map entry is erased by
    the base loop afterwards, the object is destroyed on its io loop and nothing aborts."""
    L = rng.randint(1, 3)
    lines = ["server %d %d" % (L, 1 if rng.random() < 0.3 else 0)]
    npeers = rng.randint(1, 4)

    def loop_of(c):
        return 1 + c % L

    def walk(l):
        if rng.random() < 0.75:
            lines.append("iter %d" % l)
        else:
            for _ in range(rng.randint(1, 4)):
                lines.append("step %d" % l)

    for c in range(npeers):
        if c == 0 or rng.random() < 0.75:
            lines.append("holdHandover")
        lines.append("connect")
        how = _pick(rng, [("fin", 5), ("sendfin", 2), ("rst", 1.5), ("send", 1), ("none", 1)])
        acts = {"fin": ["fin %d" % c], "sendfin": ["send %d %d" % (c, rng.choice([1, 100, 4096])), "fin %d" % c], "rst": ["rst %d" % c],
                "send": ["send %d %d" % (c, rng.choice([1, 100]))], "none": []}[how]
        early = rng.random() < 0.75        # the peer has done it all before the server accepts
        if early:
            lines.extend(acts)
        lines.append("iter 0")             # accept; the base thread is parked right after the hand-over (when armed)
        if not early:
            lines.extend(acts)
        # the connection's loop runs while the acceptor thread is held
        for _ in range(rng.randint(2, 4)):
            walk(loop_of(c))
        if L > 1 and rng.random() < 0.3:
            walk(rng.randint(1, L))
        x = rng.random()
        if x < 0.15:
            lines.append("forceClose %d" % c)
            walk(loop_of(c))
        elif x < 0.25:
            lines.append("shutdown %d" % c)
            walk(loop_of(c))
        elif x < 0.35:
            lines.append("hold %d" % c)
            if rng.random() < 0.7:
                lines.append("drop %d" % c)
        lines.append("iter 0")             # the acceptor thread goes on: rest of newConnection, then its functors
        if rng.random() < 0.6:
            walk(loop_of(c))
            if rng.random() < 0.5:
                lines.append("iter 0")
    ending = _pick(rng, [("drained", 5), ("inloop", 2), ("quit", 2)])
    if ending == "drained":
        for _ in range(drain_rounds(npeers) + 2):
            for l in list(range(1, L + 1)) + [0]:
                lines.append("iter %d" % l)
    elif ending == "inloop":
        lines.append("postDestroy")
        lines.append("iter 0")
        for l in list(range(L + 1)) + [0]:
            lines.append("iter %d" % l)
    lines.append("quit")
    return lines


def _text_close_rule(ops, L, destroy):
    last_cause = max([i for i, w in enumerate(ops[:destroy]) if w[0] in CAUSE_OPS] or [-1])
    if last_cause >= 0:
        npeers = sum(1 for w in ops[:last_cause] if w[0] == "connect")    # later peers have no close cause
        rounds, seen = 0, set()
        for w in ops[last_cause + 1:destroy]:
            if w[0] == "iter":
                seen.add(int(w[1]))
                if all(l in seen for l in range(L + 1)):
                    rounds, seen = rounds + 1, set()
        if rounds < drain_rounds(npeers):
            return "a close cause (`%s`) is followed by only %d complete rounds of iterations before `%s` (%d needed to be sure nothing is in flight)" % (
                " ".join(ops[last_cause]), rounds, ops[destroy][0], drain_rounds(npeers))
    if ops[destroy][0] == "postDestroy":
        # the functor has certainly run after two more `iter 0` (the first may only finish a batch swapped out before) or `quit`
        its, done = 0, len(ops)
        for i in range(destroy + 1, len(ops)):
            its += 1 if ops[i] == ["iter", "0"] else 0
            if its == 2 or ops[i] == ["quit"]:
                done = i
                break
        for w in ops[destroy + 1:done]:
            if w[0] in CAUSE_OPS:
                return "a close cause (`%s`) between `postDestroy` and the destruction" % " ".join(w)
    return None


def _trace_close_rule(ops, blocks):
    """the same question answered on what happened: when ~TcpServer began, had every connection whose close cause had
    been issued already gone DOWN (so that no close event can be handled while / after the server dies)?"""
    pos, marker, peer, ev = 0, None, {}, []       # ev: (pos, step, c, kind)
    for i, b in enumerate(blocks):
        for l in b:
            pos += 1
            w = l.split()
            if l == "# server-destroy-begin" and marker is None:
                marker = (pos, i)
            elif l.startswith("# peer ") and len(w) == 4:
                peer[int(w[2])] = int(w[3])
            elif l.startswith("t ") and len(w) == 4:
                ev.append((pos, i, int(w[1]), w[2]))
    if marker is None:
        return None          # the server was never destroyed
    for i, w in enumerate(ops):
        if i > marker[1] or w[0] not in CAUSE_OPS:
            continue
        if w[0] == "forceClose":
            c = int(w[1])
            if not any(e[2] == c and e[3] == "up" and e[1] < i for e in ev) or any(e[2] == c and e[3] == "down" and e[1] < i for e in ev):
                continue     # without effect: not up yet, or down already
        else:
            c = peer.get(int(w[1]))
            if c is None:
                continue     # never accepted
        if not any(e[2] == c and e[3] == "down" and e[0] < marker[0] for e in ev):
            return "connection %d: close cause `%s` issued, not yet DOWN when the server is destroyed (step %d)" % (c, " ".join(w), marker[1])
    return None


def close_in_flight(lines, blocks):
    """for the histograms: was a close in flight when the server was destroyed? (None or a description)"""
    ops = [l.split() for l in lines if l.strip() and not l.startswith("#")]
    return _trace_close_rule(ops, blocks) if ops and ops[0][0] == "server" else None


def usage_violation(lines, blocks=None, strict=False):
    """None, or why the schedule leaves the documented usage of TcpServer.  Nothing a case of this engine can express is
    outside the usage of the current code.  strict=True: the rule of the code before /repo c11cd6c ("FIXME: unsafe":
    no close in flight when the server is destroyed, no reference dropped after its loop is gone), decided on the case
    text; a schedule the text rule (deliberately coarse: whole rounds of iterations) rejects is still accepted when the
    implementation's trace (`blocks`) shows that no close was in flight when the server was destroyed."""
    if not strict:
        return None
    ops = [l.split() for l in lines if l.strip() and not l.startswith("#")]
    if not ops or ops[0][0] != "server":
        return None
    L = int(ops[0][1])
    destroy = next((i for i, w in enumerate(ops) if w[0] in ("postDestroy", "quit")), None)
    if destroy is None:
        return None
    v = _text_close_rule(ops, L, destroy)
    if v and blocks is not None and _trace_close_rule(ops, blocks) is None:
        v = None
    if v:
        return v
    for i, w in enumerate(ops[destroy:], destroy):
        if w[0] == "drop" and (L > 0 or any(x[0] == "quit" for x in ops[destroy:i])):
            held = sum(1 for x in ops[:i] if x == ["hold", w[1]]) - sum(1 for x in ops[:i] if x == ["drop", w[1]])
            if held > 0:
                return "`%s` after the loop of the connection may be gone" % " ".join(w)
    return None


# ---------------------------------------------------------------------------------------------------
# oracle: the implementation's own trace only

class Obs:
    def __init__(self, lines, blocks):
        self.ops = [l for l in lines if l.strip() and not l.startswith("#")]
        self.blocks = blocks
        self.L = int(self.ops[0].split()[1]) if self.ops and self.ops[0].startswith("server ") else 0
        self.events = []     # (pos, step, c, kind, thread)   pos = global line number
        self.closes = []     # (pos, step, c, thread)
        self.dtor_state = {}
        self.notes = []      # (step, text) of `# name-anomaly / pool-size / getLoop / log ...`
        self.crash = None
        self.inconclusive = None
        self.st = []
        pos = 0
        for i, b in enumerate(blocks):
            st = None
            for l in b:
                pos += 1
                w = l.split()
                if l.startswith("<<"):
                    if self.crash is None:
                        self.crash = (i, l)
                elif l.startswith("t ") and len(w) == 4:
                    self.events.append((pos, i, int(w[1]), w[2], w[3]))
                elif l.startswith("# close ") and len(w) == 4:
                    self.closes.append((pos, i, int(w[2]), w[3]))
                elif l.startswith("# dtor-state ") and len(w) == 4:
                    self.dtor_state.setdefault(int(w[2]), []).append(w[3])
                elif l.startswith("# INCONCLUSIVE"):
                    self.inconclusive = l
                elif l.startswith("# "):
                    self.notes.append((i, l[2:]))
                elif l.startswith("st "):
                    st = dict(kv.split("=", 1) for kv in w[1:])
            self.st.append(st)

    def op(self, i):
        return self.ops[i] if i < len(self.ops) else "?"

    def live_before(self, i):
        for j in range(i - 1, -1, -1):
            if j < len(self.st) and self.st[j]:
                return set() if self.st[j]["live"] == "-" else set(int(x) for x in self.st[j]["live"].split(","))
        return set()


def oracle(lines, blocks, err=""):
    """-> [(kind, description)], most telling first; [] for cases outside the documented usage and for runs in which a
    safety net of the harness expired (INCONCLUSIVE)"""
    o = Obs(lines, blocks)
    if o.inconclusive or usage_violation(lines, blocks):
        return []
    fails = []

    def fail(kind, what):
        fails.append((kind, what))

    if o.crash:
        i, l = o.crash
        tail = [x.strip() for x in err.split("\n") if x.strip()]
        san = [x for x in tail if "ERROR: AddressSanitizer" in x or "runtime error:" in x or x.startswith("SUMMARY:")]
        said = san[:2] or [x for x in tail if "Assertion" in x or "FATAL" in x or "terminate" in x][-2:] or tail[-2:]
        logs = [t for s, t in o.notes if t.startswith("log ") and s >= i - 1][-1:]
        fail("sanitizer" if san else "crash", "step %d `%s`: the server process died (%s) %s" % (i, o.op(i), l, " | ".join(said + logs)[:500]))
    for s, t in o.notes:
        if t.startswith("name-anomaly") or t.startswith("ctor-anomaly") or t.startswith("erase-anomaly") or t.startswith("dtor-anomaly"):
            fail("name", "step %d `%s`: %s" % (s, o.op(s), t))
        elif t.startswith("pool-size"):
            fail("pool-size", t)
        elif t.startswith("getLoop"):
            fail("affinity", "step %d `%s`: a callback of connection %s ran on a thread that is not the one of conn->getLoop() (%s)" % (s, o.op(s), t.split()[1], t.split()[2]))
    conns = sorted(set(e[2] for e in o.events))
    for c in conns:
        evs = [e for e in o.events if e[2] == c]
        seq = [(e[3], e[4], e[1]) for e in evs]
        kinds = [k for k, _, _ in seq]

        def at(k, nth=0):
            s = [x for x in seq if x[0] == k][nth][2]
            return "step %d `%s`" % (s, o.op(s))

        if kinds.count("new") != 1 or kinds[0] != "new":
            fail("order", "connection %d: %s" % (c, " ".join(kinds)))
        # life cycle of the callbacks: UP MSG* DOWN?
        life = [k for k in kinds if k in ("up", "msg", "down")]
        if life.count("up") > 1:
            fail("double-up" if "down" not in life[:[i for i, k in enumerate(life) if k == "up"][1]] else "up-after-down",
                 "connection %d: connection callback with connected()==true twice (%s)" % (c, at("up", 1)))
        if life.count("down") > 1:
            fail("double-down", "connection %d: connection callback with connected()==false twice (%s)" % (c, at("down", 1)))
        if "down" in life and "up" not in life[:life.index("down")]:
            fail("down-without-up", "connection %d: DOWN without UP before it (%s)" % (c, at("down")))
        if "msg" in life and "up" not in life[:life.index("msg")]:
            fail("msg-before-up", "connection %d: message callback before UP (%s)" % (c, at("msg")))
        if "down" in life and "msg" in life[life.index("down"):]:
            fail("msg-after-down", "connection %d: message callback after DOWN" % c)
        # thread affinity and the io-thread assignment
        want = "l%d" % (1 + c % o.L if o.L else 0)
        thr = [(k, t, s) for k, t, s in seq if k in ("up", "msg", "down", "destroyed")]
        if len(set(t for _, t, _ in thr)) > 1:
            fail("affinity", "connection %d: %s" % (c, ", ".join("%s on %s" % (k, t) for k, t, _ in thr)))
        elif thr and thr[0][1] != want:
            fail("round-robin", "connection %d (accept order) is served by %s, expected %s with %d io threads" % (c, thr[0][1], want, o.L))
        for k, t, s in seq:
            if k in ("new", "erase") and t != "l0":
                fail("map-thread", "connection %d: `%s` (TcpServer's connection map) on thread %s, step %d `%s`" % (c, k, t, s, o.op(s)))
        # erase: at most once, after DOWN
        if kinds.count("erase") > 1:
            fail("erase-order", "connection %d: removeConnectionInLoop ran %d times" % (c, kinds.count("erase")))
        elif "erase" in kinds and "down" not in kinds[:kinds.index("erase")]:
            fail("erase-order", "connection %d: removeConnectionInLoop before DOWN (%s)" % (c, at("erase")))
        # destruction
        if "dtor" in kinds:
            d = kinds.index("dtor")
            if kinds.count("dtor") > 1:
                fail("bad-dtor", "connection %d: destructor ran %d times" % (c, kinds.count("dtor")))
            if kinds[:d].count("destroyed") != 1:
                fail("bad-dtor", "connection %d: destructor after %d connectDestroyed/removeChannel (%s): %s" % (c, kinds[:d].count("destroyed"), at("dtor"), " ".join(kinds)))
            if kinds[d + 1:]:
                fail("bad-dtor", "connection %d: `%s` after the destructor" % (c, " ".join(kinds[d + 1:])))
            if o.dtor_state.get(c, ["?"])[0] != "kDisconnected":
                fail("bad-dtor", "connection %d: destroyed in state %s (%s)" % (c, o.dtor_state.get(c, ["?"])[0], at("dtor")))
            if "up" in kinds and "down" not in kinds[:d]:
                fail("bad-dtor", "connection %d: destroyed without DOWN (%s)" % (c, at("dtor")))
        elif kinds.count("destroyed") > 1:
            fail("bad-dtor", "connection %d: connectDestroyed/removeChannel %d times" % (c, kinds.count("destroyed")))
        cl = [x for x in o.closes if x[2] == c]
        dpos = [e[0] for e in evs if e[3] == "dtor"]
        if len(cl) > 1:
            fail("fd-close", "connection %d: descriptor closed %d times" % (c, len(cl)))
        if cl and (not dpos or cl[0][0] < dpos[0]):
            fail("fd-close", "connection %d: descriptor closed outside the destructor (step %d `%s`)" % (c, cl[0][1], o.op(cl[0][1])))
        if dpos and not cl:
            fail("fd-close", "connection %d: destructor ran, descriptor not closed" % c)
    for x in o.closes:
        if x[2] not in conns:
            fail("fd-close", "descriptor of unknown connection %d closed" % x[2])
    # the end: everything that was ever created is gone once the server, its loops and the user's references are
    if not o.crash and any(op == "quit" for op in o.ops):
        held = {}
        for i, op in enumerate(o.ops):
            w = op.split()
            if w[0] == "hold" and int(w[1]) in o.live_before(i):
                held[int(w[1])] = held.get(int(w[1]), 0) + 1
            elif w[0] == "drop" and held.get(int(w[1]), 0) > 0:
                held[int(w[1])] -= 1
        # judged at the very end of the case: references may be dropped after `quit`
        q = len(o.ops) - 1
        final = o.st[q] if q < len(o.st) else None
        if final is not None:
            if final.get("srv") != "0":
                fail("leak", "the TcpServer object still exists after `quit`")
            live = set() if final["live"] == "-" else set(int(x) for x in final["live"].split(","))
            for c in conns:
                kinds = [e[3] for e in o.events if e[2] == c and e[1] <= q]
                if held.get(c, 0) > 0:
                    continue
                if "up" in kinds and "down" not in kinds:
                    fail("no-down", "connection %d: UP but no DOWN although the server and all loops are gone" % c)
                if c in live or "dtor" not in kinds:
                    fail("leak", "connection %d: the TcpConnection object still exists after the server, all loops and every user reference are gone (%s)" % (c, " ".join(kinds)))
    fails.sort(key=lambda f: _prio(f[0]))
    return fails


# ---------------------------------------------------------------------------------------------------
# runner

IMPL_ENV = {"ASAN_OPTIONS": "detect_leaks=0:abort_on_error=0", "UBSAN_OPTIONS": "print_stacktrace=1"}


def clean(lines):
    return [l for l in lines if l.strip() and not l.startswith("#") and not l.startswith("engine=")]


def run_impl(ctx, exe, lines):
    case = Case(ENGINE, lines)
    blocks, err = ctx.run_impl(exe, case, timeout=60, env=IMPL_ENV)
    return case, blocks, err


def run_model(ctx, case, impl):
    from . import leanside
    rc, out, e2 = leanside.run_driver(ENGINE, ctx.model_input(case, impl), timeout=120)
    model = split_blocks(out)
    if rc != 0:
        model.append(["<<driver exit %d>> %s" % (rc, e2.strip()[:200])])
    return model


def shrink(ctx, exe, lines, kind):
    def still(ls):
        _, b, err = run_impl(ctx, exe, ls)
        return any(k == kind for k, _ in oracle(ls, b, err))
    try:
        return ddmin(lines, still, keep_prefix=1, budget=150) if still(lines) else lines
    except Exception:
        return lines


def _with_header(lines, flavour):
    return ["# flavour=%s" % flavour] + list(lines)


def run_case(ctx, exe, lines, origin, flavour):
    """one case on the implementation and on the model; registers oracle failures / mismatches in ctx.
    -> (fails, mismatch)"""
    lines = clean(lines)
    case, impl, err = run_impl(ctx, exe, lines)
    o = Obs(lines, impl)
    out_of_usage = usage_violation(lines, impl)
    fails = oracle(lines, impl, err)
    mismatch = None
    if ctx.model_ok:
        model = run_model(ctx, case, impl)
        mismatch = ctx.compare(case, impl, model)
    # histograms
    ctx.count("owner:cases")
    ctx.count("owner:flavour:" + flavour)
    ctx.count("owner:L=%d" % o.L)
    ctx.count("owner:poller:" + ("poll" if lines[0].split()[2:3] == ["1"] else "epoll"))
    for l in lines[1:]:
        ctx.count("owner:op:" + l.split()[0])
    for e in o.events:
        ctx.count("owner:ev:" + e[3])
    for e in o.events:
        if e[3] == "dtor":
            ctx.count("owner:dtor-on:" + ("controller" if e[4] == "f" else "base" if e[4] == "l0" else "io"))
    for b in impl:
        for l in b:
            if l.startswith("< "):
                ctx.count("owner:env:" + " ".join(w for w in l.split()[1:] if not w.isdigit()))
    ending = "postDestroy" if "postDestroy" in lines else "quit"
    if ending == "quit" and lines[-1:] == ["quit"] and o.st and len(o.st) >= 2 and o.st[-2] and o.st[-2]["live"] == "-":
        ending = "drained+quit"
    ctx.count("owner:ending:" + ending)
    if out_of_usage:
        ctx.count("owner:out-of-usage")
    if close_in_flight(lines, impl):
        ctx.count("owner:close-in-flight-at-destroy")
    if o.inconclusive:
        ctx.count("owner:inconclusive")
        ctx.notes.append("owner: %s (%s)" % (o.inconclusive, origin))
    shown = Case(ENGINE, _with_header(lines, flavour), origin, meta={"flavour": flavour})
    ctx.record(shown, impl, nontrivial=bool(o.events),
               sample={"engine": ENGINE, "flavour": flavour, "ops": lines[:16], "events": ["%d %s %s" % e[2:] for e in o.events][:12]})
    if o.inconclusive:
        return [], None
    if fails:
        kind, desc = fails[0]
        small = shrink(ctx, exe, lines, kind)
        ctx.oracle_failures.append((Case(ENGINE, _with_header(small, flavour), origin, meta={"flavour": flavour}), "owner:" + kind, desc + " [%s]" % flavour))
    elif mismatch and not out_of_usage:
        ctx.mismatches.append((shown, mismatch + " [%s]" % flavour))
    elif mismatch:
        ctx.count("owner:out-of-usage-mismatch")
    return fails, mismatch


def read_case_file(path):
    """-> (op lines, flavour or None)"""
    flavour, lines = None, []
    with open(path) as f:
        for l in f:
            l = l.rstrip("\n")
            if l.startswith("# flavour="):
                flavour = l[len("# flavour="):].split()[0]
            if not l.strip() or l.startswith("#") or l.startswith("engine="):
                continue
            lines.append(l)
    return lines, flavour


def corpus_paths():
    return sorted(glob.glob(os.path.join(CORPUS, "owner", "*.case")))


def _flavours(ctx):
    from . import build
    fl = ["dbg", "ndebug"]
    if not ctx.quick() or ctx.search_mode:
        try:
            ctx.exe("owner_drv", "asan")
            fl.append("asan")
        except build.BuildError as ex:
            ctx.notes.append("owner: flavour asan does not build here (%s); skipped" % ex.what)
    return fl


def explore_corpus(ctx, prop_id, handover=40):
    """search mode only (an obligation or tie broke): the deterministic corpus schedules and a batch of hand-over
    schedules before anything else runs, so that the first replay reported is a deterministic one"""
    exes = {f: ctx.exe("owner_drv", f) for f in ("dbg", "ndebug")}
    for p in corpus_paths():
        lines, flavour = read_case_file(p)
        for flav in ([flavour] if flavour in exes else ["dbg", "ndebug"]):
            run_case(ctx, exes[flav], lines, "corpus:" + os.path.basename(p), flav)
        if ctx.stop():
            return
    for i in range(handover):
        flav = ("dbg", "ndebug")[i % 2]
        run_case(ctx, exes[flav], handover_case(ctx.rng), "generated", flav)
        ctx.count("owner:family:handover")
        if ctx.stop():
            return


def explore(ctx, prop_id, budget_quick=20.0, budget_thorough=150.0, race=True):
    """corpus first, then generated cases until the effort budget (wall clock: it limits effort only, no verdict
    depends on it) is used up or ctx.stop()"""
    flavours = _flavours(ctx)
    exes = {f: ctx.exe("owner_drv", f) for f in flavours}
    budget = budget_quick if ctx.quick() and not ctx.search_mode else budget_thorough
    t0 = time.time()
    ctx.extra["owner"] = ("deterministic differential test: real TcpServer with gated loop threads (harness/owner_drv.cc) against "
                          "drv_owner, one schedule per case; flavours " + ",".join(flavours))
    for p in corpus_paths():
        lines, flavour = read_case_file(p)
        for flav in ([flavour] if flavour in exes else ["dbg", "ndebug"]):
            run_case(ctx, exes[flav], lines, "corpus:" + os.path.basename(p), flav)
        ctx.count("owner:corpus_cases")
        if ctx.stop():
            break
    i = 0
    while not ctx.stop() and time.time() - t0 < budget:
        if i % 5 == 4:
            lines = handover_case(ctx.rng)                      # the acceptor thread preempted right after the hand-over
            ctx.count("owner:family:handover")
        else:
            lines = gen_case(ctx.rng, race=race, strand=True)   # F29 repaired: quit() with functors still queued is inside the usage
        flav = flavours[i % len(flavours)]
        run_case(ctx, exes[flav], lines, "generated", flav)
        i += 1
    ctx.extra["owner_cases"] = ctx.hist.get("owner:cases", 0)
    ctx.extra["owner_wall_s"] = round(time.time() - t0, 1)


def is_owner_replay(path):
    try:
        with open(path) as f:
            for l in f:
                if not l.strip() or l.startswith("#"):
                    continue
                return l.startswith("engine=owner")
    except OSError:
        pass
    return False


def replay(ctx, prop_id, path, flavours=None):
    """re-run a replay / corpus file, printing every op with what the implementation and the model answered"""
    lines, flavour = read_case_file(path)
    for flav in (flavours or ([flavour] if flavour else ["dbg", "ndebug"])):
        exe = ctx.exe("owner_drv", flav)
        case, impl, err = run_impl(ctx, exe, lines)
        model = run_model(ctx, case, impl) if ctx.model_ok else []
        for i, op in enumerate(lines):
            a = impl[i] if i < len(impl) else ["<<missing>>"]
            b = model[i] if i < len(model) else ["<<missing>>"]
            print("[%s] %-14s impl : %s" % (flav, op, " | ".join(a)))
            print("[%s] %-14s model: %s" % (flav, "", " | ".join(b)))
        for extra in impl[len(lines):]:
            print("[%s] %-14s impl : %s" % (flav, "", " | ".join(extra)))
        u = usage_violation(lines, impl)
        if u:
            print("[%s] outside the documented usage, not judged: %s" % (flav, u))
        fails, mm = run_case(ctx, exe, lines, "replay", flav)
        for k, d in fails:
            print("[%s] ORACLE %s: %s" % (flav, k, d))
        if mm:
            print("[%s] MISMATCH %s" % (flav, mm))
        said = [l.rstrip()[:300] for l in err.split("\n") if any(t in l for t in ("ERROR: AddressSanitizer", "SUMMARY:", "Assertion", "FATAL", "runtime error:"))]
        if said:
            print("\n".join(said[:12]))


# ---------------------------------------------------------------------------------------------------
# stand-alone: python3 -m vlib.owner_common --n 200 --seed 3 [--flavour dbg] [--no-race] [--repeat 3] [--show FILE]

def _main(argv):
    import argparse
    from . import build
    from .runner import Ctx
    ap = argparse.ArgumentParser()
    ap.add_argument("--n", type=int, default=100)
    ap.add_argument("--seed", type=int, default=1)
    ap.add_argument("--flavour", default=None, help="comma separated; default dbg,ndebug (with --show: the file's own)")
    ap.add_argument("--no-race", action="store_true", help="only schedules in which nothing is in flight when the server is destroyed")
    ap.add_argument("--handover", action="store_true", help="only cases of the family handover_case")
    ap.add_argument("--repeat", type=int, default=1, help="run every case this many times and compare the outputs byte for byte")
    ap.add_argument("--show", help="replay one case file")
    ap.add_argument("--corpus", action="store_true", help="run the corpus cases first")
    ap.add_argument("--no-model", action="store_true")
    ap.add_argument("--keep-going", action="store_true")
    ap.add_argument("--dump", help="directory to write failing cases to")
    ap.add_argument("--driver-dir", help="directory with a private drv_owner (a model generated from a mutated scratch copy)")
    a = ap.parse_args(argv)

    class P:
        id = "C02"
    ctx = Ctx(P, "quick", a.seed)
    ctx.model_ok = not a.no_model
    if a.driver_dir:
        from . import leanside
        leanside.DRIVER_DIR = a.driver_dir
    flavours = (a.flavour or "dbg,ndebug").split(",")
    if a.show:
        replay(ctx, "C02", a.show, flavours=a.flavour.split(",") if a.flavour else None)
        return 0
    exes = {f: build.harness("owner_drv", f) for f in flavours}
    ctx.exes = {("owner_drv", f): e for f, e in exes.items()}
    t0 = time.time()
    worst, flaky, n = 0.0, 0, 0
    todo = []
    if a.corpus:
        for p in corpus_paths():
            todo.append((read_case_file(p)[0], "corpus:" + os.path.basename(p)))
    for i in range(a.n):
        todo.append((handover_case(ctx.rng) if a.handover else gen_case(ctx.rng, race=not a.no_race), "generated"))
    for i, (lines, origin) in enumerate(todo):
        flav = flavours[i % len(flavours)]
        t1 = time.time()
        nf, nm = len(ctx.oracle_failures), len(ctx.mismatches)
        run_case(ctx, exes[flav], lines, origin, flav)
        n += 1
        dt = time.time() - t1
        if len(ctx.oracle_failures) == nf and len(ctx.mismatches) == nm:
            worst = max(worst, dt)
        if a.repeat > 1:
            outs = set()
            for _ in range(a.repeat):
                _, b, _ = run_impl(ctx, exes[flav], clean(lines))
                outs.add("\n".join("\n".join(x) for x in b))
            if len(outs) > 1:
                flaky += 1
                print("FLAKY (%d different outputs in %d runs):\n%s" % (len(outs), a.repeat, "\n".join(lines)))
        if not a.keep_going and ctx.stop():
            break
    for case, kind, desc in ctx.oracle_failures:
        print("ORACLE %s: %s\n%s" % (kind, desc, case.text()))
    for case, desc in ctx.mismatches:
        print("MISMATCH %s\n%s" % (desc, case.text()))
    if a.dump:
        os.makedirs(a.dump, exist_ok=True)
        for j, (case, kind, desc) in enumerate(ctx.oracle_failures):
            with open(os.path.join(a.dump, "oracle-%d.case" % j), "w") as f:
                f.write("engine=owner\n# %s: %s\n%s" % (kind, desc, case.text()))
        for j, (case, desc) in enumerate(ctx.mismatches):
            with open(os.path.join(a.dump, "mismatch-%d.case" % j), "w") as f:
                f.write("engine=owner\n# %s\n%s" % (desc, case.text()))
    for k in sorted(ctx.hist):
        print("%-44s %d" % (k, ctx.hist[k]))
    print("cases=%d distinct=%d oracle_failures=%d mismatches=%d flaky=%d wall=%.1fs slowest-clean-case(impl+model+python)=%.0fms notes=%d" % (
        n, len(ctx.distinct), len(ctx.oracle_failures), len(ctx.mismatches), flaky, time.time() - t0, worst * 1000, len(ctx.notes)))
    for nt in ctx.notes[:5]:
        print("NOTE", nt)
    return 1 if ctx.oracle_failures or ctx.mismatches or flaky else 0


if __name__ == "__main__":
    sys.exit(_main(sys.argv[1:]))
