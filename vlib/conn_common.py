"""Shared by C01, C02, C03, C11, C13: generator, differential runner and trace oracles for the
`conn` engine (a real TcpConnection on a socketpair, stepped on its loop thread)."""
import glob
import os
import re

from .common import CORPUS
from .runner import Case, ddmin

MASK = (1 << 64) - 1
FNV0 = 14695981039346656037


def gen_bytes(seed, n):
    x = seed & MASK
    out = bytearray()
    for _ in range(n):
        x = (x * 6364136223846793005 + 1442695040888963407) & MASK
        out.append(x >> 56)
    return bytes(out)


def parse_bytes(tok):
    if tok.startswith("h:"):
        return bytes.fromhex(tok[2:])
    _, seed, n = tok.split(":")
    return gen_bytes(int(seed), int(n))


def fnv_update(h, b):
    for c in b:
        h = ((h ^ c) * 1099511628211) & MASK
    return h


SIZES = [0, 1, 2, 3, 7, 8, 9, 15, 16, 17, 100, 1023, 1024, 1025, 4095, 4096, 5000, 65535, 65536, 65537]


def size(rng, big=True):
    r = rng.random()
    if r < 0.5:
        return rng.choice(SIZES[:11])
    if r < 0.8:
        return rng.randrange(0, 3000)
    if r < 0.97 or not big:
        return rng.choice(SIZES)
    return rng.choice([100000, 200000, 300000])


ACTS = ["send", "shutdown", "forceClose", "forceCloseDelay", "stopRead", "startRead", "setwc", "sethwm"]
MARKS = [0, 1, 10, 100, 1000, 4096, 65536, 64 << 20]
LOOP_ONLY = ("setwc", "sethwm")   # plain member assignments in muduo: made on the loop thread (or inside a callback) only


def gen_set(rng):
    """install another write-complete / high-water callback (identity 0 = none), the latter with a new mark"""
    if rng.random() < 0.5:
        return "setwc %d" % rng.choice([0, 1, 2, 2, 3])
    return "sethwm %d %d" % (rng.choice([0, 1, 2, 2, 3]), rng.choice(MARKS))


def gen_act(rng, weights=None):
    k = rng.random()
    if k < 0.55:
        return "send g:%d:%d %s" % (rng.randrange(1 << 30), size(rng), rng.choice(["piece", "ptr", "buf"]))
    if k < 0.65:
        return "shutdown"
    if k < 0.72:
        return "forceClose"
    if k < 0.78:
        return "forceCloseDelay %d" % rng.choice([0, 1, 1000, 50000, 2000000])
    if k < 0.86:
        return "stopRead"
    if k < 0.94:
        return "startRead"
    return gen_set(rng)


def hook_act(rng):
    """what a write-complete / high-water callback typically does: send a (small) control block, close, throttle,
    re-arm or clear itself"""
    k = rng.random()
    if k < 0.5:
        return "send g:%d:%d %s" % (rng.randrange(1 << 30), rng.choice([1, 2, 7, 16, 100, 1000]), rng.choice(["piece", "ptr", "buf"]))
    if k < 0.62:
        return "shutdown"
    if k < 0.74:
        return "forceClose"
    if k < 0.80:
        return "forceCloseDelay %d" % rng.choice([0, 1000])
    if k < 0.88:
        return rng.choice(["stopRead", "startRead"])
    return gen_set(rng)


def crossing_block(rng, mark, foreign=True):
    """A send that raises the backlog from below `mark` to at least `mark` while the kernel takes only the head of
    the block (relative short write), optionally on top of a backlog that is already there, with a callback script on
    the high-water callback (the point of the block: whatever the callback does must land AFTER the block that is
    being queued), then the iterations that deliver the notification and drain."""
    lines = ["hook hwm " + hook_act(rng)]
    if rng.random() < 0.35:
        lines.append("hook wc " + hook_act(rng))
    backlog = 0
    if mark > 1 and rng.random() < 0.4:
        backlog = rng.choice([1, mark // 2, mark - 1])
        lines += ["script write EAGAIN", "act L send g:%d:%d piece" % (rng.randrange(1 << 30), backlog)]
    need = mark - backlog
    rest = need + rng.choice([0, 0, 1, 5, 100])
    who = "F" if (foreign and rng.random() < 0.25) else "L"
    if backlog and who == "L":
        lines.append("act L send g:%d:%d %s" % (rng.randrange(1 << 30), rest, rng.choice(["piece", "ptr", "buf"])))
    else:
        head = rng.choice([1, 3, 7, 100, 1000])
        if who == "F" and backlog:
            lines.append("script write 0")          # the backlog does not move when the loop finds the socket writable
        lines.append("script write -%d" % rest)      # the kernel takes all but `rest` bytes of the request
        lines.append("act %s send g:%d:%d %s" % (who, rng.randrange(1 << 30), head + rest, rng.choice(["piece", "ptr", "buf"])))
    if rng.random() < 0.3:
        lines.append("act L send g:%d:%d piece" % (rng.randrange(1 << 30), rng.choice([1, 5, 100])))
    return lines + ["iter"] * rng.choice([1, 2, 3])


def rebind_block(rng, mark):
    """A notification is scheduled (a send the kernel takes whole / a backlog that drains / a crossing of the mark),
    then ANOTHER callback (or none) is installed before the loop delivers it: the callback that was installed when
    the notification was scheduled is the one that must run."""
    lines = []
    r = rng.random()
    if r < 0.4:
        # write-complete by a send taken whole (once or twice), then the slot is re-assigned
        for _ in range(rng.choice([1, 1, 2])):
            lines += ["script write full", "act L send g:%d:%d piece" % (rng.randrange(1 << 30), rng.choice([1, 16, 100, 1000]))]
        lines.append("act L setwc %d" % rng.choice([0, 2, 2, 3]))
    elif r < 0.6:
        # the callback clears / replaces its own slot while a second notification is already queued
        lines.append("hook wc setwc %d" % rng.choice([0, 0, 2]))
        for _ in range(2):
            lines += ["script write full", "act L send g:%d:%d piece" % (rng.randrange(1 << 30), rng.choice([1, 16, 100]))]
    elif r < 0.8:
        # write-complete by a drain
        n = rng.choice([10, 100, 1000])
        lines += ["script write -%d" % rng.choice([1, 5, 9]), "act L send g:%d:%d piece" % (rng.randrange(1 << 30), n), "iter",
                  "act L setwc %d" % rng.choice([0, 2, 3])]
    else:
        # high-water crossing, then callback and mark are replaced (the usual "raise the mark" idiom)
        m = mark if 0 < mark <= 65536 else 100
        lines += ["sethwm-placeholder", "script write EAGAIN", "act L send g:%d:%d piece" % (rng.randrange(1 << 30), m + rng.choice([0, 1, 50])),
                  "act L sethwm %d %d" % (rng.choice([0, 2, 2, 3]), rng.choice([m * 2, 64 << 20, 1, m]))]
        lines[0] = "act L sethwm 1 %d" % m
    return lines + ["iter"] * rng.choice([1, 2])


def write_script(rng):
    toks = []
    for _ in range(rng.randrange(1, 5)):
        r = rng.random()
        if r < 0.35:
            toks.append("full")
        elif r < 0.55:
            toks.append(str(rng.choice([0, 1, 2, 3, 7, 100, 1000, 4096, rng.randrange(0, 70000)])))
        elif r < 0.75:
            toks.append(str(-rng.choice([1, 1, 1, 2, 3, 9, 10, 11, 100])))   # all but k bytes of the request
        elif r < 0.9:
            toks.append("EAGAIN")
        elif r < 0.96:
            toks.append("EINTR")
        else:
            toks.append(rng.choice(["EPIPE", "ECONNRESET"]))
    return "script write " + " ".join(toks)


def read_script(rng):
    toks = []
    for _ in range(rng.randrange(1, 3)):
        r = rng.random()
        if r < 0.6:
            toks.append(str(rng.choice([1, 2, 3, 100, 1024, 65536, 70000])))
        elif r < 0.85:
            toks.append("EAGAIN")
        else:
            toks.append("EINTR")
    return "script readv " + " ".join(toks)


def pause_block(rng):
    """Pause / resume requests issued back to back from ANOTHER thread, i.e. before the loop has processed the first
    of them (the harness joins the thread; the loop only runs at the next `iter`): stop,start / start,stop / longer
    runs, on a reading or a paused connection, also on one whose local side has already called shutdown() (it "keeps
    receiving until the peer closes", C03); then the peer writes and the loop iterates.  The request made last must
    be the state the connection ends in: after `stopRead(); startRead();` the peer's bytes are delivered."""
    lines = []
    half = rng.random() < 0.35                                         # the local side has half-closed (kDisconnecting):
    if rng.random() < (0.6 if half else 0.3):                          # it keeps receiving, and pause / resume keep working
        lines += ["act %s stopRead" % rng.choice("LF"), "iter"]        # start from a paused connection
    if half:
        lines += ["act %s shutdown" % rng.choice("LF"), "iter"] + (["iter"] if rng.random() < 0.5 else [])
    r = rng.random()
    if r < 0.55:
        seq = ["stopRead", "startRead"]
    elif r < 0.75:
        seq = ["startRead", "stopRead"]
    else:
        seq = [rng.choice(["stopRead", "startRead"]) for _ in range(rng.choice([3, 4]))]
    lines += ["act F %s" % a for a in seq]
    if rng.random() < 0.5:
        lines.append("iter")
    lines += ["peerWrite g:%d:%d" % (rng.randrange(1 << 30), rng.choice([1, 16, 100, 5000])), "iter", "iter"]
    if seq[-1] == "stopRead":
        lines += ["act %s startRead" % rng.choice("LF"), "iter", "iter"]
    return lines


def outlive_block(rng, mark):
    """Functors the connection queued for itself are still pending when the owner destroys it (`ownerDestroy`: what
    ~TcpServer does on the connection's loop; the queued functors hold weak references, so the object goes at once):
    a write-complete notification (send taken whole / backlog drained), a high-water notification (crossing), a send
    or a half-close queued from another thread.  The next iteration runs them on a dead object: nothing may happen."""
    lines = []
    m = mark if 0 < mark <= 65536 else 0
    for _ in range(rng.choice([1, 1, 2])):
        r = rng.random()
        if r < 0.4:
            lines += ["script write full", "act L send g:%d:%d piece" % (rng.randrange(1 << 30), rng.choice([1, 16, 1000]))]
        elif r < 0.6 and m:
            lines += ["script write EAGAIN", "act L send g:%d:%d piece" % (rng.randrange(1 << 30), m + rng.choice([0, 7]))]
        elif r < 0.8:
            lines.append("act F send g:%d:%d %s" % (rng.randrange(1 << 30), rng.choice([0, 5, 100]), rng.choice(["piece", "ptr", "buf"])))
        else:
            lines.append("act F %s" % rng.choice(["shutdown", "stopRead", "startRead"]))
    return lines + ["ownerDestroy", "iter", "iter"]


def random_case(rng, maxlen=40, faults=True, foreign=True, closes=True, profile="mixed", crossing=0.22, rebind=0.12, hookfree=0.0, outlive=0.06, pause=0.08):
    """one history: header ops, then a random mix; mostly-valid (the connection is usually
    established first and kept up for a while).  `crossing` / `rebind`: share of the histories that contain a
    `crossing_block` / `rebind_block` at a random position; `hookfree`: share of the histories without callback
    scripts (the exact backlog replay of C13's oracle covers those in full)."""
    scenario = rng.random()
    want_cross = scenario < crossing
    want_rebind = crossing <= scenario < crossing + rebind
    want_pause = crossing + rebind <= scenario < crossing + rebind + pause
    no_hooks = (not want_cross) and rng.random() < hookfree
    mark = rng.choice([1, 10, 100, 1000, 4096]) if want_cross else rng.choice(MARKS)
    both = want_cross or want_rebind
    lines = ["config %d %d %d" % (1 if (both or rng.random() < 0.85) else 0, 1 if (both or rng.random() < 0.85) else 0, mark)]
    if rng.random() < 0.15:
        lines.append("setRetrieve %d" % rng.choice([0, 1, 5, 100]))
    for _ in range(0 if no_hooks else rng.randrange(0, 3)):
        lines.append("hook %s %s" % (rng.choice(["up", "msg", "wc", "hwm", "down"]), gen_act(rng)))
    lines.append("establish")
    n = rng.randrange(3, maxlen)
    if both:
        n = rng.randrange(0, max(1, maxlen // 2))
    block_at = rng.randrange(0, n + 1) if (both or want_pause) else -1
    for j in range(n + 1):
        if j == block_at:
            lines += crossing_block(rng, mark, foreign) if want_cross else (pause_block(rng) if want_pause else rebind_block(rng, mark))
        if j == n:
            break
        k = rng.random()
        if no_hooks and 0.60 <= k < 0.64:
            k = 0.9
        if k < 0.30:
            who = "F" if (foreign and rng.random() < 0.35) else "L"
            a = gen_act(rng)
            if not closes and a.split()[0] in ("forceClose", "forceCloseDelay", "shutdown") and rng.random() < 0.8:
                a = "send g:%d:%d piece" % (rng.randrange(1 << 30), size(rng))
            if a.split()[0] in LOOP_ONLY:
                who = "L"
            lines.append("act %s %s" % (who, a))
        elif k < 0.42 and faults:
            lines.append(write_script(rng))
        elif k < 0.47 and faults:
            lines.append(read_script(rng))
        elif k < 0.57:
            lines.append("peerWrite g:%d:%d" % (rng.randrange(1 << 30), size(rng)))
        elif k < 0.60 and closes:
            lines.append(rng.choice(["peerShutWr", "peerClose", "peerShutWr", "ownerDestroy"]))
        elif k < 0.64:
            lines.append("hook %s %s" % (rng.choice(["up", "msg", "wc", "hwm", "down"]), gen_act(rng)))
        elif k < 0.68:
            lines.append("advance %d" % rng.choice([1, 999, 1000, 50000, 3000000]))
        else:
            lines.append("iter")
    if rng.random() < outlive:
        return lines + outlive_block(rng, mark)
    # let things settle
    lines += ["iter", "iter"]
    if closes and rng.random() < 0.5:
        lines += [rng.choice(["peerClose", "act L forceClose", "act F forceClose", "act L shutdown", "ownerDestroy"]), "iter", "iter",
                  "peerClose", "iter", "iter", "iter"]
    return lines


class Trace:
    """the implementation's observations, step by step"""

    def __init__(self, lines, blocks):
        self.ops = [l for l in lines if l.strip()]
        self.blocks = blocks
        self.events = []   # (step, line) for observable events
        self.st = []       # per step dict of the st line
        self.env = []      # per step list of env lines
        self.crash = None
        for i, b in enumerate(blocks):
            env, st = [], None
            for l in b:
                if l.startswith("<<"):
                    self.crash = (i, l)
                elif l.startswith("< "):
                    env.append(l)
                elif l.startswith("st "):
                    st = dict(kv.split("=", 1) for kv in l.split()[1:])
                elif not l.startswith("#"):
                    self.events.append((i, l))
            self.env.append(env)
            self.st.append(st)


def check_updown(tr, allow_abort=False):
    """C02: UP MSG* DOWN once each, destroyed/closed exactly once and last"""
    fails = []
    ups = [i for i, (s, l) in enumerate(tr.events) if l == "cb UP"]
    downs = [i for i, (s, l) in enumerate(tr.events) if l == "cb DOWN"]
    msgs = [i for i, (s, l) in enumerate(tr.events) if l.startswith("cb MSG")]
    closes = [i for i, (s, l) in enumerate(tr.events) if l == "sys close"]
    aborts = [(s, l) for s, l in tr.events if l.startswith("abort ")]
    if aborts and not allow_abort:
        fails.append(("abort", "step %d `%s`: assertion failed: %s" % (aborts[0][0], tr.ops[aborts[0][0]], aborts[0][1][6:])))
    if len(ups) > 1:
        fails.append(("double-up", "connection callback ran %d times with connected()==true" % len(ups)))
    if len(downs) > 1:
        fails.append(("double-down", "connection callback ran %d times with connected()==false" % len(downs)))
    if downs and not ups:
        fails.append(("down-without-up", "DOWN without UP"))
    if ups and msgs and msgs[0] < ups[0]:
        fails.append(("msg-before-up", "message callback before UP"))
    if downs and msgs and msgs[-1] > downs[0]:
        fails.append(("msg-after-down", "message callback after DOWN"))
    if len(closes) > 1:
        fails.append(("double-close", "descriptor closed %d times" % len(closes)))
    if closes and downs and closes[0] < downs[0]:
        fails.append(("close-before-down", "descriptor closed before DOWN"))
    if closes and ups and not downs:
        fails.append(("close-without-down", "destroyed without DOWN"))
    return fails


def check_stream(tr):
    """C01/C03 on the raw peer's view: what the peer received is a prefix of the bytes accepted by
    send() in processing order, everything when nothing was discarded; FIN only after the data.
    Returns failures; uses only observations (peer_got, env write results, events)."""
    fails = []
    # reconstruct per step what muduo handed to the kernel from the env write lines
    return fails


def run_case(ctx, prop, exe, lines, origin, argv=(), oracle=None, model_args=()):
    case = Case("conn", lines, origin, meta={"argv": list(argv)})
    impl, err = ctx.run_impl(exe, case, timeout=120)
    tr = Trace(lines, impl)
    fails = oracle(tr) if oracle else []
    if tr.crash and not fails:
        san = [l.strip() for l in err.split("\n") if "ERROR: AddressSanitizer" in l or "runtime error:" in l or l.startswith("SUMMARY:")]
        kind = "sanitizer" if san else "crash"
        fails.append((kind, "step %d `%s`: %s %s" % (tr.crash[0], tr.ops[tr.crash[0]] if tr.crash[0] < len(tr.ops) else "?", tr.crash[1],
                                                      " | ".join(san[:2])[:400])))
    mismatch = None
    if ctx.model_ok:
        from . import leanside
        rc, out, e2 = leanside.run_driver("conn", ctx.model_input(case, impl), timeout=300, args=list(model_args))
        from .runner import split_blocks
        model = split_blocks(out)
        if rc != 0:
            model.append(["<<driver exit %d>> %s" % (rc, e2.strip()[:200])])
        mismatch = ctx.compare(case, impl, model)
    return case, impl, tr, fails, mismatch


# ---------------------------------------------------------------------------------------------------
# shared plug-in body of the properties decided on the `conn` engine (C01, C02, C03, C13)

def read_case_file(path):
    """returns (lines, argv, flavour) of a corpus / replay file"""
    argv, flavour, lines = ["epoll"], None, []
    with open(path) as f:
        for l in f:
            l = l.rstrip("\n")
            if l.startswith("# flavour="):
                for tok in l[2:].split():
                    if tok.startswith("argv=") and tok[5:]:
                        argv = [tok[5:]]
                    if tok.startswith("flavour="):
                        flavour = tok[8:]
                continue
            if not l.strip() or l.startswith("#"):
                continue
            if l.startswith("engine="):
                for tok in l.split():
                    if tok.startswith("argv="):
                        argv = [tok[5:]]
                    if tok.startswith("flavour="):
                        flavour = tok[8:]
                continue
            lines.append(l)
    return lines, argv, flavour


class ConnProp:
    """subclasses set: id, lean_module, oracles (list of functions Obs -> fails), profile (kwargs of random_case),
    texts"""
    gen_engines = ["Conn", "ConnSkel"]
    drivers = ["conn"]
    corpus_dirs = ["conn"]
    profile = {}
    quick_cases = 450
    thorough_cases = 6000
    partial_theorems = []

    def signature(self, case, kind, desc):
        return kind

    def oracle(self, lines, tr):
        from . import conn_oracle
        o = conn_oracle.Obs(lines, tr.blocks)
        fails = []
        for f in self.oracles:
            fails += f(o)
        return fails

    def nontrivial(self, tr):
        return any(l.startswith("cb ") for _, l in tr.events)

    def one(self, ctx, exe, lines, origin, be, flav):
        margs = [be] + (["ndebug"] if "ndebug" in flav else [])
        case, impl, tr, fails, mm = run_case(ctx, self, exe, lines, origin, argv=[be], model_args=margs,
                                              oracle=lambda tr: self.oracle(lines, tr))
        case.meta["flavour"] = flav
        case.lines = ["# flavour=%s argv=%s" % (flav, be)] + case.lines
        for l in lines:
            ctx.count("op:" + l.split()[0] + ((":" + l.split()[2]) if l.startswith("act ") and len(l.split()) > 2 else ""))
        for _, l in tr.events:
            if l.startswith("cb ") or l.startswith("sys ") or l == "destroyed":
                ctx.count("ev:" + " ".join(l.split()[:2]))
        for env in tr.env:
            for l in env:
                w = l.split()
                if w[1] in ("write", "readv") and not w[-1].lstrip("-").isdigit():
                    ctx.count("fault:" + w[1] + ":" + w[-1])
        ctx.record(case, impl, nontrivial=self.nontrivial(tr),
                   sample={"flavour": flav, "poller": be, "ops": lines[:14], "events": [l for _, l in tr.events][:10]})
        if fails:
            kind, desc = fails[0]
            small = self.shrink(ctx, exe, lines, be, flav, kind)
            c2 = Case("conn", ["# flavour=%s argv=%s" % (flav, be)] + small, origin, meta={"argv": [be]})
            ctx.oracle_failures.append((c2, kind, desc + " [%s/%s]" % (flav, be)))
        elif mm:
            case2 = Case("conn", ["# flavour=%s argv=%s" % (flav, be)] + lines, origin)
            ctx.mismatches.append((case2, mm + " [%s/%s]" % (flav, be)))
            if "asan" not in flav and not getattr(ctx, "_asan_tried", 0) >= 6:
                # model and implementation part ways: does the sanitizer see the implementation do something illegal here?
                ctx._asan_tried = getattr(ctx, "_asan_tried", 0) + 1
                aflav = "asan-ndebug" if "ndebug" in flav else "asan"
                aexe = ctx.exe("conn_drv", aflav)
                c3, impl3, tr3, fails3, _ = run_case(ctx, self, aexe, lines, origin, argv=[be], model_args=margs,
                                                     oracle=lambda tr: self.oracle(lines, tr))
                if fails3:
                    kind, desc = fails3[0]
                    c4 = Case("conn", ["# flavour=%s argv=%s" % (aflav, be)] + lines, origin, meta={"argv": [be]})
                    ctx.oracle_failures.append((c4, kind, desc + " [%s/%s]" % (aflav, be)))
        return fails, mm

    def shrink(self, ctx, exe, lines, be, flav, kind):
        def still(ls):
            c = Case("conn", ls, meta={"argv": [be]})
            b, _ = ctx.run_impl(exe, c, timeout=60)
            tr = Trace(ls, b)
            f = self.oracle(ls, tr)
            if tr.crash and not f:
                f = [("crash", "")]
            return any(k == kind for k, _ in f)
        try:
            head = 1 if lines and lines[0].startswith("config") else 0
            return ddmin(lines, still, keep_prefix=head, budget=120) if still(lines) else lines
        except Exception:
            return lines

    def configs(self, ctx):
        if ctx.quick() and ctx.search_mode:
            # an obligation or tie broke: look for a concrete failing input with the sanitizer as well
            return [("dbg", "epoll"), ("asan", "epoll"), ("dbg", "poll"), ("ndebug", "epoll")]
        if ctx.quick():
            return [("dbg", "epoll"), ("dbg", "poll"), ("ndebug", "epoll")]
        return [("dbg", "epoll"), ("dbg", "poll"), ("ndebug", "epoll"), ("ndebug", "poll"), ("asan", "epoll"), ("asan-ndebug", "poll")]

    def correspondence(self, ctx, replay=None):
        from . import build
        if replay:
            lines, argv, flavour = read_case_file(replay)
            for flav, be in ([(flavour, argv[0])] if flavour else [("dbg", argv[0]), ("ndebug", argv[0])]):
                exe = ctx.exe("conn_drv", flav)
                case, impl, tr, fails, mm = run_case(ctx, self, exe, lines, "replay", argv=[be],
                                                      model_args=[be] + (["ndebug"] if "ndebug" in flav else []),
                                                      oracle=lambda tr: self.oracle(lines, tr))
                for op, b in zip(tr.ops, impl):
                    print("[%s/%s] %-34s %s" % (flav, be, op, " | ".join(l for l in b if not l.startswith("# peer"))))
                self.one(ctx, exe, lines, "replay", be, flav)
            return
        cfgs = self.configs(ctx)
        ctx.extra["flavours"] = sorted(set(f for f, _ in cfgs))
        ctx.extra["pollers"] = sorted(set(b for _, b in cfgs))
        exes = {f: ctx.exe("conn_drv", f) for f in sorted(set(f for f, _ in cfgs))}
        # corpus first: witnesses of repaired defects and minimised past failures
        paths = []
        for d in self.corpus_dirs + [self.id]:
            paths += sorted(glob.glob(os.path.join(CORPUS, d, "*.case")))
        for p in paths:
            lines, argv, flavour = read_case_file(p)
            for flav, be in cfgs[:3]:
                if flavour and flav != flavour and not (flavour == "dbg" and flav == "dbg"):
                    pass
                self.one(ctx, exes[flav], lines, "corpus:" + os.path.basename(p), be, flav)
            ctx.count("corpus_cases")
            if ctx.stop():
                return
        n = self.quick_cases if ctx.quick() and not ctx.search_mode else self.thorough_cases
        per = max(1, n // len(cfgs))
        for flav, be in cfgs:
            for i in range(per):
                lines = random_case(ctx.rng, **self.profile)
                self.one(ctx, exes[flav], lines, "generated", be, flav)
                if ctx.stop():
                    return
