"""Shared by C01, C02, C03, C11, C13: generator, differential runner and trace oracles for the
`conn` engine (a real TcpConnection on a socketpair, stepped on its loop thread)."""
import glob
import os
import re

from .common import CORPUS
from .runner import Case, ddmin

MASK = (1 << 64) - 1
FNV0 = 14695981039346656037


def gen_bytes(seed, n):
    x = seed & MASK
    out = bytearray()
    for _ in range(n):
        x = (x * 6364136223846793005 + 1442695040888963407) & MASK
        out.append(x >> 56)
    return bytes(out)


def parse_bytes(tok):
    if tok.startswith("h:"):
        return bytes.fromhex(tok[2:])
    _, seed, n = tok.split(":")
    return gen_bytes(int(seed), int(n))


def fnv_update(h, b):
    for c in b:
        h = ((h ^ c) * 1099511628211) & MASK
    return h


SIZES = [0, 1, 2, 3, 7, 8, 9, 15, 16, 17, 100, 1023, 1024, 1025, 4095, 4096, 5000, 65535, 65536, 65537]


def size(rng, big=True):
    r = rng.random()
    if r < 0.5:
        return rng.choice(SIZES[:11])
    if r < 0.8:
        return rng.randrange(0, 3000)
    if r < 0.97 or not big:
        return rng.choice(SIZES)
    return rng.choice([100000, 200000, 300000])


ACTS = ["send", "shutdown", "forceClose", "forceCloseDelay", "stopRead", "startRead"]


def gen_act(rng, weights=None):
    k = rng.random()
    if k < 0.55:
        return "send g:%d:%d %s" % (rng.randrange(1 << 30), size(rng), rng.choice(["piece", "ptr", "buf"]))
    if k < 0.65:
        return "shutdown"
    if k < 0.72:
        return "forceClose"
    if k < 0.78:
        return "forceCloseDelay %d" % rng.choice([0, 1, 1000, 50000, 2000000])
    if k < 0.89:
        return "stopRead"
    return "startRead"


def write_script(rng):
    toks = []
    for _ in range(rng.randrange(1, 5)):
        r = rng.random()
        if r < 0.35:
            toks.append("full")
        elif r < 0.75:
            toks.append(str(rng.choice([0, 1, 2, 3, 7, 100, 1000, 4096, rng.randrange(0, 70000)])))
        elif r < 0.9:
            toks.append("EAGAIN")
        elif r < 0.96:
            toks.append("EINTR")
        else:
            toks.append(rng.choice(["EPIPE", "ECONNRESET"]))
    return "script write " + " ".join(toks)


def read_script(rng):
    toks = []
    for _ in range(rng.randrange(1, 3)):
        r = rng.random()
        if r < 0.6:
            toks.append(str(rng.choice([1, 2, 3, 100, 1024, 65536, 70000])))
        elif r < 0.85:
            toks.append("EAGAIN")
        else:
            toks.append("EINTR")
    return "script readv " + " ".join(toks)


def random_case(rng, maxlen=40, faults=True, foreign=True, closes=True, profile="mixed"):
    """one history: header ops, then a random mix; mostly-valid (the connection is usually
    established first and kept up for a while)"""
    mark = rng.choice([0, 1, 10, 100, 1000, 4096, 65536, 64 << 20])
    lines = ["config %d %d %d" % (1 if rng.random() < 0.85 else 0, 1 if rng.random() < 0.85 else 0, mark)]
    if rng.random() < 0.15:
        lines.append("setRetrieve %d" % rng.choice([0, 1, 5, 100]))
    for _ in range(rng.randrange(0, 3)):
        lines.append("hook %s %s" % (rng.choice(["up", "msg", "wc", "hwm", "down"]), gen_act(rng)))
    lines.append("establish")
    n = rng.randrange(3, maxlen)
    for _ in range(n):
        k = rng.random()
        if k < 0.30:
            who = "F" if (foreign and rng.random() < 0.35) else "L"
            a = gen_act(rng)
            if not closes and a.split()[0] in ("forceClose", "forceCloseDelay", "shutdown") and rng.random() < 0.8:
                a = "send g:%d:%d piece" % (rng.randrange(1 << 30), size(rng))
            lines.append("act %s %s" % (who, a))
        elif k < 0.42 and faults:
            lines.append(write_script(rng))
        elif k < 0.47 and faults:
            lines.append(read_script(rng))
        elif k < 0.57:
            lines.append("peerWrite g:%d:%d" % (rng.randrange(1 << 30), size(rng)))
        elif k < 0.60 and closes:
            lines.append(rng.choice(["peerShutWr", "peerClose", "peerShutWr", "ownerDestroy"]))
        elif k < 0.64:
            lines.append("hook %s %s" % (rng.choice(["up", "msg", "wc", "hwm", "down"]), gen_act(rng)))
        elif k < 0.68:
            lines.append("advance %d" % rng.choice([1, 999, 1000, 50000, 3000000]))
        else:
            lines.append("iter")
    # let things settle
    lines += ["iter", "iter"]
    if closes and rng.random() < 0.5:
        lines += [rng.choice(["peerClose", "act L forceClose", "act F forceClose", "act L shutdown", "ownerDestroy"]), "iter", "iter",
                  "peerClose", "iter", "iter", "iter"]
    return lines


class Trace:
    """the implementation's observations, step by step"""

    def __init__(self, lines, blocks):
        self.ops = [l for l in lines if l.strip()]
        self.blocks = blocks
        self.events = []   # (step, line) for observable events
        self.st = []       # per step dict of the st line
        self.env = []      # per step list of env lines
        self.crash = None
        for i, b in enumerate(blocks):
            env, st = [], None
            for l in b:
                if l.startswith("<<"):
                    self.crash = (i, l)
                elif l.startswith("< "):
                    env.append(l)
                elif l.startswith("st "):
                    st = dict(kv.split("=", 1) for kv in l.split()[1:])
                elif not l.startswith("#"):
                    self.events.append((i, l))
            self.env.append(env)
            self.st.append(st)


def check_updown(tr, allow_abort=False):
    """C02: UP MSG* DOWN once each, destroyed/closed exactly once and last"""
    fails = []
    ups = [i for i, (s, l) in enumerate(tr.events) if l == "cb UP"]
    downs = [i for i, (s, l) in enumerate(tr.events) if l == "cb DOWN"]
    msgs = [i for i, (s, l) in enumerate(tr.events) if l.startswith("cb MSG")]
    closes = [i for i, (s, l) in enumerate(tr.events) if l == "sys close"]
    aborts = [(s, l) for s, l in tr.events if l.startswith("abort ")]
    if aborts and not allow_abort:
        fails.append(("abort", "step %d `%s`: assertion failed: %s" % (aborts[0][0], tr.ops[aborts[0][0]], aborts[0][1][6:])))
    if len(ups) > 1:
        fails.append(("double-up", "connection callback ran %d times with connected()==true" % len(ups)))
    if len(downs) > 1:
        fails.append(("double-down", "connection callback ran %d times with connected()==false" % len(downs)))
    if downs and not ups:
        fails.append(("down-without-up", "DOWN without UP"))
    if ups and msgs and msgs[0] < ups[0]:
        fails.append(("msg-before-up", "message callback before UP"))
    if downs and msgs and msgs[-1] > downs[0]:
        fails.append(("msg-after-down", "message callback after DOWN"))
    if len(closes) > 1:
        fails.append(("double-close", "descriptor closed %d times" % len(closes)))
    if closes and downs and closes[0] < downs[0]:
        fails.append(("close-before-down", "descriptor closed before DOWN"))
    if closes and ups and not downs:
        fails.append(("close-without-down", "destroyed without DOWN"))
    return fails


def check_stream(tr):
    """C01/C03 on the raw peer's view: what the peer received is a prefix of the bytes accepted by
    send() in processing order, everything when nothing was discarded; FIN only after the data.
    Returns failures; uses only observations (peer_got, env write results, events)."""
    fails = []
    # reconstruct per step what muduo handed to the kernel from the env write lines
    return fails


def run_case(ctx, prop, exe, lines, origin, argv=(), oracle=None, model_args=()):
    case = Case("conn", lines, origin, meta={"argv": list(argv)})
    impl, err = ctx.run_impl(exe, case, timeout=120)
    tr = Trace(lines, impl)
    fails = oracle(tr) if oracle else []
    if tr.crash and not fails:
        fails.append(("crash", "step %d `%s`: %s" % (tr.crash[0], tr.ops[tr.crash[0]] if tr.crash[0] < len(tr.ops) else "?", tr.crash[1])))
    mismatch = None
    if ctx.model_ok:
        from . import leanside
        rc, out, e2 = leanside.run_driver("conn", ctx.model_input(case, impl), timeout=300, args=list(model_args))
        from .runner import split_blocks
        model = split_blocks(out)
        if rc != 0:
            model.append(["<<driver exit %d>> %s" % (rc, e2.strip()[:200])])
        mismatch = ctx.compare(case, impl, model)
    return case, impl, tr, fails, mismatch
