"""The flow every check follows (DESIGN.md §2.4/§2.5)."""
import json
import os
import sys
import traceback

from . import build, extract, leanside
from .common import (EVIDENCE, REPLAYS, VERIF, Rng, Timer, load_known, log, seed_from_env, sh, sha, write_replay)


def split_blocks(out):
    blocks, cur = [], []
    for line in out.split("\n"):
        if line == "--":
            blocks.append(cur)
            cur = []
        elif line != "":
            cur.append(line)
    if cur:
        blocks.append(cur + ["<<unterminated>>"])
    return blocks


class Case:
    """one generated or corpus case: input lines for a line-protocol engine"""

    def __init__(self, engine, lines, origin="generated", meta=None):
        self.engine, self.lines, self.origin, self.meta = engine, list(lines), origin, meta or {}

    def text(self):
        return "\n".join(self.lines) + "\n"


MISMATCH_LIMIT = 24


class Ctx:
    def __init__(self, prop, tier, seed):
        self.prop, self.tier, self.seed = prop, tier, seed
        self.rng = Rng(seed * 1000003 + sum(ord(c) for c in prop.id))
        self.evaluations = 0
        self.distinct = set()
        self.samples = []
        self.hist = {}
        self.mismatches = []      # (case, description)
        self.oracle_failures = []  # (case, kind, description)
        self.known_hit = []
        self.notes = []
        self.extra = {}
        self.exes = {}
        self.model_ok = True       # False when the Lean driver could not be rebuilt
        self.search_mode = False   # True when an obligation or tie broke: search harder for a failing input

    def stop(self):
        """enough has been found: one concrete violation ends the exploration.  Disagreements between model and
        implementation alone do not end it at once: the cases that follow (corpus, generated) are the search for an
        input on which the property itself fails; the search is cut after MISMATCH_LIMIT disagreeing cases"""
        return len(self.oracle_failures) >= 1 or len(self.mismatches) >= MISMATCH_LIMIT

    def quick(self):
        return self.tier == "quick"

    def count(self, key, n=1):
        self.hist[key] = self.hist.get(key, 0) + n

    def exe(self, name, flavour="dbg", **kw):
        k = (name, flavour)
        if k not in self.exes:
            self.exes[k] = build.harness(name, flavour, **kw)
        return self.exes[k]

    # ---- differential run of one case
    def run_impl(self, exe, case, timeout=120, env=None):
        rc, out, err = sh([exe] + case.meta.get("argv", []), inp=case.text(), timeout=timeout, env=env)
        blocks = split_blocks(out)
        if rc != 0:
            blocks.append(["<<exit %d>> %s" % (rc, err.strip().split("\n")[-1][:300] if err.strip() else "")])
        return blocks, err

    def model_input(self, case, impl_blocks):
        """interleave the environment lines the implementation recorded (`< ...`) before the
        operation that consumed them"""
        lines = []
        ops = [l for l in case.lines if l.strip()]
        for i, op in enumerate(ops):
            if i < len(impl_blocks):
                lines += [l for l in impl_blocks[i] if l.startswith("<") and not l.startswith("<<")]
            lines.append(op)
        return "\n".join(lines) + "\n"

    def run_model(self, case, impl_blocks, timeout=300):
        rc, out, err = leanside.run_driver(case.engine, self.model_input(case, impl_blocks), timeout=timeout)
        blocks = split_blocks(out)
        if rc != 0:
            blocks.append(["<<driver exit %d>> %s" % (rc, err.strip()[:300])])
        return blocks

    @staticmethod
    def observable(block):
        return [l for l in block if not (l.startswith("<") and not l.startswith("<<")) and not l.startswith("#")]

    def compare(self, case, impl_blocks, model_blocks):
        ops = [l for l in case.lines if l.strip()]
        n = max(len(impl_blocks), len(model_blocks))
        for i in range(n):
            a = self.observable(impl_blocks[i]) if i < len(impl_blocks) else ["<<missing>>"]
            b = self.observable(model_blocks[i]) if i < len(model_blocks) else ["<<missing>>"]
            if a != b:
                return "step %d `%s`: implementation %r, model %r" % (i, ops[i] if i < len(ops) else "?", a, b)
        return None

    def record(self, case, impl_blocks, nontrivial=True, sample=None):
        self.evaluations += 1
        if nontrivial:
            self.distinct.add(sha(json.dumps([self.observable(b) for b in impl_blocks]))[:16])
        if sample is not None and len(self.samples) < 3:
            self.samples.append(sample)


def ddmin(lines, fails, keep_prefix=0, budget=200):
    """delta debugging on a list of lines; `fails(lines)` is True when the failure persists"""
    head, body = lines[:keep_prefix], lines[keep_prefix:]
    n = 2
    calls = 0
    while len(body) >= 2 and calls < budget:
        chunk = max(1, len(body) // n)
        reduced = False
        for i in range(0, len(body), chunk):
            cand = body[:i] + body[i + chunk:]
            calls += 1
            if cand and fails(head + cand):
                body = cand
                n = max(n - 1, 2)
                reduced = True
                break
            if calls >= budget:
                break
        if not reduced:
            if chunk == 1:
                break
            n = min(len(body), n * 2)
    return head + body


def evidence_path(pid):
    return os.path.join(EVIDENCE, pid + ".json")


def write_evidence(prop, ctx, proof, wall, violations):
    os.makedirs(EVIDENCE, exist_ok=True)
    cov = {
        "obligations": proof["obligations"],
        "discharged": proof["discharged"],
        "checker_cmd": proof["checker_cmd"],
        "trusted_base": prop.trusted_base,
        "theorems": proof["theorems"],
        "axioms": proof["axioms"],
        "generated_definitions": proof["generated"],
        "partial_theorems": getattr(prop, "partial_theorems", []),
        "evaluations": ctx.evaluations,
        "distinct_nontrivial": len(ctx.distinct),
        "rule": prop.rule,
        "samples": ctx.samples or ["(no correspondence case was run)"],
        "histogram": ctx.hist,
        "known_findings_hit": ctx.known_hit,
        "correspondence_mismatches": len(ctx.mismatches),
        "notes": ctx.notes,
    }
    cov.update(ctx.extra)
    ev = {
        "property_id": prop.id,
        "tier": ctx.tier,
        "seed": ctx.seed,
        "level": "proof",
        "coverage": cov,
        "assumptions": prop.assumptions,
        "wall_s": wall,
        "violations": violations,
    }
    with open(evidence_path(prop.id), "w") as f:
        json.dump(ev, f, indent=1, sort_keys=True)
        f.write("\n")


def run_check(prop, tier, seed=None, replay=None):
    """returns the process exit status"""
    t = Timer()
    seed = seed_from_env() if seed is None else seed
    ctx = Ctx(prop, tier, seed)
    known = load_known()
    violations = []   # (replay path, suffix)
    unproved = []     # descriptions of broken obligations / ties

    # the Lean project and its Generated/ files are shared by every run (also by runs against a scratch copy of the
    # repository): steps 1-2 happen under one global lock, and the drivers built there are copied for this run
    from .common import flock as _flock
    _phase = _flock("leanphase")
    _phase.__enter__()
    # 1. T1: regenerate the definitions taken from the source
    # every Generated/*.lean file the property's Lean module (or one of its drivers) imports, directly or through other
    # modules, is regenerated - not only the engines the plug-in lists: a run against another state of the sources (an
    # earlier check of another property on a changed tree) may have left any of them behind
    engines = list(prop.gen_engines)
    for e in leanside.generated_deps([prop.lean_module] + ["Driver.%sMain" % d.capitalize() for d in prop.drivers]):
        if e not in engines and e in extract.ENGINES.all():
            engines.append(e)
    gen = extract.generate(engines)
    for e, err in gen.items():
        if err is not None:
            unproved.append("translation of %s from /repo failed: %s" % (e, err))
            # keep the driver usable: fall back to the committed definitions
            sh(["git", "checkout", "--", "lean/MuduoVerif/Generated/%s.lean" % e], cwd=VERIF)

    # 2. proof obligations over the current definitions
    thms = leanside.theorems_of(prop.lean_module)
    ok, text = leanside.lake_build([prop.lean_module])
    discharged = len(thms) if ok else 0
    axioms = {}
    if not ok:
        unproved.append("lake build %s failed:\n%s" % (prop.lean_module, leanside.first_errors(text)))
    else:
        axioms, problems = leanside.audit(prop.lean_module)
        if problems:
            discharged = len(thms) - len([p for p in problems])
            unproved += ["audit: " + p for p in problems]
        if tier == "thorough":
            okc, outc = leanside.leanchecker(prop.lean_module)
            ctx.extra["leanchecker"] = "ok" if okc else outc
            if not okc:
                unproved.append("leanchecker rejected %s: %s" % (prop.lean_module, outc))
    # the native driver (model only; does not depend on the proofs)
    okd, textd = leanside.lake_build(["drv_" + e for e in prop.drivers])
    if not okd:
        ctx.model_ok = False
        unproved.append("the model driver does not build:\n" + leanside.first_errors(textd))
    else:
        leanside.snapshot_drivers(prop.drivers)
    _phase.__exit__(None, None, None)

    proof = {
        "obligations": len(thms), "discharged": max(discharged, 0), "theorems": thms, "axioms": axioms,
        "generated": {e: ("ok" if v is None else v) for e, v in gen.items()},
        "checker_cmd": "cd lean && lake build %s && lake env lean .build/audit (#print axioms on every theorem)%s"
                       % (prop.lean_module, " && lake env leanchecker " + prop.lean_module if tier == "thorough" else ""),
    }

    # 3. correspondence + oracle on the implementation (searches for a failing input as well)
    try:
        ctx.search_mode = bool(unproved)
        prop.correspondence(ctx, replay)
    except build.BuildError as ex:
        unproved.append("%s\n%s" % (ex.what, ex.output))
    except Exception:
        unproved.append("harness crashed:\n" + traceback.format_exc())

    # 4. verdict
    out_lines = []
    for case, kind, desc in ctx.oracle_failures:
        sig = prop.signature(case, kind, desc)
        entry = next((k for k in known.get("findings", []) if k["property"] == prop.id and k["signature"] == sig), None)
        if entry is not None:
            line = "KNOWN-FINDING: property=%s %s" % (prop.id, entry["what"])
            if line not in out_lines:
                out_lines.append(line)
            if sig not in ctx.known_hit:
                ctx.known_hit.append(sig)
            continue
        text = "# property %s violated on the implementation: %s\n# signature: %s\n# replay: ./check %s --replay <this file>\n%s" % (
            prop.id, desc, sig, prop.id, case.text())
        path = write_replay(prop.id, kind, "engine=%s\n%s" % (case.engine, text))
        violations.append((path, ""))
    if not violations and (unproved or ctx.mismatches):
        body = ["# property %s is no longer shown to hold; no failing input was found by the search" % prop.id]
        for u in unproved:
            body.append("## obligation / tie that no longer checks\n" + u)
        for case, desc in ctx.mismatches[:5]:
            body.append("## correspondence: model and implementation differ\n# %s\nengine=%s\n%s" % (desc, case.engine, case.text()))
        path = write_replay(prop.id, "unproved", "\n".join(body) + "\n")
        violations.append((path, " no-failing-input-found"))

    leanside.drop_drivers()
    wall = t.s()
    write_evidence(prop, ctx, proof, wall, len(violations))
    for l in out_lines:
        print(l)
    seen = set()
    for path, suffix in violations:
        if path in seen:
            continue
        seen.add(path)
        print("VIOLATION property=%s replay=%s%s" % (prop.id, path, suffix))
    if not violations:
        print("OK property=%s tier=%s obligations=%d discharged=%d evaluations=%d distinct=%d wall=%.1fs" % (
            prop.id, tier, proof["obligations"], proof["discharged"], ctx.evaluations, len(ctx.distinct), wall))
    sys.stdout.flush()
    return 1 if violations else 0
