"""Concurrent half of C16 (engine `asynclog`, T3): cases, generator, differential run, independent oracle, shrinking.

A *case* is: `log [spurious]`, `main: ops…` (start | stop | a <len>), `thread k: a <len> …` lines and one or more
`schedule …` lines.  harness/asynclog_drv.cc runs the real muduo::AsyncLogging (real 4 MB buffers, real LogFile, real
files) under the deterministic scheduler for every schedule line and parses the files back into whole records;
lean/Driver/AsynclogDrv.lean runs the transition system of Model/AsyncLog.lean under the same scheduler rules.

The oracle below is evaluated on the implementation's own output (append events in mutex order, the position of the
stop() call, the items found in the files, the announcements on stderr) and never consults the model."""
import glob
import os
import re

from .common import CORPUS, LEAN
from .runner import Case, ddmin

ENGINE = "asynclog"


def buffer_size():
    """the size of AsyncLogging's buffers as last extracted (only used to aim the generator at the boundaries and to
    recognise the documented excluded case `len >= size` in the oracle)"""
    try:
        with open(os.path.join(LEAN, "MuduoVerif", "Generated", "AsyncLog.lean")) as f:
            m = re.search(r"def asyncBufferSize : Nat := (\d+)", f.read())
            if m:
                return int(m.group(1))
    except OSError:
        pass
    return 4000000


# ----------------------------------------------------------------------------------------- cases
class ACase:
    def __init__(self, main, threads, schedules, spurious=False, origin="generated"):
        self.main = list(main)                      # tokens: 'start' | 'stop' | ('a', len)
        self.threads = [list(t) for t in threads]   # lists of lengths
        self.schedules = [list(s) for s in schedules]
        self.spurious, self.origin = spurious, origin

    def main_tokens(self):
        out = []
        for op in self.main:
            out.append(op if isinstance(op, str) else "a %d" % op[1])
        return out

    def lines(self):
        out = ["log spurious" if self.spurious else "log"]
        out.append(("main: " + " ".join(self.main_tokens())).rstrip())
        for i, lens in enumerate(self.threads):
            out.append("thread %d: %s" % (i + 1, " ".join("a %d" % n for n in lens)))
        for s in self.schedules:
            out.append(("schedule " + " ".join(str(x) for x in s)).rstrip())
        return out

    def header_len(self):
        return 2 + len(self.threads)

    def with_schedules(self, schedules):
        return ACase(self.main, self.threads, schedules, self.spurious, self.origin)

    def records(self):
        """{tid: [len, …]} in program order (tid 0 = main)"""
        res = {0: [op[1] for op in self.main if not isinstance(op, str)]}
        for i, lens in enumerate(self.threads):
            res[i + 1] = list(lens)
        return res

    def total_bytes(self):
        return sum(sum(v) for v in self.records().values())


def parse_cases(lines, origin="file"):
    cases, cur = [], None
    for l in lines:
        l = l.strip()
        if not l or l.startswith("#") or l.startswith("engine="):
            continue
        w = l.split()
        if w[0] == "log":
            cur = ACase([], [], [], len(w) > 1 and w[1] == "spurious", origin)
            cases.append(cur)
        elif cur is None:
            continue
        elif w[0] == "main:":
            i = 1
            while i < len(w):
                if w[i] == "a" and i + 1 < len(w):
                    cur.main.append(("a", int(w[i + 1])))
                    i += 2
                else:
                    cur.main.append(w[i])
                    i += 1
        elif w[0] == "thread":
            cur.threads.append([int(w[i + 1]) for i in range(2, len(w) - 1, 2)])
        elif w[0] == "schedule":
            cur.schedules.append([int(x) for x in w[1:]])
    return cases


def read_case_file(path):
    with open(path) as f:
        return parse_cases(f.read().split("\n"), "corpus:" + os.path.basename(path))


def corpus_cases():
    out = []
    for p in sorted(glob.glob(os.path.join(CORPUS, "C16", "*.case"))):
        with open(p) as f:
            text = f.read()
        if "engine=asynclog" in text:
            out += parse_cases(text.split("\n"), "corpus:" + os.path.basename(p))
    return out


# ----------------------------------------------------------------------------------------- oracle
APPEND = re.compile(r"T(\d+) append (\d+) (\d+) cur=(-?\d+) queued=(\d+) next=([01])$")


def oracle(case, block, cap):
    """property C16 evaluated on one schedule run of the implementation; returns [(kind, description)]"""
    recs = case.records()
    order = []          # (tid, seq) in the order of the critical sections of append()
    nxt = {t: 0 for t in recs}
    stop_at = None      # number of appends completed when stop() / the stopping destructor was called
    started = False
    ended, file_items, err_notes, stop_items = None, None, None, None
    for l in block:
        if l.startswith("<<"):
            extra = [x for x in block if x.startswith("# stderr")]
            return [("crash", "the implementation run ended abnormally: %s %s" % (l, " | ".join(extra)))]
        if l.startswith("# file"):
            file_items = l.split()[2:]
            continue
        if l.startswith("# stop-file"):
            stop_items = l.split()[2:]
            continue
        if l.startswith("# stderr-notes"):
            err_notes = int(l.split()[2])
            continue
        if l.startswith("#"):
            continue
        if l == "done" or l.startswith("blocked"):
            ended = l
            continue
        m = APPEND.match(l)
        if m:
            t, seq, ln = int(m.group(1)), int(m.group(2)), int(m.group(3))
            if t not in recs or nxt[t] >= len(recs[t]) or seq != nxt[t] or recs[t][seq] != ln:
                return [("trace", "`%s`: not the next append of T%d in its program" % (l, t))]
            nxt[t] += 1
            order.append((t, seq))
            continue
        if l == "T0 start":
            started = True
        elif l == "T0 stop-call" or l == "T0 destroy running=1":
            if stop_at is None:
                stop_at = len(order)
    if ended is None:
        return [("crash", "the run produced neither `done` nor `blocked`")]
    if ended != "done":
        return [("blocked", "no thread can run: `%s`" % ended)]
    for t in recs:
        if nxt[t] != len(recs[t]):
            return [("trace", "`done` although T%d completed %d of %d appends" % (t, nxt[t], len(recs[t])))]
    if file_items is None:
        return [("trace", "no `# file` line")]

    if stop_items is not None:
        # "when stop() returns, everything appended before the call is on disk": judged on the files as they were then
        bad = judge_items(recs, order, stop_at, stop_items, None, cap)
        if bad:
            return [(bad[0][0], "at the moment stop() returned: " + bad[0][1])]
    return judge_items(recs, order, stop_at, file_items, err_notes, cap)


def judge_items(recs, order, stop_at, file_items, err_notes, cap):
    """the items found in the files (at some moment) against the appends (in mutex order) and the stop() call"""
    pos = {r: i for i, r in enumerate(order)}
    on_disk = []        # (index in `order`, index among the file items)
    notes = []          # (index among the file items, buffers announced)
    seen = set()
    for i, it in enumerate(file_items):
        if it.startswith("garbage@") or it.startswith("partial@"):
            return [("whole-records", "the files contain bytes that are not a whole appended record (%s, after %d items)" % (it, i))]
        if it.startswith("note:"):
            notes.append((i, int(it[5:])))
            continue
        t, seq = (int(x) for x in it.split("."))
        if (t, seq) not in pos:
            return [("exactly-once", "record %s is in the files but was never appended" % it)]
        if (t, seq) in seen:
            return [("exactly-once", "record %s is in the files twice" % it)]
        seen.add((t, seq))
        on_disk.append((pos[(t, seq)], i))
    last = {}
    for gi, fi in on_disk:
        t, seq = order[gi]
        if t in last and seq < last[t]:
            return [("thread-order", "record %d.%d is written after record %d.%d of the same thread" % (t, seq, t, last[t]))]
        last[t] = seq
    for (a, _), (b, _) in zip(on_disk, on_disk[1:]):
        if b < a:
            return [("order", "record %d.%d was appended before record %d.%d but is written after it"
                     % (order[b] + order[a]))]
    if err_notes is not None and err_notes != len(notes):
        return [("announce", "%d drop announcements in the files, %d on stderr" % (len(notes), err_notes))]

    # what is missing, and is every loss announced?
    disk_idx = sorted(gi for gi, _ in on_disk)
    last_disk = disk_idx[-1] if disk_idx else -1
    required = stop_at if stop_at is not None else 0
    runs, cur = [], []
    on = set(disk_idx)
    for gi, (t, seq) in enumerate(order):
        ln = recs[t][seq]
        if gi in on:
            if cur:
                runs.append(cur)
                cur = []
            continue
        if ln >= cap:
            continue    # documented excluded case: FixedBuffer::append ignores a record that does not fit an empty buffer
        if gi < required or gi < last_disk:
            cur.append(gi)
        # else: appended after the call of stop() and nothing later reached the files — no promise
    if cur:
        runs.append(cur)
    used = set()
    for run in runs:
        # the announcement precedes the two buffers that were kept, which precede the dropped ones
        after = [fi for gi, fi in on_disk if gi > run[-1]]
        limit = min(after) if after else len(file_items)
        cand = [k for k, (fi, n) in enumerate(notes) if fi < limit and k not in used]
        size = sum(recs[order[gi][0]][order[gi][1]] for gi in run)
        cand = [k for k in cand if size <= notes[k][1] * cap]
        names = " ".join("%d.%d" % order[gi] for gi in run[:6]) + (" …" if len(run) > 6 else "")
        if not cand:
            why = ("appended before stop() was called" if run[0] < required else "appended before records that were written")
            if notes:
                return [("lost", "records %s (%d, %s) are not in the files and no drop announcement accounts for them"
                         % (names, len(run), why))]
            if run[0] < required and run[0] > last_disk:
                return [("stop-flushes", "records %s (%d) were appended before stop() was called and are not in the files "
                         "after it returned" % (names, len(run)))]
            return [("lost", "records %s (%d, %s) are not in the files and no drop was announced" % (names, len(run), why))]
        used.add(cand[0])
    return []


# ----------------------------------------------------------------------------------------- generator
def random_schedule(rng, n, dense):
    if dense:
        return [rng.randrange(0, 6) for _ in range(n)]
    return [rng.choice([0, 0, 0, 1, 1, 2, 3]) for _ in range(n)]


def palette(cap):
    return {
        "half": [cap // 2, cap // 2, cap // 2 - 1, cap // 2 + 1],
        "quarter": [cap // 4, cap // 4, cap // 2, cap // 4 - 1, cap // 4 + 1],
        "full": [cap - 1, cap - 1, cap - 2, cap // 2],
        "small": [1, 1, 2, 23, 24, 25, 100, 4000, 4000],
        "mixed": [1, 24, 4000, cap // 4, cap // 2, cap // 2 - 1, cap - 1, cap - 2, cap // 3, 1000],
    }


def gen_lens(rng, cap, n, style, used0=0):
    """n record lengths; `exact` steers towards avail() == len"""
    pal = palette(cap)
    out = []
    used = used0
    for _ in range(n):
        r = rng.random()
        left = cap - used
        if style == "exact" and r < 0.45 and 1 <= left < cap:
            ln = left                      # exactly what is left: does NOT fit (strict test)
        elif style == "exact" and r < 0.6 and 2 <= left:
            ln = left - 1                  # fits with nothing to spare
        else:
            ln = rng.choice(pal[style if style in pal else "mixed"])
        out.append(ln)
        used = used + ln if cap - used > ln else ln
        if used >= cap:
            used = 0
    return out


def gen_case(rng, cap, nsched, heavy=False):
    kind = rng.random()
    if kind < 0.04:
        return gen_overload(rng, cap, nsched)
    nt = rng.choice([0, 0, 1, 1, 1, 2, 2, 3])
    style = rng.choice(["half", "quarter", "full", "small", "mixed", "exact", "exact", "exact"])
    budget = rng.choice([4, 8, 12, 20] if not heavy else [4, 8, 12, 20, 40]) * cap // 4
    threads = []
    for _ in range(nt):
        threads.append(gen_lens(rng, cap, rng.randint(1, 6), style))
    main = []
    pre = rng.random() < 0.25
    if pre:
        main += [("a", n) for n in gen_lens(rng, cap, rng.randint(1, 4), style)]
    if rng.random() < 0.95:
        main.append("start")
        if rng.random() < 0.8 or nt == 0:
            main += [("a", n) for n in gen_lens(rng, cap, rng.randint(1, 6), style)]
        if rng.random() < 0.8:
            main.append("stop")
            if rng.random() < 0.2:
                main += [("a", n) for n in gen_lens(rng, cap, rng.randint(1, 2), "small")]
    c = ACase(main, threads, [], spurious=rng.random() < 0.3)
    # keep the amount of data per run bounded
    while c.total_bytes() > budget:
        big = [(t, i) for t, lens in enumerate(c.threads) for i, n in enumerate(lens) if n > cap // 8 and len(lens) > 1]
        bigm = [i for i, op in enumerate(c.main) if not isinstance(op, str) and op[1] > cap // 8]
        if big and (not bigm or rng.random() < 0.5):
            t, i = rng.choice(big)
            del c.threads[t][i]
        elif bigm:
            del c.main[rng.choice(bigm)]
        else:
            break
    scheds = [[]] if rng.random() < 0.25 else []
    while len(scheds) < nsched:
        scheds.append(random_schedule(rng, rng.randint(1, 50), rng.random() < 0.5))
    c.schedules = scheds
    return c


def gen_overload(rng, cap, nsched):
    """more than 25 full buffers between two back-end cycles: the announced drop"""
    n = rng.choice([25, 26, 27, 28])
    size = rng.choice([cap - 1, cap - 1, cap // 2 + 1])
    burst = [("a", size)] * n
    tail = [("a", x) for x in gen_lens(rng, cap, rng.randint(0, 2), "mixed")]
    r = rng.random()
    if r < 0.35:
        # TWO overloads close together: the back-end gets the whole first burst in one pass (schedules that let it run
        # until it waits again), then the front-end queues a second burst of the same size - every discarded stretch needs
        # its own announcement, however soon after the previous one it happens
        n2 = rng.choice([26, 27, 28])
        main = burst + ["start"] + [("a", size)] * n2 + tail + ["stop"]
        b = 1                                   # the back-end thread (no appending threads in this program)
        scheds = [[b] * k for k in (6, 12, 24, 48, 96)]
        rng.shuffle(scheds)
        return ACase(main, [], scheds[:max(nsched, 2)])
    if r < 0.68:
        main = burst + ["start"] + tail + (["stop"] if rng.random() < 0.7 else [])
    else:
        main = ["start"] + burst + tail + (["stop"] if rng.random() < 0.7 else [])
    scheds = [[]] + [random_schedule(rng, rng.randint(1, 12), False) for _ in range(max(nsched - 1, 0))]
    return ACase(main, [], scheds[:max(nsched, 1)])


# ----------------------------------------------------------------------------------------- differential run
class Runner:
    def __init__(self, ctx, cap):
        self.ctx, self.cap = ctx, cap

    def run(self, exe, cases):
        """[(impl blocks per schedule, model blocks per schedule or None)] for every case"""
        ctx = self.ctx
        lines, spans = [], []
        for c in cases:
            start = len(lines) + c.header_len()
            lines += c.lines()
            spans.append((start, len(c.schedules)))
        batch = Case(ENGINE, lines)
        impl, _ = ctx.run_impl(exe, batch, timeout=900)
        model = ctx.run_model(batch, impl, timeout=900) if ctx.model_ok else None
        res = []
        for start, n in spans:
            ib = impl[start:start + n]
            mb = model[start:start + n] if model is not None else None
            res.append((ib, mb))
        return res

    def judge(self, exe, cases):
        ctx = self.ctx
        for c, (ib, mb) in zip(cases, self.run(exe, cases)):
            for k, sched in enumerate(c.schedules):
                blk = ib[k] if k < len(ib) else ["<<missing>>"]
                one = c.with_schedules([sched])
                bad = oracle(c, blk, self.cap)
                flat = ctx.observable(blk)
                switches = sum(1 for l in flat if " append " in l and not l.endswith("queued=0 next=1"))
                ctx.count("runs")
                ctx.count("appends", sum(1 for l in flat if " append " in l))
                ctx.count("buffer_switches_seen", 1 if switches else 0)
                ctx.count("cycles", sum(1 for l in flat if " wrote" in l))
                if any("note:" in l for l in flat):
                    ctx.count("announced_drops")
                if any(l.endswith("stop-call") or l.endswith("running=1") for l in flat):
                    ctx.count("stops")
                dec = next((l for l in blk if l.startswith("# dec")), "# dec")
                ctx.record(Case(ENGINE, one.lines()), [blk], nontrivial=bool(switches) or len(dec.split()) > 2,
                           sample={"case": one.lines(), "events": flat[:12]})
                if bad:
                    small = self.shrink(exe, one, bad[0][0])
                    sb = self.run(exe, [small])[0][0]
                    f = oracle(small, sb[0] if sb else ["<<missing>>"], self.cap)
                    ctx.oracle_failures.append((Case(ENGINE, small.lines(), c.origin), bad[0][0], (f or bad)[0][1]))
                    return
                if mb is not None:
                    mblk = mb[k] if k < len(mb) else ["<<missing>>"]
                    if ctx.observable(blk) != ctx.observable(mblk):
                        small = self.shrink_mismatch(exe, one)
                        (sib, smb) = self.run(exe, [small])[0]
                        a = ctx.observable(sib[0]) if sib else ["<<missing>>"]
                        b = ctx.observable(smb[0]) if smb else ["<<missing>>"]
                        d = next((i for i, (x, y) in enumerate(zip(a + ["<end>"], b + ["<end>"])) if x != y), 0)
                        ctx.mismatches.append((Case(ENGINE, small.lines(), c.origin),
                                               "event %d: implementation `%s`, model `%s`"
                                               % (d, (a + ["<end>"])[d], (b + ["<end>"])[d])))
                        if ctx.stop():
                            return

    # ---- shrinking: fewer threads, fewer records, shorter schedule
    def variants(self, c):
        """smaller cases, most aggressive first"""
        s = c.schedules[0]
        if s:
            yield ACase(c.main, c.threads, [[]], c.spurious, c.origin)
            for k in (len(s) // 2, len(s) * 3 // 4, len(s) - 1):
                if 0 < k < len(s):
                    yield ACase(c.main, c.threads, [s[:k]], c.spurious, c.origin)
        for t in range(len(c.threads)):
            yield ACase(c.main, c.threads[:t] + c.threads[t + 1:], [s], c.spurious, c.origin)
        if c.spurious:
            yield ACase(c.main, c.threads, [s], False, c.origin)
        for t in range(len(c.threads)):
            for i in range(len(c.threads[t])):
                if len(c.threads[t]) > 1:
                    th = [list(x) for x in c.threads]
                    del th[t][i]
                    yield ACase(c.main, th, [s], c.spurious, c.origin)
        for i, op in enumerate(c.main):
            if not isinstance(op, str) or op == "stop":
                yield ACase(c.main[:i] + c.main[i + 1:], c.threads, [s], c.spurious, c.origin)
        for i in range(len(s)):
            yield ACase(c.main, c.threads, [s[:i] + s[i + 1:]], c.spurious, c.origin)
        for i in range(len(s)):
            if s[i] > 1:
                yield ACase(c.main, c.threads, [s[:i] + [s[i] % 2] + s[i + 1:]], c.spurious, c.origin)

    def minimise(self, c, still, budget=300):
        calls = 0
        progress = True
        while progress and calls < budget:
            progress = False
            for v in self.variants(c):
                calls += 1
                if calls > budget:
                    break
                if still(v):
                    c = v
                    progress = True
                    break
        return c

    def shrink(self, exe, c, kind):
        def still(v):
            ib = self.ctx.run_impl(exe, Case(ENGINE, v.lines()), timeout=120)[0]
            blk = ib[v.header_len()] if len(ib) > v.header_len() else ["<<missing>>"]
            f = oracle(v, blk, self.cap)
            return bool(f) and f[0][0] == kind
        return self.minimise(c, still)

    def shrink_mismatch(self, exe, c):
        def still(v):
            (ib, mb) = self.run(exe, [v])[0]
            if not ib or mb is None or not mb:
                return False
            return self.ctx.observable(ib[0]) != self.ctx.observable(mb[0]) and not oracle(v, ib[0], self.cap)
        return self.minimise(c, still, budget=60)
