"""Lean side of a check: build the property module, audit axioms, run the native driver."""
import os
import re

from .common import ALLOWED_AXIOMS, BUILD, LEAN, flock, log, sh

FORBIDDEN = re.compile(r"\bsorry\b|\badmit\b|^\s*axiom\s|native_decide|bv_decide|implemented_by|\bunsafe\s|maxHeartbeats\s+0\b|@\[extern")


def strip_comments(text):
    # remove /- ... -/ (nested) and -- ... comments
    out, i, depth = [], 0, 0
    n = len(text)
    while i < n:
        if text.startswith("/-", i):
            depth += 1
            i += 2
        elif depth and text.startswith("-/", i):
            depth -= 1
            i += 2
        elif depth:
            if text[i] == "\n":
                out.append("\n")
            i += 1
        elif text.startswith("--", i):
            while i < n and text[i] != "\n":
                i += 1
        else:
            out.append(text[i])
            i += 1
    return "".join(out)


def lean_files():
    res = []
    for root, _, files in os.walk(os.path.join(LEAN, "MuduoVerif")):
        for f in files:
            if f.endswith(".lean"):
                res.append(os.path.join(root, f))
    for root, _, files in os.walk(os.path.join(LEAN, "Driver")):
        for f in files:
            if f.endswith(".lean"):
                res.append(os.path.join(root, f))
    return sorted(res)


def grep_forbidden():
    hits = []
    for p in lean_files():
        with open(p) as f:
            body = strip_comments(f.read())
        for ln, line in enumerate(body.split("\n"), 1):
            if FORBIDDEN.search(line):
                hits.append("%s:%d: %s" % (os.path.relpath(p, LEAN), ln, line.strip()))
    return hits


def theorems_of(module):
    path = os.path.join(LEAN, module.replace(".", "/") + ".lean")
    with open(path) as f:
        body = strip_comments(f.read())
    ns = ""
    m = re.search(r"^namespace\s+(\S+)", body, re.M)
    if m:
        ns = m.group(1) + "."
    return [ns + t for t in re.findall(r"^theorem\s+([^\s:({\[]+)", body, re.M)]


def lake_build(targets):
    """returns (ok, output). Serialised: the .lake directory is shared by all checks."""
    with flock("lake"):
        rc, out, err = sh(["lake", "build"] + list(targets), cwd=LEAN, timeout=3600)
    text = out + err
    return rc == 0, text


def first_errors(text, limit=40):
    lines = text.split("\n")
    keep = []
    on = False
    for l in lines:
        if l.startswith("error:") or re.match(r"^✖", l):
            on = True
        elif l.startswith("✔") or l.startswith("ℹ") or l.startswith("⚠"):
            on = False
        if on:
            keep.append(l)
        if len(keep) >= limit:
            break
    return "\n".join(keep)


def audit(module):
    """#print axioms on every theorem of the property module.
    returns (axioms_by_theorem, problems)"""
    thms = theorems_of(module)
    os.makedirs(os.path.join(BUILD, "audit"), exist_ok=True)
    src = os.path.join(BUILD, "audit", module.split(".")[-1] + ".lean")
    with open(src, "w") as f:
        f.write("import %s\n" % module)
        for t in thms:
            f.write("#print axioms %s\n" % t)
    with flock("lake"):
        rc, out, err = sh(["lake", "env", "lean", src], cwd=LEAN, timeout=1200)
    text = out + err
    axioms, problems = {}, []
    flat = re.sub(r"\s*\n\s+", " ", text)
    for t in thms:
        m = re.search(r"'%s' depends on axioms: \[([^\]]*)\]" % re.escape(t), flat)
        if m:
            ax = [a.strip() for a in m.group(1).split(",") if a.strip()]
            axioms[t] = ax
            bad = [a for a in ax if a not in ALLOWED_AXIOMS]
            if bad:
                problems.append("%s depends on %s" % (t, ", ".join(bad)))
        elif re.search(r"'%s' does not depend on any axioms" % re.escape(t), flat):
            axioms[t] = []
        else:
            problems.append("%s: no axiom report (%s)" % (t, text.strip()[:300]))
    hits = grep_forbidden()
    problems += ["forbidden token: " + h for h in hits]
    return axioms, problems


def leanchecker(module):
    with flock("lake"):
        rc, out, err = sh(["lake", "env", "leanchecker", module], cwd=LEAN, timeout=3600)
    return rc == 0, (out + err)[-2000:]


DRIVER_DIR = None   # set by the runner: private copies of the drivers built for this run


def driver_path(engine):
    if DRIVER_DIR and os.path.exists(os.path.join(DRIVER_DIR, "drv_" + engine)):
        return os.path.join(DRIVER_DIR, "drv_" + engine)
    return os.path.join(LEAN, ".lake", "build", "bin", "drv_" + engine)


def snapshot_drivers(engines):
    """copy the freshly built drivers into a directory of this process: concurrent runs (e.g. against a mutated
    scratch copy of the repository) rebuild the shared ones"""
    global DRIVER_DIR
    import shutil
    d = os.path.join(BUILD, "drivers-%d" % os.getpid())
    os.makedirs(d, exist_ok=True)
    for e in engines:
        src = os.path.join(LEAN, ".lake", "build", "bin", "drv_" + e)
        if os.path.exists(src):
            shutil.copy2(src, os.path.join(d, "drv_" + e))
    DRIVER_DIR = d
    return d


def drop_drivers():
    import shutil
    if DRIVER_DIR:
        shutil.rmtree(DRIVER_DIR, ignore_errors=True)


def run_driver(engine, text, timeout=600, args=()):
    rc, out, err = sh([driver_path(engine)] + list(args), inp=text, timeout=timeout)
    return rc, out, err


def generated_deps(modules):
    """names X of the modules MuduoVerif.Generated.X that the given Lean modules import, transitively (textual scan of the
    `import` lines of the project's own files)"""
    import re
    seen, todo, gens = set(), list(modules), []
    while todo:
        m = todo.pop()
        if m in seen:
            continue
        seen.add(m)
        path = os.path.join(LEAN, *m.split(".")) + ".lean"
        if not os.path.exists(path):
            continue
        with open(path) as f:
            for line in f:
                mm = re.match(r"\s*(?:public\s+)?import\s+([A-Za-z0-9_.]+)", line)
                if mm:
                    dep = mm.group(1)
                    if dep.startswith("MuduoVerif.Generated."):
                        g = dep.split(".")[-1]
                        if g not in gens:
                            gens.append(g)
                    elif dep.startswith("MuduoVerif.") or dep.startswith("Driver."):
                        todo.append(dep)
                elif line.strip() and not line.startswith("--") and not line.startswith("/-") and not line.startswith("import") \
                        and not line.startswith("public") and not line.startswith("module"):
                    if not line.lstrip().startswith("import"):
                        break
    return gens
