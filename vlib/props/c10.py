"""C10 — Buffer: refinement theorems (Props/C10.lean) + differential run against the real
muduo::net::Buffer + an independent FIFO byte-string oracle evaluated on the
implementation's own observations."""
import itertools
import zlib

from ..runner import Case

MASK = (1 << 64) - 1


def gen_bytes(seed, n):
    x = seed & MASK
    out = bytearray()
    for _ in range(n):
        x = (x * 6364136223846793005 + 1442695040888963407) & MASK
        out.append(x >> 56)
    return bytes(out)


def parse_bytes(tok):
    if tok.startswith("h:"):
        return bytes.fromhex(tok[2:])
    _, seed, n = tok.split(":")
    return gen_bytes(int(seed), int(n))


def fnv64(b):
    h = 14695981039346656037
    for c in b:
        h = ((h ^ c) * 1099511628211) & MASK
    return h


def be(nbytes, v):
    return (v & ((1 << (8 * nbytes)) - 1)).to_bytes(nbytes, "big")


def signed(nbytes, b):
    u = int.from_bytes(b, "big")
    return u - (1 << (8 * nbytes)) if u >= 1 << (8 * nbytes - 1) else u


class Prop:
    id = "C10"
    lean_module = "MuduoVerif.Props.C10"
    gen_engines = ["Buffer", "BufferSkel"]
    drivers = ["buffer"]
    technique = ("Lean 4 refinement proof (Buffer model -> FIFO byte string) + T1 guard and statement-skeleton extraction "
                 "+ differential run vs. real Buffer")
    level_text = ("Kernel-checked theorems: for every operation sequence within the documented preconditions the model of "
                  "Buffer refines an unbounded FIFO byte string, keeps its index invariant, keeps the cheap-prepend bytes, "
                  "round-trips big-endian integers and finds the first CRLF/EOL; branch guards and constants of the model are "
                  "re-extracted from /repo's AST on every run, and so is the statement skeleton of every modelled member "
                  "function (which index is stored with which expression, resizes, copies, member/system calls, assertions: "
                  "order and nesting), proved equal to the skeleton the model implements (statement_order_tied); the rest "
                  "of the model is tied to the real class by a "
                  "differential run (exhaustive small depth + random), and an independent FIFO oracle is evaluated on the "
                  "implementation's own observations")
    level_note = ("Trusted: Lean kernel (axioms propext, Classical.choice, Quot.sound only), vlib/extract.py, the "
                  "hand-written parts of Model/Buffer.lean as far as the differential run exercises them, libstdc++/glibc. "
                  "Real pointer arithmetic is only watched by ASan/UBSan (thorough tier).")
    rule = ("operation sequences over muduo::net::Buffer: exhaustive over a boundary alphabet up to a small depth, "
            "then random sequences up to 200 operations with sizes from the boundary alphabet (0,1,7,8,9,1023..1025,"
            "65535..65537,1<<20) and random sizes; readFd with exactly / next to the most one call may take pending on the "
            "descriptor (writable + 64 KiB + {-1,0,1,65536,65537,200000}) for six initial sizes and four pre-histories; one "
            "free-running scenario (oracle only): 4-6 threads call readFd concurrently on their own buffers, every call spilling; "
            "a case is non-trivial when it contains at least one accepted "
            "mutating operation; distinct = distinct observation traces")
    trusted_base = [
        "Lean 4.33.0 kernel; axioms allowed: propext, Classical.choice, Quot.sound",
        "vlib/extract.py (clang-14 JSON AST -> Generated/Buffer.lean: constants and the five branch guards)",
        "vlib/gen/bufferskel.py (same AST -> Generated/BufferSkel.lean: statement skeletons of 48 member functions) and the "
        "hand-written reading Model/BufferSkelDecl.lean of Model/Buffer.lean (which model term stands for which statement)",
        "hand-written Model/Buffer.lean for everything else (the meaning of one statement: splice, resize, byte order), tied by "
        "the differential run (harness/buffer_drv.cc vs lean driver)",
        "std::vector, std::copy, std::search, memchr, htobe*/be*toh behave as documented",
    ]
    assumptions = [
        "operations are called within their documented preconditions (the asserts of Buffer.h); the harness rejects others",
        "real pointer arithmetic is observed only through ASan/UBSan in the thorough tier (model-level: list splices with proved index side conditions)",
        "readv delivers at most writable+65536 bytes, filling the first iovec first (POSIX)",
    ]
    partial_theorems = []

    def signature(self, case, kind, desc):
        return kind

    # ------------------------------------------------------------------ oracle
    def oracle(self, lines, blocks):
        """FIFO byte-string specification evaluated on what the implementation reported"""
        content = b""
        borrowed = 0
        fails = []
        ops = [l for l in lines if l.strip()]
        prev_w = None       # writableBytes() reported by the previous step of the same buffer
        for i, op in enumerate(ops):
            if i >= len(blocks):
                fails.append(("trace", "no output for step %d `%s`" % (i, op)))
                break
            blk = blocks[i]
            obs = [l for l in blk if not l.startswith("<") and not l.startswith("#")]
            if any(l.startswith("<<") for l in blk):
                fails.append(("crash", "step %d `%s`: %s" % (i, op, blk[-1])))
                break
            if obs == ["reject"] or obs == ["bad-op"]:
                continue
            if obs and obs[0].startswith("readFd-error"):
                # the harness calls readFd only after it has put at least one byte into the descriptor
                fails.append(("readFd-error", "step %d `%s`: readFd returned -1 (errno %s) although %d bytes were "
                              "available on the descriptor" % (i, op[:60], obs[0].split()[-1], len(parse_bytes(op.split()[1])))))
                break
            st = dict(kv.split("=", 1) for kv in obs[0].split()[1:])
            crc = next((int(l.split("=")[1]) for l in blk if l.startswith("# crc=")), None)
            env = [l for l in blk if l.startswith("< ")]
            w = op.split()
            name = w[0]
            exp_ret = None
            prev_p = None
            if name == "new":
                content, borrowed = b"", 0
                if int(st["w"]) != int(w[1]) or int(st["p"]) != 8:
                    fails.append(("sizes", "step %d: fresh buffer reports w=%s p=%s" % (i, st["w"], st["p"])))
            elif name in ("append", "write"):
                content += parse_bytes(w[1])
            elif name == "prepend":
                d = parse_bytes(w[1])
                content = d + content
                borrowed += len(d)
            elif name == "retrieve":
                content = content[int(w[1]):]
            elif name == "retrieveAll":
                content = b""
            elif name == "retrieveAsString":
                n = int(w[1])
                exp_ret = str(fnv64(content[:n]))
                content = content[n:]
            elif name == "ensure":
                if int(st["w"]) < int(w[1]):
                    fails.append(("ensure", "step %d: ensureWritableBytes(%s) left w=%s" % (i, w[1], st["w"])))
            elif name == "unwrite":
                content = content[:len(content) - int(w[1])]
            elif name == "shrink":
                if int(st["w"]) < int(w[1]):
                    fails.append(("shrink", "step %d: shrink(%s) left w=%s" % (i, w[1], st["w"])))
            elif name == "swapfresh":
                content = parse_bytes(w[2])
                borrowed = 0
            elif name == "appendInt":
                content += be(int(w[1]), int(w[2]))
            elif name == "prependInt":
                content = be(int(w[1]), int(w[2])) + content
                borrowed += int(w[1])
            elif name == "readInt":
                n = int(w[1])
                exp_ret = str(signed(n, content[:n]))
                content = content[n:]
            elif name == "peekInt":
                n = int(w[1])
                exp_ret = str(signed(n, content[:n]))
            elif name in ("findCRLF", "findEOL"):
                start = 0 if w[1] == "-" else int(w[1])
                k = content.find(b"\r\n" if name == "findCRLF" else b"\n", start)
                exp_ret = "null" if k < 0 else str(k)
            elif name == "readFd":
                avail = parse_bytes(w[1])
                n = int(env[0].split()[2]) if env else 0
                if n > len(avail):
                    fails.append(("readFd", "step %d: readFd reports %d of %d available bytes" % (i, n, len(avail))))
                if prev_w is not None and n > prev_w + 65536:
                    fails.append(("readFd-cap", "step %d `%s`: one readFd call took %d bytes, more than writable (%d) + 64 KiB"
                                  % (i, op[:60], n, prev_w)))
                content += avail[:n]
                exp_ret = str(n)
            if int(st["r"]) != len(content):
                fails.append(("content", "step %d `%s`: readable=%s, FIFO spec has %d bytes" % (i, op[:60], st["r"], len(content))))
            elif crc is not None and crc != (zlib.crc32(content) & 0xffffffff):
                fails.append(("content", "step %d `%s`: readable bytes differ from the FIFO spec" % (i, op[:60])))
            if exp_ret is not None and st["ret"] != exp_ret:
                fails.append(("return", "step %d `%s`: returned %s, spec %s" % (i, op[:60], st["ret"], exp_ret)))
            # cheap prepend: reset the ghost when the read index is back at the mark
            if name not in ("prepend", "prependInt") and int(st["p"]) == 8:
                borrowed = 0
            if int(st["p"]) + borrowed < 8:
                fails.append(("cheap-prepend", "step %d `%s`: prependable=%s with %d bytes borrowed" % (i, op[:60], st["p"], borrowed)))
            if fails:
                break
            prev_w = int(st["w"])
        return fails

    # ------------------------------------------------------------------ generators
    SMALL = [0, 1, 7, 8, 9]
    BOUND = [0, 1, 2, 3, 4, 7, 8, 9, 15, 16, 17, 1023, 1024, 1025, 4095, 4096, 65535, 65536, 65537]

    def exhaustive_alphabet(self):
        a = []
        for n in (0, 1, 8, 9):
            a.append("append g:%d:%d" % (n + 3, n))
        a += ["append h:0d0a", "append h:0a41"]
        for n in (1, 8, 9):
            a.append("prepend g:%d:%d" % (n + 5, n))
        for n in (0, 1, 8, 9):
            a.append("retrieve %d" % n)
        a += ["retrieveAll", "ensure 1", "ensure 9", "ensure 17", "unwrite 1", "shrink 0", "shrink 3",
              "appendInt 4 -2", "prependInt 2 513", "readInt 1", "readInt 8", "peekInt 4", "findCRLF -", "findEOL 1",
              "readFd g:77:9", "readFd g:78:70000", "write g:9:1", "swapfresh 1 g:4:3"]
        return a

    def readfd_boundary_cases(self):
        """what is pending on the descriptor sits exactly at / next to the most one call may take (writable + 64 KiB),
        for fresh buffers, buffers with content and buffers whose writable area was consumed"""
        lines = []
        for init in (0, 1, 8, 16, 1024, 4096):
            for pre in ([], ["append g:3:5"], ["append g:3:%d" % init], ["append g:3:7", "retrieve 3"]):
                w = init - sum(int(x.rsplit(":", 1)[1]) for x in pre if x.startswith("append"))
                if w < 0:
                    continue
                for delta in (-1, 0, 1, 65536, 65537, 200000):
                    n = w + 65536 + delta
                    lines.append("new %d" % init)
                    lines.extend(pre)
                    lines.append("readFd g:%d:%d" % (n % 251 + 1, n))
                    lines.append("readFd g:7:3")
                    lines.append("retrieve 2")
        return lines

    def exhaustive_cases(self, depth):
        alpha = self.exhaustive_alphabet()
        lines = []
        for init in (0, 1, 8):
            for seq in itertools.product(alpha, repeat=depth):
                lines.append("new %d" % init)
                lines.extend(seq)
        return lines, len(alpha)

    def random_case(self, rng, maxlen):
        lines = ["new %d" % rng.choice([0, 1, 8, 1024, rng.randrange(0, 3000)])]
        clen = 0   # length of the spec content (upper bound knowledge only)
        big_left = 2
        for _ in range(rng.randrange(1, maxlen)):
            def size():
                nonlocal big_left
                r = rng.random()
                if r < 0.55:
                    return rng.choice(self.BOUND[:12])
                if r < 0.8:
                    return rng.randrange(0, 2000)
                if r < 0.97 or big_left <= 0:
                    return rng.choice(self.BOUND)
                big_left -= 1
                return rng.choice([1 << 20, 200000, 131072, 131071])
            clen = max(clen, 0)
            k = rng.random()
            if k < 0.22:
                n = size()
                if rng.random() < 0.2 and n >= 2:
                    # content with line ends
                    d = bytearray(gen_bytes(rng.randrange(1 << 30), min(n, 64)))
                    d[rng.randrange(len(d) - 1)] = 13
                    d[rng.randrange(len(d))] = 10
                    p = rng.randrange(len(d) - 1)
                    d[p], d[p + 1] = 13, 10
                    lines.append("append h:" + bytes(d).hex())
                    clen += len(d)
                else:
                    lines.append("append g:%d:%d" % (rng.randrange(1 << 30), n))
                    clen += n
            elif k < 0.30:
                n = rng.choice([0, 1, 2, 4, 7, 8, 9, 12])
                lines.append("prepend g:%d:%d" % (rng.randrange(1 << 30), n))
                clen += n  # if rejected the bound stays an upper bound
            elif k < 0.45:
                n = rng.choice([0, 1, clen, max(clen - 1, 0), rng.randrange(0, clen + 1), clen + 1])
                lines.append(("retrieve %d" if rng.random() < 0.7 else "retrieveAsString %d") % n)
                clen = max(clen - n, 0) if n <= clen else clen
            elif k < 0.48:
                lines.append("retrieveAll")
                clen = 0
            elif k < 0.56:
                n = size()
                lines.append("ensure %d" % n)
                if rng.random() < 0.6:
                    m = rng.choice([0, 1, n, max(n - 1, 0), rng.randrange(0, n + 1)])
                    lines.append("write g:%d:%d" % (rng.randrange(1 << 30), m))
                    clen += m
            elif k < 0.60:
                n = rng.choice([0, 1, clen, rng.randrange(0, clen + 1)])
                lines.append("unwrite %d" % n)
                clen -= n
            elif k < 0.64:
                lines.append("shrink %d" % rng.choice([0, 1, 8, rng.randrange(0, 5000)]))
            elif k < 0.66:
                n = rng.choice(self.SMALL)
                lines.append("swapfresh %d g:%d:%d" % (rng.choice([0, 1, 1024]), rng.randrange(1 << 30), n))
                clen = n
            elif k < 0.74:
                nb = rng.choice([1, 2, 4, 8])
                lo, hi = -(1 << (8 * nb - 1)), (1 << (8 * nb - 1)) - 1
                v = rng.choice([lo, hi, 0, -1, 1, lo + 1, hi - 1, rng.randrange(lo, hi + 1)])
                if rng.random() < 0.7:
                    lines.append("appendInt %d %d" % (nb, v))
                else:
                    lines.append("prependInt %d %d" % (nb, v))
                clen += nb
            elif k < 0.82:
                nb = rng.choice([1, 2, 4, 8])
                lines.append(("readInt %d" if rng.random() < 0.6 else "peekInt %d") % nb)
                if nb <= clen and lines[-1].startswith("readInt"):
                    clen -= nb
            elif k < 0.86:
                st = rng.choice(["-", "0", str(rng.randrange(0, clen + 1)), str(clen)])
                lines.append("%s %s" % (rng.choice(["findCRLF", "findEOL"]), st))
            elif k < 0.90:
                # a line end cut in two: CR is the last readable byte, a stale LF sits right behind the write index
                d = bytearray(gen_bytes(rng.randrange(1 << 30), rng.choice([0, 1, 5, 30])))
                for j in range(len(d)):
                    if d[j] in (10, 13):
                        d[j] = 65
                lines.append("append h:" + (bytes(d) + b"\r\n").hex())
                lines.append("unwrite 1")
                clen += len(d) + 1
                lines.append("%s %s" % (rng.choice(["findCRLF", "findCRLF", "findEOL"]), rng.choice(["-", "0"])))
            else:
                n = size()
                lines.append("readFd g:%d:%d" % (rng.randrange(1 << 30), n))
                clen += n
        return lines

    # ------------------------------------------------------------------ driver
    def run_batch(self, ctx, exe, lines, origin, sample_every=0):
        """run one big batch (many `new`-separated sequences) through both sides"""
        case = Case("buffer", lines, origin)
        impl, err = ctx.run_impl(exe, case, timeout=900)
        fails = self.oracle(lines, impl)
        model = ctx.run_model(case, impl, timeout=1800) if ctx.model_ok else None
        mismatch = ctx.compare(case, impl, model) if model is not None else None
        # split the batch back into its sequences for counting / shrinking
        seqs, cur, start = [], [], 0
        ops = [l for l in lines if l.strip()]
        for i, l in enumerate(ops):
            if l.startswith("new ") and cur:
                seqs.append((start, cur))
                cur, start = [], i
            cur.append(l)
        if cur:
            seqs.append((start, cur))
        for start, seq in seqs:
            blocks = impl[start:start + len(seq)]
            accepted = sum(1 for b in blocks[1:] if ctx.observable(b) and ctx.observable(b)[0].startswith("st "))
            for l, b in zip(seq, blocks):
                o = ctx.observable(b)
                ctx.count("op:" + l.split()[0])
                if o and o[0] == "reject":
                    ctx.count("rejected")
            ctx.record(Case("buffer", seq), blocks, nontrivial=accepted > 0,
                       sample={"ops": seq[:12], "last_observation": (ctx.observable(blocks[-1]) or ["?"])[0]} if blocks else None)

        def locate(step):
            for start, seq in seqs:
                if start <= step < start + len(seq):
                    return seq
            return ops

        if fails:
            kind, desc = fails[0]
            import re
            m = re.search(r"step (\d+)", desc)
            seq = locate(int(m.group(1))) if m else ops
            exe1 = exe

            def still(ls):
                c = Case("buffer", ls)
                b, _ = ctx.run_impl(exe1, c, timeout=60)
                f = self.oracle(ls, b)
                return bool(f) and f[0][0] == kind
            from ..runner import ddmin
            small = ddmin(seq, still, keep_prefix=1) if still(seq) else seq
            c = Case("buffer", small, origin)
            b, _ = ctx.run_impl(exe1, c, timeout=60)
            f = self.oracle(small, b)
            ctx.oracle_failures.append((c, kind, f[0][1] if f else desc))
        elif mismatch:
            import re
            m = re.search(r"step (\d+)", mismatch)
            seq = locate(int(m.group(1))) if m else ops

            def still(ls):
                c = Case("buffer", ls)
                b, _ = ctx.run_impl(exe, c, timeout=60)
                mo = ctx.run_model(c, b, timeout=120)
                return ctx.compare(c, b, mo) is not None
            from ..runner import ddmin
            small = ddmin(seq, still, keep_prefix=1) if still(seq) else seq
            c = Case("buffer", small, origin)
            b, _ = ctx.run_impl(exe, c, timeout=60)
            mo = ctx.run_model(c, b, timeout=120)
            ctx.mismatches.append((c, ctx.compare(c, b, mo) or mismatch))

    def mt_readfd(self, ctx, fl):
        """free-running scenario (oracle only, no model): T threads, each with its own socketpair, its own Buffer and its own
        byte value, call readFd concurrently with more pending than the writable area holds, so that every call spills.
        Buffer is documented as not thread safe PER OBJECT; distinct objects on distinct threads (one per connection, one
        loop thread each) must not influence each other - storage shared between calls shows here"""
        exe = ctx.exe("buffer_drv", fl)
        threads, rounds = (4, 3000) if ctx.quick() else (6, 6000)
        case = Case("buffer", ["mtReadFd %d %d" % (threads, rounds)], "mt-readfd")
        impl, err = ctx.run_impl(exe, case, timeout=600)
        obs = [l for b in impl for l in ctx.observable(b)]
        ctx.count("mt_readfd_rounds", threads * rounds)
        ctx.extra["mt_readfd"] = {"threads": threads, "rounds_per_thread": rounds, "result": obs[:2]}
        ctx.record(case, impl, nontrivial=True)
        if obs[:1] != ["mt ok"]:
            kind = "crash" if any(l.startswith("<<") for l in obs) else "mt-content"
            ctx.oracle_failures.append((case, kind, "concurrent readFd on %d distinct buffers: %s" % (threads, "; ".join(obs)[:300])))

    def correspondence(self, ctx, replay=None):
        flavours = ["dbg"] if ctx.quick() else ["dbg", "asan"]
        ctx.extra["flavours"] = flavours
        if replay:
            with open(replay) as f:
                lines = [l.rstrip("\n") for l in f if l.strip() and not l.startswith("#") and not l.startswith("engine=")]
            if lines and lines[0].startswith("mtReadFd"):
                for fl in flavours:
                    self.mt_readfd(ctx, fl)
                return
            for fl in flavours:
                exe = ctx.exe("buffer_drv", fl)
                case = Case("buffer", lines, "replay")
                impl, err = ctx.run_impl(exe, case)
                model = ctx.run_model(case, impl)
                for i, (a, b) in enumerate(zip(impl, model)):
                    print("impl : %s\nmodel: %s" % (ctx.observable(a), ctx.observable(b)))
                self.run_batch(ctx, exe, lines, "replay")
            return
        for fl in flavours:
            exe = ctx.exe("buffer_drv", fl)
            # corpus first
            import glob, os
            from ..common import CORPUS
            for p in sorted(glob.glob(os.path.join(CORPUS, "C10", "*.case"))):
                with open(p) as f:
                    lines = [l.rstrip("\n") for l in f if l.strip() and not l.startswith("#") and not l.startswith("engine=")]
                self.run_batch(ctx, exe, lines, "corpus:" + os.path.basename(p))
                ctx.count("corpus_cases")
            if ctx.stop():
                return
            self.run_batch(ctx, exe, self.readfd_boundary_cases(), "readfd-boundary")
            if ctx.stop():
                return
            self.mt_readfd(ctx, fl)
            if ctx.stop():
                return
            depth = 2 if ctx.quick() else 3
            if ctx.search_mode:
                depth = 3
            lines, nalpha = self.exhaustive_cases(depth)
            ctx.extra["exhaustive_part"] = {"depth": depth, "alphabet": nalpha, "initial_sizes": [0, 1, 8],
                                       "sequences": 3 * nalpha ** depth}
            self.run_batch(ctx, exe, lines, "exhaustive-depth-%d" % depth)
            if ctx.stop():
                return
            nrand = 300 if ctx.quick() else 4000
            if ctx.search_mode:
                nrand = 4000
            batch = []
            for i in range(nrand):
                batch += self.random_case(ctx.rng, 40 if i % 10 else 200)
                if len(batch) > 20000:
                    self.run_batch(ctx, exe, batch, "random")
                    batch = []
                    if ctx.stop():
                        return
            if batch:
                self.run_batch(ctx, exe, batch, "random")


PROP = Prop()
