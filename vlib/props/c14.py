"""C14 — blocking queues and latch: FIFO, bounded, nothing lost, nobody left waiting.

Proof side: Props/C14.lean over the transition systems of Model/Monitor.lean, which interpret the method
skeletons and guards T1 extracts from BlockingQueue.h / BoundedBlockingQueue.h / CountDownLatch.cc.
Correspondence (T3): the real classes under harness/sched/detsched.h, the Lean systems under the same
scheduler rules, same program + same schedule => same event log; an independent oracle (a plain FIFO /
counter simulation on the implementation's own trace + the all-blocked report of the scheduler) judges
every run."""
from .. import monitor_common as mc
from ..runner import Case


sched = mc.random_schedule


def gen_case(rng, nsched):
    kind = rng.choice(["bq", "bbq", "bbq", "bbq", "latch"])
    nt = rng.randint(1, 4)
    threads = []
    v = 0
    if kind == "latch":
        n = rng.randint(0, 3)
        obj = "latch %d" % n
        downs = rng.choice([n, n, n, max(n - 1, 0), n + 1])
        pool = ["countDown"] * downs
        for t in range(nt):
            ops = []
            for _ in range(rng.randint(0, 3)):
                r = rng.random()
                if r < 0.4:
                    ops.append("wait")
                elif r < 0.55:
                    ops.append("getCount")
                elif pool:
                    ops.append(pool.pop())
            threads.append(ops)
        while pool and rng.random() < 0.8:
            threads[rng.randrange(nt)].append(pool.pop())
    else:
        if kind == "bq":
            obj, extra = "bq", ["drain", "size"]
        else:
            obj, extra = "bbq %d" % rng.randint(1, 3), ["size", "empty", "full", "capacity"]
        balance = rng.choice(["even", "even", "more-puts", "more-takes"])
        for t in range(nt):
            role = rng.choice(["producer", "consumer", "mixed"])
            ops = []
            for _ in range(rng.randint(0, 4)):
                r = rng.random()
                if r < 0.12:
                    ops.append(rng.choice(extra))
                    continue
                p = {"producer": 0.9, "consumer": 0.1, "mixed": 0.5}[role]
                if balance == "more-puts":
                    p = min(1.0, p + 0.2)
                if balance == "more-takes":
                    p = max(0.0, p - 0.2)
                if rng.random() < p:
                    v += 1
                    ops.append("put %d" % v)
                else:
                    ops.append("take")
            threads.append(ops)
    scheds = [[]] if rng.random() < 0.2 else []
    while len(scheds) < nsched:
        scheds.append(sched(rng, rng.randint(1, 40), rng.random() < 0.5))
    return mc.MCase(obj, threads, scheds, spurious=rng.random() < 0.4)


SMALL = [
    # (object, threads, spurious, preemption bound); the first three are also explored in the quick tier
    ("bq", [["put 1", "put 2"], ["take"], ["take"]], False, 3),
    ("bbq 1", [["put 1", "put 2"], ["take", "take"]], True, 4),
    ("latch 1", [["wait"], ["wait", "getCount"], ["countDown"]], True, 4),
    ("bq", [["put 1", "put 2", "put 3"], ["take", "drain"], ["take", "size"]], False, 2),
    ("bq", [["put 1", "take"], ["put 2", "take"], ["take", "put 3"]], True, 4),
    ("bbq 1", [["put 1"], ["put 2"], ["take"], ["take"]], False, 3),
    ("bbq 1", [["put 1", "put 2", "put 3"], ["take"], ["take", "take"]], True, 3),
    ("bbq 2", [["put 1", "put 2", "put 3"], ["take", "full"], ["take", "take", "empty"]], False, 2),
    ("bbq 2", [["put 1", "put 2"], ["put 3", "put 4"], ["take", "take"], ["take", "take"]], False, 2),
    ("latch 2", [["wait", "getCount"], ["wait"], ["countDown"], ["countDown"]], True, 3),
    ("latch 1", [["wait"], ["wait"], ["wait"], ["countDown", "countDown"]], False, 3),
]


class Prop:
    id = "C14"
    lean_module = "MuduoVerif.Props.C14"
    gen_engines = ["Monitor", "ThreadSkel"]
    drivers = ["monitor"]
    technique = ("Lean 4 invariant proofs over thread-indexed transition systems (mutex owner, explicit wait-sets, spurious "
                 "wake-ups, unbounded threads/capacity) whose statement skeletons and guards are T1-extracted from the sources "
                 "+ schedule-controlled differential runs of the real classes (deterministic scheduler, link-level pthread "
                 "interposition) + independent FIFO/deadlock oracle + exhaustive schedules under a preemption bound")
    level_text = ("Kernel-checked theorems for every number of threads, every program of put/take/drain/size/… resp. "
                  "wait/countDown/getCount, every capacity and every interleaving (including spurious wake-ups and every choice "
                  "notify() makes): returned elements ++ queued elements = put elements in mutex order (exactly once, FIFO, "
                  "per-producer program order), size <= capacity, no-lost-signal invariants for notEmpty_/notFull_, in every "
                  "reachable state where no thread can step each unfinished thread is parked in take() on an empty queue / in "
                  "put() on a full one / in wait() with a positive count, and count <= 0 implies no unsignalled waiter.  while/if, "
                  "the condition waited on, notify vs notifyAll, their order and the loop guards are re-extracted from /repo on "
                  "every run and tied by decide-lemmas; the primitives underneath (MutexLock/MutexLockGuard, Condition::wait/notify/"
                  "notifyAll/waitForSeconds, CountDownLatch) are tied statement by statement to the pthread calls the model's atomic "
                  "steps stand for, and the deadline arithmetic of waitForSeconds is translated and proved to give a valid timespec; "
                  "the models are tied to the real classes by identical-schedule runs")
    level_note = ("Trusted: Lean kernel (axioms propext, Classical.choice, Quot.sound only), vlib/extract.py + vlib/gen/monitor.py + "
                  "vlib/gen/threadskel.py, "
                  "the hand-written parts of Model/Monitor.lean as far as the differential runs exercise them, pthread "
                  "mutex/condition semantics as modelled (Mesa monitors, spurious wake-ups), std::deque/boost::circular_buffer, "
                  "harness/sched/detsched.h.")
    rule = ("objects bq | bbq cap 1..3 | latch 0..3; 1..4 threads with 0..4 scripted operations each; 40% of the cases offer "
            "spurious wake-ups; random schedules of 0..40 decisions (dense and sparse) plus, for the small configurations "
            "listed in the plug-in, every schedule with at most 2 preemptions; a run is non-trivial when the scheduler had at "
            "least one real decision or the run ended all-blocked; distinct = distinct observable traces. When the harness no "
            "longer compiles because the members it names were renamed or merged, it is rebuilt with scheduler-assigned names "
            "and the search for a failing input runs under the oracle alone")
    trusted_base = [
        "Lean 4.33.0 kernel; axioms allowed: propext, Classical.choice, Quot.sound",
        "vlib/extract.py + vlib/gen/monitor.py (clang-14 JSON AST -> Generated/Monitor.lean: statement skeletons and loop guards)",
        "hand-written Model/Monitor.lean (interpretation of the skeletons), tied by identical-schedule differential runs",
        "vlib/gen/threadskel.py + vlib/logskel_common.py (same AST -> Generated/ThreadSkel.lean: statement skeletons of MutexLock / MutexLockGuard / UnassignGuard (Mutex.h), Condition (Condition.h, Condition.cc), CountDownLatch.cc, and the deadline arithmetic of Condition::waitForSeconds translated into Lean (exact while nothing leaves int64_t; the double -> int64_t conversion of `seconds` is a parameter)) and the hand-written reading Model/ThreadSkelDecl.lean (which atomic step of the model stands for which statements): that the code calls pthread in the modelled order is tied by decide; what the pthread / libc functions do stays trusted (POSIX)",
        "harness/sched/detsched.h (link-level interposition of pthread mutex/cond/create/join; one thread runs at a time)",
        "pthread mutexes and condition variables behave as Mesa monitors with spurious wake-ups; std::deque, boost::circular_buffer",
    ]
    assumptions = [
        "steps are atomic between two scheduling points (mutex acquisition, condition wait, thread exit); data races below "
        "that granularity are the subject of C08",
        "BoundedBlockingQueue is constructed with capacity >= 1 in the runs (the theorems hold for every capacity)",
        "threads are not cancelled and the objects outlive their users",
    ]
    partial_theorems = []

    def signature(self, case, kind, desc):
        return kind

    def correspondence(self, ctx, replay=None):
        r = mc.Runner(ctx, self, mc.oracle_c14)
        flavours = ["dbg"] if ctx.quick() else ["dbg", "asan"]
        ctx.extra["flavours"] = flavours
        if replay:
            exe = mc.monitor_exe(ctx, "dbg")
            cases = mc.read_case_file(replay)
            for c, (ib, mb, bad) in zip(cases, r.run(exe, cases)):
                for i, blk in enumerate(ib or []):
                    print("schedule %s" % " ".join(map(str, c.schedules[i])))
                    print("  impl : %s" % ctx.observable(blk))
                    print("  model: %s" % (ctx.observable(mb[i]) if mb else None))
                    print("  oracle: %s" % (mc.oracle_c14(c, blk) or "ok"))
            r.judge(exe, cases)
            return
        if ctx.search_mode:
            # an obligation or tie no longer checks: the model interprets skeletons that are not the declared ones and is
            # no reference (two disagreements with it would end the run).  Look for a concrete failing input under the
            # oracle alone first: corpus, every listed configuration, random programs.
            exe = mc.monitor_exe(ctx, "dbg")
            r.searching = True
            try:
                ctx.count("oracle_only_searches")
                r.judge(exe, mc.corpus_cases("C14"))
                if not ctx.stop() and self.systematic(ctx, r, exe, SMALL, 12000):
                    self.random_cases(ctx, r, exe, 2500, 6)
            finally:
                r.searching = False
            if ctx.stop() or ctx.extra.get("anon_sync"):
                return          # (fallback build of the harness: its traces do not compare with the model's)
        for fl in flavours:
            exe = mc.monitor_exe(ctx, fl)
            cases = mc.corpus_cases("C14")
            r.judge(exe, cases)
            ctx.count("corpus_cases", len(cases))
            if ctx.stop():
                return
            heavy = not ctx.quick()
            if fl == "dbg":
                # systematic part: every schedule with <= bound preemptions
                if not self.systematic(ctx, r, exe, SMALL if heavy else SMALL[:3], 12000 if heavy else 2500):
                    return
            ncases = (4000 if fl == "dbg" else 600) if heavy else 600
            if not self.random_cases(ctx, r, exe, ncases, 6 if heavy else 3):
                return

    def systematic(self, ctx, r, exe, plan, limit):
        total, complete = 0, ctx.extra.get("systematic", [])
        for obj, threads, spur, bound in plan:
            c = mc.MCase(obj, threads, [], spur, "systematic")
            n, done = r.explore(exe, c, bound, limit)
            total += n
            complete.append({"object": obj, "threads": threads, "spurious": spur, "preemption_bound": bound,
                             "schedules": n, "complete": done, "oracle_only": r.searching})
            if ctx.stop():
                return False
        ctx.extra["systematic"] = complete
        ctx.count("systematic_runs", total)
        return True

    def random_cases(self, ctx, r, exe, ncases, nsched):
        batch = []
        for i in range(ncases):
            batch.append(gen_case(ctx.rng, nsched))
            if len(batch) >= 150:
                r.judge(exe, batch)
                batch = []
                if ctx.stop():
                    return False
        if batch:
            r.judge(exe, batch)
        return not ctx.stop()


PROP = Prop()
