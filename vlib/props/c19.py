"""C19 — every RPC completes exactly once with the response that carries its own id.

Theorems: Props/C19.lean over Model/Rpc.lean (atomic-step model of RpcChannel, any interleaving of calling
threads and the loop thread); invariants CallInv (Proofs/Rpc*.lean), TraceInv (RpcOnce), SrvInv (RpcServe), HaltInv /
ServerInv (RpcLife), closed forms of the REQUEST branch and the reply specification `expected` (RpcShape); Model/RpcLock.lean +
Proofs/RpcLock.lean: the channel's mutex made explicit (held / deadlocked) and completion closures that issue calls on their own
channel (chained calls), a refinement of Model/Rpc.lean.  T1: vlib/gen/rpc.py.  T2: harness/rpc_drv.cc (real RpcChannel / RpcServer /
generated service over socketpairs in a single-stepped EventLoop; the harness is the raw peer) against the
Lean driver, plus the independent specification below evaluated on the implementation's own trace."""
import glob
import os
import re

from ..common import CORPUS, load_known
from ..runner import Case, ddmin

ERR = {0: "NO_ERROR", 1: "WRONG_PROTO", 2: "NO_SERVICE", 3: "NO_METHOD", 4: "INVALID_REQUEST", 5: "INVALID_RESPONSE", 6: "TIMEOUT"}
ASSERT_FLAVOURS = ("dbg", "asan", "tsan")


def parse_spec(s):
    """-> (payload or None, parses, has_error)"""
    p = s.split(":")
    if p[0] == "ok":
        return int(p[1]), True, False
    if p[0] == "both":
        return int(p[1]), True, True
    if p[0] == "garbage":
        return None, True, False      # field present, does not parse
    if p[0] == "err":
        return None, False, True
    return None, False, False          # bare


class Spec:
    """The property, written as a specification on observable events only: which closures must run with
    what, which replies must appear.  Knows nothing of the Lean model or of RpcChannel's code."""

    def __init__(self, flavour):
        self.flavour = flavour
        self.kind = {}            # channel -> client/server
        self.ids = {}             # channel -> {tag: id} as seen on the wire
        self.waiting = {}         # channel -> {id: tag}: sent, no response delivered yet
        self.completed = {}       # channel -> set(tag)
        self.freed = {}           # channel -> set(tag)
        self.inbox = {}           # channel -> [message]
        self.deferred = {}        # channel -> {p: id}
        self.alive = {}
        self.next_tag = {}
        self.depth = {}           # channel -> {tag: chain depth of its closure}
        self.fails = []

    def fail(self, kind, desc):
        self.fails.append((kind, desc))

    @staticmethod
    def wire_ids(c, lines):
        """tag -> id of the REQUEST frames of this block (what the peer read from the wire)"""
        res = {}
        for l in lines:
            m = re.match(r"c%d sent id=(\d+)(\(unset\))? tag=(-?\d+)" % c, l)
            if m:
                res.setdefault(int(m.group(3)), int(m.group(1)))
        return res

    def check_sent(self, c, lines, expected_tags, step, registered=(), chained=()):
        """REQUEST frames observed: one per call made, fresh ids.  `registered`: tags whose frames the caller has entered
        into `waiting` already (the threads' calls of a callmt, calls chained from closures inside the batch)"""
        seen = []
        for l in lines:
            m = re.match(r"c%d sent id=(\d+)(\(unset\))? tag=(-?\d+)(.*)$" % c, l)
            if not m:
                continue
            i, unset, tag, rest = int(m.group(1)), m.group(2), int(m.group(3)), m.group(4)
            if unset or rest.strip():
                self.fail("bad-request-frame", "step %d: %s" % (step, l))
            if i in [v for t, v in self.ids[c].items() if t != tag] or tag in seen:
                self.fail("duplicate-id", "step %d: id %d handed out twice on channel %d (%s)" % (step, i, c, l))
            if tag not in registered:
                self.ids[c][tag] = i
                self.waiting[c][i] = tag
            seen.append(tag)
        if sorted(seen) != sorted(expected_tags):
            missing = set(expected_tags) - set(seen)
            kind = "chained-call-lost" if missing and missing <= set(chained) else "request-not-sent"
            self.fail(kind, "step %d: calls %s, REQUEST frames seen for %s" % (step, sorted(expected_tags), sorted(seen)))

    def deliver(self, c, lines, step, new_tags=()):
        """the loop handled every queued message of channel c; `lines` = what channel c showed.  `new_tags`: calls made
        by this very operation (callmt) whose frames are in `lines` too"""
        exp_done, exp_replies, exp_dispatch, exp_chained = [], [], [], []
        bare_seen = False
        wire = self.wire_ids(c, lines)
        for m in self.inbox[c]:
            if not self.alive[c]:
                break
            if m[0] == "response":
                _, i, (p, has_resp, has_err) = m
                if not has_resp and not has_err:
                    bare_seen = True
                if i in self.waiting[c]:
                    tag = self.waiting[c].pop(i)
                    exp_done.append((tag, p if has_resp else None))
                    d = self.depth[c].get(tag, 0)
                    if d > 0:
                        # the closure of `tag` issues a call on its own channel: it gets the next tag, must be given a
                        # fresh id, is outstanding from here on (a later message of this batch may answer it already)
                        t2 = self.next_tag[c]
                        self.next_tag[c] += 1
                        self.depth[c][t2] = d - 1
                        exp_chained.append((t2, tag))
                        if t2 in wire:
                            i2 = wire[t2]
                            if i2 in self.ids[c].values():
                                self.fail("duplicate-id", "step %d: id %d handed out twice on channel %d (chained call %d)" % (step, i2, c, t2))
                            self.ids[c][t2] = i2
                            self.waiting[c][i2] = t2
            elif m[0] == "request":
                _, i, svc, meth, (p, _, _) = m
                if self.kind[c] != "server" or svc != "echo":
                    exp_replies.append((i, None, "NO_SERVICE"))
                elif meth == "nometh":
                    exp_replies.append((i, None, "NO_METHOD"))
                elif p is None:
                    exp_replies.append((i, None, "INVALID_REQUEST"))
                else:
                    exp_dispatch.append(p)
                    if meth == "Echo":
                        exp_replies.append((i, p, None))
                    else:
                        self.deferred[c][p] = i
        self.inbox[c] = []
        self.compare(c, lines, step, exp_done, exp_replies, exp_dispatch, exp_chained=exp_chained)
        self.check_sent(c, lines, list(new_tags) + [t for t, _ in exp_chained], step,
                        registered=list(new_tags) + [t for t, _ in exp_chained], chained=[t for t, _ in exp_chained])
        return bare_seen

    def compare(self, c, lines, step, exp_done, exp_replies, exp_dispatch, exp_free=None, exp_chained=None):
        dones, replies, dispatches, frees, chained = [], [], [], [], []
        for l in lines:
            m = re.match(r"c%d chained (\d+) by (\d+)$" % c, l)
            if m:
                chained.append((int(m.group(1)), int(m.group(2))))
                continue
            m = re.match(r"c%d done (\d+) view=(\d+|-)$" % c, l)
            if m:
                dones.append((int(m.group(1)), None if m.group(2) == "-" else int(m.group(2))))
                continue
            m = re.match(r"c%d reply id=(\d+)(\(unset\))? payload=(\S+) error=(\S+)$" % c, l)
            if m:
                if m.group(2):
                    self.fail("reply-without-id", "step %d: %s" % (step, l))
                replies.append((int(m.group(1)), None if m.group(3) == "-" else (int(m.group(3)) if m.group(3).isdigit() else m.group(3)),
                                None if m.group(4) == "-" else m.group(4)))
                continue
            m = re.match(r"c%d dispatch p=(\d+)$" % c, l)
            if m:
                dispatches.append(int(m.group(1)))
                continue
            m = re.match(r"c%d free (resp|done) (\d+)$" % c, l)
            if m:
                frees.append((m.group(1), int(m.group(2))))
                continue
            if re.match(r"c%d sent " % c, l):
                continue
            if re.match(r"c%d (doublefree|uaf)" % c, l):
                self.fail("heap", "step %d: %s" % (step, l))
            else:
                self.fail("unexpected-event", "step %d: %s" % (step, l))
        # closures
        exp_tags = [t for t, _ in exp_done]
        for tag, v in dones:
            if tag in self.completed[c] or [t for t, _ in dones].count(tag) > 1:
                self.fail("ran-twice", "step %d: closure of call %d on channel %d ran again" % (step, tag, c))
            elif tag not in exp_tags:
                self.fail("ran-foreign", "step %d: closure of call %d on channel %d ran without a response carrying its id %s"
                          % (step, tag, c, self.ids[c].get(tag)))
            elif (tag, v) not in exp_done:
                self.fail("wrong-response", "step %d: closure of call %d saw %s, the response with its id carried %s"
                          % (step, tag, v, dict(exp_done)[tag]))
        for tag, v in exp_done:
            if tag not in [t for t, _ in dones]:
                self.fail("not-completed", "step %d: a response with id %s arrived, the closure of call %d did not run"
                          % (step, self.ids[c].get(tag), tag))
        if not self.fails and dones != exp_done:
            self.fail("completion-order", "step %d: closures ran as %s, responses arrived as %s" % (step, dones, exp_done))
        for tag, _ in dones:
            self.completed[c].add(tag)
        # calls issued from inside closures: CallMethod returned, once per closure that chains
        if chained != (exp_chained or []) and not self.fails:
            self.fail("chained-call-lost" if len(chained) < len(exp_chained or []) else "unexpected-event",
                      "step %d: calls issued from closures (call, by) %s, expected %s" % (step, chained, exp_chained or []))
        # the response object of a completed call is released exactly once, of no other call
        want_free = sorted([("resp", t) for t in exp_tags] + (exp_free or []))
        for f in frees:
            if f in self.freed[c]:
                self.fail("heap", "step %d: %s object of call %d freed twice" % (step, f[0], f[1]))
            self.freed[c].add(f)
        if sorted(frees) != want_free and not self.fails:
            self.fail("heap", "step %d: objects released %s, expected %s" % (step, sorted(frees), want_free))
        # replies
        if dispatches != exp_dispatch:
            self.fail("dispatch", "step %d: service called for %s, expected %s" % (step, dispatches, exp_dispatch))
        for r in replies:
            if replies.count(r) > exp_replies.count(r):
                kind = "reply-twice" if exp_replies.count(r) >= 1 else ("reply-wrong" if any(e[0] == r[0] for e in exp_replies) else "reply-foreign")
                self.fail(kind, "step %d: channel %d sent %s; expected replies %s" % (step, c, r, exp_replies))
        for r in exp_replies:
            if exp_replies.count(r) > replies.count(r):
                if not any(k in ("reply-wrong",) for k, _ in self.fails):
                    self.fail("reply-missing", "step %d: request id %d got no reply %s (channel %d sent %s)" % (step, r[0], r, c, replies))
        if not self.fails and replies != exp_replies:
            self.fail("reply-order", "step %d: replies %s, expected %s" % (step, replies, exp_replies))

    def run(self, ops, blocks):
        for step, op in enumerate(ops):
            if step >= len(blocks):
                self.fail("trace", "no output for step %d `%s`" % (step, op))
                break
            blk = [l for l in blocks[step] if not l.startswith("#") and not (l.startswith("<") and not l.startswith("<<"))]
            crash = [l for l in blk if l.startswith("<<")]
            w = op.split()
            if blk == ["bad-op"]:
                continue
            if "abort" in blk:
                # which delivery was in progress?
                bare = any(m[0] == "response" and not m[2][1] and not m[2][2] for c in self.inbox for m in self.inbox[c])
                text = next((l for l in blocks[step] if l.startswith("# assertion: ")), "")
                if bare and self.flavour in ASSERT_FLAVOURS and "has_response() || message.has_error()" in text:
                    self.fail("abort-bare-response", "step %d `%s`: the process aborted on a RESPONSE with neither payload nor error; "
                              "no outstanding call can complete any more" % (step, op))
                else:
                    self.fail("abort", "step %d `%s`: an assertion of the library failed" % (step, op))
                break
            if "hang" in blk:
                text = next((l[2:] for l in blocks[step] if l.startswith("# ")), "")
                self.fail("hang", "step %d `%s`: the operation never finishes (%s); the calls still outstanding are never completed, "
                          "a call issued from a completion closure is never registered" % (step, op, text))
                break
            if crash:
                self.fail("hang" if "<<exit 124>>" in crash[0] else "crash", "step %d `%s`: %s" % (step, op, crash[0]))
                break
            per = {}
            for l in blk:
                m = re.match(r"c(\d+) ", l)
                if not m:
                    self.fail("unexpected-event", "step %d: %s" % (step, l))
                    continue
                per.setdefault(int(m.group(1)), []).append(l)
            name = w[0]
            if name == "flavour":
                pass
            elif name == "chan":
                c = int(w[1])
                self.kind[c] = w[2]
                for d in (self.ids, self.waiting, self.deferred, self.depth):
                    d[c] = {}
                self.completed[c], self.freed[c], self.inbox[c], self.alive[c], self.next_tag[c] = set(), set(), [], True, 0
            elif name == "call":
                c = int(w[1])
                tag = self.next_tag[c]
                self.next_tag[c] += 1
                self.depth[c][tag] = int(w[2]) if len(w) > 2 else 0
                self.check_sent(c, per.get(c, []), [tag], step)
                for cc in per:
                    self.compare(cc, per[cc], step, [], [], [])
            elif name in ("iter", "callmt"):
                mt, tags = None, []
                if name == "callmt":
                    mt, n = int(w[1]), int(w[2])
                    tags = list(range(self.next_tag[mt], self.next_tag[mt] + n))
                    self.next_tag[mt] += n
                    # the threads have returned from CallMethod: their calls are registered before the loop runs
                    # (their frames are queued behind the loop's I/O phase: a response of this batch can only have guessed an id)
                    wire = self.wire_ids(mt, per.get(mt, []))
                    for t in tags:
                        self.depth[mt][t] = int(w[3]) if len(w) > 3 else 0
                        if t in wire:
                            if wire[t] in self.ids[mt].values():
                                self.fail("duplicate-id", "step %d: id %d handed out twice on channel %d" % (step, wire[t], mt))
                            self.ids[mt][t] = wire[t]
                            self.waiting[mt][wire[t]] = t
                for cc in sorted(self.kind):
                    self.deliver(cc, per.get(cc, []), step, new_tags=tags if cc == mt else ())
            elif name == "peerResponse":
                self.inbox[int(w[1])].append(("response", int(w[2]), parse_spec(w[3])))
            elif name == "peerRequest":
                self.inbox[int(w[1])].append(("request", int(w[2]), w[3], w[4], parse_spec(w[5])))
            elif name == "peerError":
                self.inbox[int(w[1])].append(("error", int(w[2])))
            elif name == "fireDone":
                c, p = int(w[1]), int(w[2])
                i = self.deferred[c].pop(p)
                self.compare(c, per.get(c, []), step, [], [(i, p, None)], [])
            elif name == "reconn":
                self.inbox[int(w[1])] = []       # in flight on the old connection: lost with it
            elif name == "destroy":
                c = int(w[1])
                self.alive[c] = False
                left = sorted(self.waiting[c].values())
                self.compare(c, per.get(c, []), step, [], [], [], exp_free=[("resp", t) for t in left] + [("done", t) for t in left])
                self.waiting[c] = {}
            if name not in ("call", "iter", "callmt", "fireDone", "destroy"):
                for cc in per:
                    self.compare(cc, per[cc], step, [], [], [])
            if self.fails:
                break
        return self.fails


class Prop:
    id = "C19"
    lean_module = "MuduoVerif.Props.C19"
    gen_engines = ["Rpc", "RpcSkel"]
    drivers = ["rpc"]
    technique = ("Lean 4 invariant proofs over an atomic-step model of RpcChannel (any interleaving of caller threads and "
                 "the loop thread) + T1 extraction of RpcChannel.cc / RpcServer.cc / rpc.proto + differential run of the real "
                 "RpcChannel / RpcServer over socketpairs against the model + independent specification on the implementation's trace")
    level_text = ("Kernel-checked theorems (Props/C19.lean) for every list of the model's atomic steps - any number of CallMethod calls "
                  "split into id fetch / insert / send and interleaved arbitrarily with each other and with the loop thread, messages "
                  "of every type with any id and any payload/error combination (including neither), deferred done-callbacks fired at "
                  "any time, both build flavours: ids_unique (ids pairwise distinct and positive, one REQUEST frame per call, a wire id "
                  "names one call); complete_at_most_once; complete_with_own_response (a closure runs only for the RESPONSE that "
                  "arrived last before it, that message carries the call's id, the closure sees its parsed payload); complete_once "
                  "(full strength: a RESPONSE arriving after the call's frame left => the closure has run exactly once or the loop "
                  "thread is completing it; the first such response supplies the payload) and response_completes (state form, also for "
                  "an inserted call whose frame has not left yet: exact log, erase, one run, one free); bare_response_completes and "
                  "never_halts, assert_removed (the repaired finding C19-F1: a RESPONSE with neither payload nor error completes its "
                  "call once with an untouched response object, nothing in the channel aborts on peer input); no_foreign_completion "
                  "(unknown / consumed id: only the arrival is logged, outstandings_ unchanged); no_double_free_no_use_after_free and "
                  "destroy_frees_once (response object freed exactly once per registered call, nothing touches it afterwards); "
                  "outstanding_exact (+ no duplicate keys) and registered_accounted; one_reply, at_most_one_reply, requests_numbered, "
                  "expected_spec (every handled REQUEST: at most one RESPONSE, exactly one unless the service still holds the "
                  "done-callback, with the request's id, being the service's answer or NO_SERVICE / NO_METHOD / INVALID_REQUEST; service "
                  "called once iff the request is valid; no callback used after it ran, under the named hypothesis ServiceDoneOnce); "
                  "server_channels (every RpcServer channel is such a channel, one per connection, isolated); f1_witness_passes. "
                  "Re-entrancy (Model/RpcLock.lean: the channel with its mutex - `held` is set by the RESPONSE look-up exactly when the "
                  "extracted lock scope covers parse and Run() - and closures that issue CallMethod on their own channel as three "
                  "steps of the loop thread, any number of times, interleaved with other threads; a re-entrant insert with the lock held "
                  "is the outcome `deadlocked`): locked_refines / chained_histories_inherit (every history with chained calls is a "
                  "history of Model/Rpc.lean, so every theorem above holds for it; chained_histories restates ids_unique, "
                  "complete_at_most_once, complete_with_own_response, complete_once, free = ran, outstanding_exact for it); "
                  "closure_runs_unlocked (in every reachable state the loop thread does not hold mutex_ between steps - in particular "
                  "while a closure runs - and nothing is deadlocked); chained_call_registers (a call issued from inside a running closure "
                  "gets the next id, distinct from every earlier one, is registered under it, its frame leaves, the running completion is "
                  "untouched, no deadlock); chained_call_completes (its response then runs exactly its closure, once); "
                  "reentry_under_lock_deadlocks (the model's deadlock outcome: with the lock kept, the chained call is never registered "
                  "and nothing ever moves again). "
                  "The id source, lock scopes, the assertion of the RESPONSE branch (none), erase, run/free counts, the request decision "
                  "tree and reply ids are re-extracted from /repo's AST on every run; the hand-written steps are tied to the real "
                  "classes by a differential run with a scripted raw peer and real concurrent callers")
    level_note = ("Trusted: Lean kernel (propext, Classical.choice, Quot.sound), vlib/gen/rpc.py, the hand-written part of "
                  "Model/Rpc.lean as far as the differential run exercises it, protobuf, std::map, the harness. Framing (RpcCodec) "
                  "is property C18 and treated as transparent here. Thread interleavings inside CallMethod are proved on the model "
                  "(critical sections as atomic steps); on the implementation they are exercised by free-running joined threads (ids "
                  "on the wire must be distinct). 'Exactly once' is a safety statement on traces: it says the closure has run or the "
                  "loop thread stands between its critical section and the completion (pending), not that the loop thread is "
                  "scheduled. Finding C19-F1 (assert on peer-controlled input) is repaired in /repo; with the assert back, "
                  "assert_removed and f1_witness_passes no longer compile and the corpus witness F1-bare-response-asserts.case aborts. "
                  "In the model a second invocation of a done-callback is a use-after-free event, excluded by the hypothesis "
                  "ServiceDoneOnce of one_reply. A thread that can never proceed is reported by the harness as the result line `hang` "
                  "(decided from the lock state by link-level interposition of pthread_mutex_lock/unlock: a thread locks a normal mutex "
                  "it holds; a 60 s SIGALRM watchdog per operation is only a backstop); the model's `deadlocked` prints the same line.")
    rule = ("histories over 2-4 channels (client channels and RpcServer-created server channels): calls from the loop thread and "
            "from 2-4 concurrent threads, about 40% of them with a completion closure that issues a follow-up call on the same "
            "channel from inside Run() (chains of depth 1-5; 60% of the cases are chain-heavy and answer the chained calls until "
            "the chains run out); peer responses for outstanding, answered (duplicate), never-issued and guessed ids with "
            "payload / unparsable payload / error / both / neither; requests for existing and missing services and methods, "
            "unparsable request payloads, synchronous and deferred done; ERROR-typed messages; a new connection handed to the same "
            "channel object while calls are outstanding (reconn); channel destruction. Non-trivial = "
            "at least one closure ran or one reply was produced; distinct = distinct observation traces")
    trusted_base = [
        "Lean 4.33.0 kernel; axioms allowed: propext, Classical.choice, Quot.sound",
        "vlib/gen/rpc.py (clang-14 JSON AST of RpcChannel.cc and RpcServer.cc, text of rpc.proto -> Generated/Rpc.lean)",
        "vlib/gen/rpcskel.py (same AST -> Generated/RpcSkel.lean: statement skeletons of ~RpcChannel, CallMethod, onMessage, "
        "onRpcMessage, doneCallback, RpcServer::onConnection) and the reading of Model/Rpc.lean written down in "
        "Model/RpcSkelDecl.lean; the two are proved equal (statement_order_tied)",
        "hand-written Model/Rpc.lean (atomic steps, heap-cell events) and Model/RpcLock.lean (mutex, chained calls), tied by the "
        "differential run (harness/rpc_drv.cc vs drv_rpc); the harness' self-deadlock detector (interposed pthread_mutex_lock/unlock, "
        "per-thread set of held normal mutexes)",
        "protobuf (generated stubs, parsing), std::map, muduo's TcpConnection/EventLoop/RpcCodec below the message level (C01, C18)",
        "atomicity of the critical sections: MutexLockGuard scopes are taken as atomic steps (C08 covers the lock discipline); the one "
        "scope that can span steps - the RESPONSE branch's - is explicit (`held`, from the extracted respLookupUnderLock / respRunOutsideLock)",
    ]
    assumptions = [
        "ServiceDoneOnce (named hypothesis of one_reply): the service invokes a done-callback only while it holds it - at most once, and never one it was not given",
        "the caller passes a non-null response object and closure (protobuf RpcChannel::CallMethod contract)",
        "complete_once speaks about a RESPONSE that arrives after the call's REQUEST frame left (hypothesis `sent m.id k` before `arrived m` in the log); response_completes covers answers that arrive between insert and send; at-most-once and own-response need nothing",
        "the id counter does not wrap (2^63 calls)",
        "framing is transparent: whole RpcMessages in, whole RpcMessages out (C18)",
        "~RpcChannel runs on the loop thread between two messages (destroy_frees_once: pending = none)",
        "a completion closure is sequential code on the loop thread: what it does to its own channel is a sequence of CallMethod calls "
        "(chainBegin/chainInsert/chainSend); it does not destroy the channel it is called from",
    ]
    partial_theorems = []

    def signature(self, case, kind, desc):
        return kind

    # ------------------------------------------------------------------ generator
    def random_case(self, rng, flavour, maxlen):
        nch = rng.choice([2, 2, 3, 4])
        kinds = ["client", "server"] + [rng.choice(["client", "server"]) for _ in range(nch - 2)]
        if rng.random() < 0.3:
            kinds.reverse()
        lines = ["flavour " + flavour] + ["chan %d %s" % (i, k) for i, k in enumerate(kinds)]
        # the generator follows the client side of every channel (ids are handed out 1, 2, 3, ...; every RESPONSE for an
        # outstanding id completes that call; a completed call with chain depth d issues one with depth d-1) so that it
        # can aim answers at chained calls too.  This only steers the choice of inputs; nothing is decided from it.
        counter = [0] * nch                     # ids handed out so far
        waiting = [dict() for _ in range(nch)]  # id -> chain depth of its closure
        inbox = [[] for _ in range(nch)]
        answered = [[] for _ in range(nch)]
        deferred = [[] for _ in range(nch)]
        nextp = [1000]
        alive = [True] * nch
        allow_bare = True      # since the fix of C19-F1 a bare RESPONSE is an answer like any other, in every flavour
        chainy = rng.random() < 0.6             # a fair share of the cases is about chained calls

        def payload():
            nextp[0] += 1
            return nextp[0]

        def depth():
            r = rng.random()
            if not chainy:
                return 0 if r < 0.9 else 1
            return 0 if r < 0.35 else (1 if r < 0.65 else (2 if r < 0.85 else rng.choice([3, 4, 5])))

        def new_call(c, d):
            counter[c] += 1
            waiting[c][counter[c]] = d

        def loop_iteration():
            for c in range(nch):
                if alive[c]:
                    for i in inbox[c]:
                        if i in waiting[c]:
                            d = waiting[c].pop(i)
                            if d > 0:
                                new_call(c, d - 1)
                inbox[c] = []

        def resp_spec():
            r = rng.random()
            if r < 0.6:
                return "ok:%d" % rng.randrange(1, 1 << 40)
            if r < 0.7:
                return "garbage"
            if r < 0.8:
                return "err:%d" % rng.choice([1, 2, 3, 4, 5, 6])
            if r < 0.88:
                return "both:%d:%d" % (rng.randrange(1, 1000), rng.choice([2, 3, 4]))
            return "bare" if allow_bare else "ok:%d" % rng.randrange(1, 100)

        for _ in range(rng.randrange(3, maxlen)):
            c = rng.randrange(nch)
            k = rng.random()
            if k < 0.2 and alive[c]:
                d = depth()
                lines.append("call %d %d" % (c, d) if d or rng.random() < 0.2 else "call %d" % c)
                new_call(c, d)
            elif k < 0.225 and alive[c] and kinds[c] == "client":
                # the channel object outlives its connection (a TcpClient with retry on): calls made on the new
                # connection still get fresh ids, calls outstanding from the old one are still completed only by their own id
                lines.append("reconn %d" % c)
                inbox[c] = []
            elif k < 0.27 and alive[c]:
                n = rng.choice([2, 3, 4])
                d = depth() if rng.random() < 0.4 else 0
                lines.append("callmt %d %d %d" % (c, n, d) if d else "callmt %d %d" % (c, n))
                for _j in range(n):
                    new_call(c, d)
            elif k < 0.55:
                r = rng.random()
                pending_chain = [i for i in inbox[c] if waiting[c].get(i, 0) > 0]
                if r < 0.45 and waiting[c]:
                    i = rng.choice(sorted(waiting[c]))                 # an outstanding call (out of order: any of them)
                elif r < 0.55 and counter[c]:
                    i = rng.randrange(1, counter[c] + 1)
                elif r < 0.65 and pending_chain:
                    i = counter[c] + rng.randrange(1, len(pending_chain) + 1)   # the id a call chained in this batch will get
                elif r < 0.78 and answered[c]:
                    i = rng.choice(answered[c])
                elif r < 0.92:
                    i = rng.choice([0, counter[c] + 1, counter[c] + 2, counter[c] + rng.randrange(1, 6), 1 << 62, (1 << 64) - 1])
                else:
                    i = rng.randrange(0, 12)
                answered[c].append(i)
                lines.append("peerResponse %d %d %s" % (c, i, resp_spec()))
                inbox[c].append(i)
                if rng.random() < 0.15:
                    lines.append("peerResponse %d %d %s" % (c, i, resp_spec()))   # duplicate in the same batch
                    inbox[c].append(i)
            elif k < 0.72:
                svc = "echo" if rng.random() < 0.8 else "nosvc"
                meth = rng.choice(["Echo", "Echo", "Defer", "Defer", "nometh"])
                spec = "ok:%d" % payload() if rng.random() < 0.8 else "garbage"
                i = rng.choice([rng.randrange(0, 8), rng.randrange(0, 1 << 63), 1])
                lines.append("peerRequest %d %d %s %s %s" % (c, i, svc, meth, spec))
                if kinds[c] == "server" and svc == "echo" and meth == "Defer" and spec.startswith("ok:"):
                    deferred[c].append([int(spec[3:]), False])    # [payload, delivered]
            elif k < 0.75:
                lines.append("peerError %d %d" % (c, rng.randrange(0, 6)))
            elif k < 0.81:
                ready = [d for d in deferred[c] if d[1]]
                if ready:
                    d = rng.choice(ready)
                    deferred[c].remove(d)
                    lines.append("fireDone %d %d" % (c, d[0]))
            elif k < 0.83 and kinds[c] == "client" and alive[c]:
                lines.append("destroy %d" % c)
                alive[c] = False
            else:
                lines.append("iter")
            if lines[-1] == "iter" or lines[-1].startswith("callmt"):
                loop_iteration()
                for ch in range(nch):
                    for d in deferred[ch]:
                        d[1] = True
        # let the chains run out: answer what is outstanding, a few rounds
        for _ in range(rng.choice([0, 1, 2, 4]) if chainy else 0):
            for c in range(nch):
                ids = sorted(waiting[c])
                rng.shuffle(ids)
                for i in ids:
                    if alive[c] and rng.random() < 0.8:
                        lines.append("peerResponse %d %d %s" % (c, i, resp_spec()))
                        inbox[c].append(i)
            lines.append("iter")
            loop_iteration()
        lines.append("iter")
        for c in range(nch):
            for d in list(deferred[c]):
                if rng.random() < 0.7:
                    lines.append("fireDone %d %d" % (c, d[0]))
        lines.append("iter")
        for c in range(nch):
            if kinds[c] == "client" and alive[c] and rng.random() < 0.5:
                lines.append("destroy %d" % c)
        return lines

    # ------------------------------------------------------------------ one case through both sides
    @staticmethod
    def flavour_of(lines, default="dbg"):
        for l in lines:
            w = l.split()
            if len(w) == 2 and w[0] == "flavour":
                return w[1]
        return default

    def exe(self, ctx, flavour):
        return ctx.exe("rpc_drv", flavour, with_pb=True, extra_protos=("rpc_test.proto",), cxxflags="-fno-access-control")

    def evaluate(self, ctx, lines, with_model=True):
        fl = self.flavour_of(lines)
        case = Case("rpc", lines)
        impl, err = ctx.run_impl(self.exe(ctx, fl), case, timeout=120)
        ops = [l for l in lines if l.strip()]
        fails = Spec(fl).run(ops, impl)
        mismatch = None
        if with_model and ctx.model_ok and not fails:
            model = ctx.run_model(case, impl, timeout=120)
            mismatch = ctx.compare(case, impl, model)
        elif with_model and ctx.model_ok:
            model = ctx.run_model(case, impl, timeout=120)
            mismatch = ctx.compare(case, impl, model)
        return impl, fails, mismatch

    def id_stress(self, ctx, flavour):
        """"Call ids on a channel are unique even when calls are issued from several threads": n threads issue k calls each on
        one channel at the same time (free-running, nothing answers), then the loop carries the frames to the raw peer.  Oracle
        only - the model takes the id fetch as one atomic step (`idFetch`, extracted); here the real threads run: every id read
        from the wire must be distinct and there must be one frame per call."""
        n, k = (6, 4000) if ctx.quick() else (8, 6000)       # (the harness tracks at most 65536 response objects per run)
        lines = ["flavour " + flavour, "chan 0 client", "idstress 0 %d %d" % (n, k)] + ["iter"] * 60
        case = Case("rpc", lines, "idstress:" + flavour)
        impl, _err = ctx.run_impl(self.exe(ctx, flavour), case, timeout=600)
        ids = []
        crashed = None
        for b in impl:
            for l in b:
                m = re.match(r"c0 sent id=(\d+)", l)
                if m:
                    ids.append(int(m.group(1)))
                if l.startswith("<<") or l in ("abort", "hang"):
                    crashed = l
        ctx.count("idstress-calls", n * k)
        ctx.extra.setdefault("idstress", []).append({"flavour": flavour, "threads": n, "calls_per_thread": k, "frames": len(ids),
                                                     "distinct_ids": len(set(ids))})
        ctx.record(case, impl[:3], nontrivial=True, sample={"origin": "idstress", "ops": lines[:3], "events": ["%d frames, %d distinct ids" % (len(ids), len(set(ids)))]})
        if crashed:
            ctx.oracle_failures.append((case, "crash", "idstress: %s" % crashed))
        elif len(set(ids)) != len(ids):
            dup = sorted(i for i in set(ids) if ids.count(i) > 1)[:5] if len(ids) < 200000 else []
            ctx.oracle_failures.append((case, "duplicate-id", "%d threads x %d concurrent calls on one channel: %d frames carry only %d "
                                        "distinct ids (e.g. %s): two calls share an id, the response to one completes the other "
                                        "and one of them never completes" % (n, k, len(ids), len(set(ids)), dup)))
        elif len(ids) != n * k:
            ctx.oracle_failures.append((case, "request-not-sent", "%d calls made, %d REQUEST frames reached the peer within 60 "
                                        "iterations" % (n * k, len(ids))))

    def header_len(self, lines):
        n = 0
        for l in lines:
            if l.startswith("flavour ") or l.startswith("chan "):
                n += 1
            else:
                break
        return n

    def run_case(self, ctx, lines, origin):
        impl, fails, mismatch = self.evaluate(ctx, lines)
        for l in lines:
            ctx.count("op:" + l.split()[0])
        flat = [l for b in impl for l in b]
        nontrivial = any(" done " in l or " reply " in l for l in flat)
        for l in flat:
            m = re.search(r"error=([A-Z_]+)", l)
            if m:
                ctx.count("reply:" + m.group(1))
            if " done " in l:
                ctx.count("closure-ran")
        born = set()
        for l in flat:
            m = re.match(r"c(\d+) chained (\d+) by (\d+)$", l)
            if m:
                ctx.count("chained-call")
                if (m.group(1), m.group(3)) in born:
                    ctx.count("chained-call-depth>=2")
                born.add((m.group(1), m.group(2)))
        ctx.record(Case("rpc", lines, origin), impl, nontrivial=nontrivial,
                   sample={"origin": origin, "ops": lines[:14], "events": [l for l in flat if not l.startswith("<")][:10]})
        if fails:
            kind = fails[0][0]
            known = any(k["property"] == self.id and k["signature"] == kind for k in self.known.get("findings", []))
            if known and kind in self.reported_known:
                ctx.count("known-finding-hit")
                return
            hl = self.header_len(lines)

            def still(ls):
                _, f, _ = self.evaluate(ctx, ls, with_model=False)
                return bool(f) and f[0][0] == kind
            small = ddmin(lines, still, keep_prefix=hl, budget=150) if still(lines) else lines
            _, f, _ = self.evaluate(ctx, small, with_model=False)
            ctx.oracle_failures.append((Case("rpc", small, origin), kind, (f or fails)[0][1]))
            if known:
                self.reported_known.add(kind)
                ctx.count("known-finding-hit")
            else:
                self.new_failures += 1
        elif mismatch:
            hl = self.header_len(lines)

            def still(ls):
                _, f, mm = self.evaluate(ctx, ls)
                return (not f) and mm is not None
            small = ddmin(lines, still, keep_prefix=hl, budget=100) if still(lines) else lines
            _, _, mm = self.evaluate(ctx, small)
            ctx.mismatches.append((Case("rpc", small, origin), mm or mismatch))

    def stop(self, ctx):
        # (when an obligation or a tie broke the model is no reference: disagreements with it do not end the search early)
        return self.new_failures >= 1 or len(ctx.mismatches) >= (24 if ctx.search_mode else 2)

    @staticmethod
    def read_case(path):
        with open(path) as f:
            return [l.rstrip("\n") for l in f if l.strip() and not l.startswith("#") and not l.startswith("engine=")]

    def correspondence(self, ctx, replay=None):
        self.known = load_known()
        self.reported_known = set()
        self.new_failures = 0
        if replay:
            lines = self.read_case(replay)
            if any(l.startswith("idstress ") for l in lines):
                self.id_stress(ctx, self.flavour_of(lines, "ndebug"))
                for c, k, d in ctx.oracle_failures:
                    print("property violated on the implementation [%s]: %s" % (k, d))
                return
            impl, fails, mismatch = self.evaluate(ctx, lines)
            model = ctx.run_model(Case("rpc", lines), impl) if ctx.model_ok else []
            ops = [l for l in lines if l.strip()]
            for i, op in enumerate(ops):
                print("%-40s impl : %s" % (op, ctx.observable(impl[i]) if i < len(impl) else "-"))
                if i < len(model) and i < len(impl) and ctx.observable(model[i]) != ctx.observable(impl[i]):
                    print("%-40s model: %s" % ("", ctx.observable(model[i])))
            for k, d in fails:
                print("property violated on the implementation [%s]: %s" % (k, d))
            if mismatch:
                print("model and implementation differ: " + mismatch)
            self.run_case(ctx, lines, "replay")
            return
        flavours = ["dbg", "ndebug"] if ctx.quick() else ["dbg", "ndebug", "asan", "asan-ndebug", "tsan"]
        ctx.extra["flavours"] = flavours
        if ctx.search_mode:
            self.id_stress(ctx, "ndebug")       # oracle only: before anything that is compared with the model
            if ctx.oracle_failures:
                return
        # corpus first: the cases carry their own flavour line; a case without one runs in every flavour
        for p in sorted(glob.glob(os.path.join(CORPUS, "C19", "*.case"))):
            lines = self.read_case(p)
            own = [l for l in lines if l.startswith("flavour ")]
            for fl in ([own[0].split()[1]] if own else flavours):
                if fl not in flavours and own:
                    fl = {"asan": "dbg", "tsan": "dbg", "asan-ndebug": "ndebug"}.get(fl, fl)
                ls = lines if own else ["flavour " + fl] + lines
                self.run_case(ctx, ls, "corpus:" + os.path.basename(p))
                ctx.count("corpus_cases")
        if self.stop(ctx):
            return
        if not ctx.search_mode:
            self.id_stress(ctx, "ndebug")
        if self.stop(ctx) or ctx.oracle_failures:
            return
        per = {"dbg": 260, "ndebug": 200} if ctx.quick() else {"dbg": 1500, "ndebug": 1500, "asan": 600, "asan-ndebug": 600, "tsan": 250}
        if ctx.search_mode:
            per = dict((k, max(v, 1200)) for k, v in per.items())
        for fl in flavours:
            for i in range(per[fl]):
                maxlen = 60 if i % 8 == 0 else 25
                if fl == "tsan":
                    maxlen = 30
                self.run_case(ctx, self.random_case(ctx.rng, fl, maxlen), "random:" + fl)
                if self.stop(ctx):
                    return


PROP = Prop()
