"""C20 — calendar, time-zone and address conversions.

Theorems: Props/C20.lean over the generated calendar functions (Generated/Calendar.lean) and the zone
look-ups (Model/Zone.lean over Generated/Zone.lean).  Correspondence: harness/calendar_drv.cc (the real
Date / TimeZone / Timestamp / InetAddress / Endian functions) against lean/Driver/CalendarDrv.lean on
the same lines; the Lean side parses the same TZif bytes.  Oracle (this file, independent of the model):
Python's own calendar arithmetic, an independent TZif parser + the *specification* of zone conversion
(set of instants with a given local time), Python's socket/ipaddress/int.to_bytes; glibc's answers
printed by the harness (`# glibc ...`) are compared as a third party (test oracle, not proof).
"""
import datetime
import glob
import hashlib
import ipaddress
import os
import struct
from bisect import bisect_right

from ..common import CORPUS
from ..runner import Case

ZONEINFO = "/usr/share/zoneinfo"
MASK = (1 << 64) - 1
JDN_1900 = 2415021          # 1900-01-01
JDN_2501 = 2634532          # 2501-01-01 (exclusive end of 1900-01-01..2500-12-31)
JDN_EPOCH = 2440588
T_MIN = (-32044 - JDN_EPOCH) * 86400   # -4800-03-01 00:00:00, the start of the proved range


# ----------------------------------------------------------------------------- independent arithmetic
def days_from_civil(y, m, d):
    """days since 1970-01-01 of a proleptic Gregorian date (era-based algorithm, not the one in Date.cc)"""
    y -= m <= 2
    era = y // 400
    yoe = y - era * 400
    doy = (153 * (m + (-3 if m > 2 else 9)) + 2) // 5 + d - 1
    doe = yoe * 365 + yoe // 4 - yoe // 100 + doy
    return era * 146097 + doe - 719468


def civil_from_days(z):
    z += 719468
    era = z // 146097
    doe = z - era * 146097
    yoe = (doe - doe // 1460 + doe // 36524 - doe // 146096) // 365
    y = yoe + era * 400
    doy = doe - (365 * yoe + yoe // 4 - yoe // 100)
    mp = (5 * doy + 2) // 153
    d = doy - (153 * mp + 2) // 5 + 1
    m = mp + (3 if mp < 10 else -9)
    return (y + (m <= 2), m, d)


def py_ymd(j):
    """(y, m, d, weekday 0=Sunday) of a Julian day number; Python's datetime where it reaches (years 1..9999)"""
    o = j - 1721425
    if 1 <= o <= 3652059:
        dt = datetime.date.fromordinal(o)
        return dt.year, dt.month, dt.day, dt.isoweekday() % 7
    y, m, d = civil_from_days(j - JDN_EPOCH)
    return y, m, d, (j + 1) % 7


def tdiv(a, b):
    q = abs(a) // abs(b)
    return q if (a < 0) == (b < 0) else -q


def tmod(a, b):
    return a - b * tdiv(a, b)


def mix(h, v):
    return (h * 1099511628211 + (v & MASK)) & MASK


def days_digest(j0, j1):
    h = 14695981039346656037
    for j in range(j0, j1):
        y, m, d, wd = py_ymd(j)
        for v in (j, y, m, d, wd, days_from_civil(y, m, d) + JDN_EPOCH):
            h = mix(h, v)
    return h


def break_py(t):
    days, s = divmod(t, 86400)
    y, m, d = civil_from_days(days)
    return (y, m, d, s // 3600, s % 3600 // 60, s % 60)


# ----------------------------------------------------------------------------- independent TZif parser
class Tz:
    """transitions and types of one TZif file by RFC 8536; `which` says which block muduo's reader takes
    (the 64-bit block only when the version byte is exactly '2', else the 32-bit block)"""

    def __init__(self, b):
        self.ok = False
        if b[:4] != b"TZif" or len(b) < 44:
            return
        self.version = b[4:5]
        blk1 = self._block(b, 0, 4)
        if blk1 is None:
            return
        self.blocks = {"v1": blk1}
        if self.version >= b"2":
            blk2 = self._block(b, blk1["end"], 8)
            if blk2 is None:
                return
            self.blocks["v2"] = blk2
        use = self.blocks["v2"] if self.version == b"2" else blk1
        self.which = "64-bit" if self.version == b"2" else "32-bit"
        self.leap = use["leap"]
        self.u = use["u"]
        self.types = use["types"]
        self.idx = use["idx"]
        if any(i >= len(self.types) for i in self.idx):
            return
        self.o = [self.types[i][0] for i in self.idx]
        self.ok = self.leap == 0 and len(self.types) > 0

    @staticmethod
    def _block(b, off, tsz):
        if b[off:off + 4] != b"TZif" or len(b) < off + 44:
            return None
        isut, isstd, leap, timecnt, typecnt, charcnt = struct.unpack(">6l", b[off + 20:off + 44])
        p = off + 44
        need = timecnt * tsz + timecnt + 6 * typecnt + charcnt + leap * (tsz + 4) + isstd + isut
        if min(isut, isstd, leap, timecnt, typecnt, charcnt) < 0 or len(b) < p + need:
            return None
        u = list(struct.unpack(">%d%s" % (timecnt, "l" if tsz == 4 else "q"), b[p:p + timecnt * tsz]))
        p += timecnt * tsz
        idx = list(b[p:p + timecnt])
        p += timecnt
        types = [struct.unpack(">lBB", b[p + 6 * i:p + 6 * i + 6]) for i in range(typecnt)]
        return {"u": u, "idx": idx, "types": types, "leap": leap, "end": off + 44 + need}

    # -- specification of the conversions, straight from the table
    def era(self, t):
        """index of the last transition <= t, or -1"""
        return bisect_right(self.u, t) - 1

    def offset_at(self, t):
        k = self.era(t)
        return self.types[0][0] if k < 0 else self.o[k]

    def prev_offset(self, k):
        """offset in force before transition k (before the first one: the first local time type, as the code and glibc use it)"""
        return self.o[k - 1] if k > 0 else self.types[0][0]

    def instants_of_local(self, L):
        """all instants whose local time is L (sorted); the era before the first transition has the first type's offset"""
        res = set()
        n = len(self.u)
        if n == 0 or L - self.types[0][0] < self.u[0]:
            res.add(L - self.types[0][0])
        # a local time belongs to era j iff u[j] <= L - o[j] < u[j+1]; only eras near the bound can match
        c = bisect_right(self.u, L)
        for j in range(max(0, c - 4), min(n, c + 4)):
            t = L - self.o[j]
            if self.u[j] <= t and (j + 1 >= n or t < self.u[j + 1]):
                res.add(t)
        return sorted(res)

    def skipped_by(self, L):
        """the transition k whose forward jump skipped local time L, or None"""
        for k in range(0, len(self.u)):
            if self.u[k] + self.prev_offset(k) <= L < self.u[k] + self.o[k]:
                return k
        return None

    def wellformed(self):
        """the predicate `MuduoVerif.Zone.WF` (second clause; the first one is about the reader)"""
        def chg(i):
            return abs(self.o[i] - self.prev_offset(i))
        bad = [i for i in range(len(self.u) - 1) if not chg(i) + chg(i + 1) < self.u[i + 1] - self.u[i]]
        return not bad, bad


# ----------------------------------------------------------------------------- the zone-file reader: independent side
def tzif_read(b):
    """What a reader written from RFC 8536 obtains from the bytes `b`, with the two documented habits of muduo's reader:
    it takes the 64-bit block only when the version byte is exactly '2' (else the 32-bit block), and it does not need
    the bytes behind the designations of the block it takes (indicators and footer may be cut short or missing).
    -> ("ok", table) | ("invalid", why) | ("unknown", why: outside what the oracle judges).
    table: trans [(utc, shifted local, type)], types [(utoff, isdst 0/1, desigidx)], chars, footer.
    Independent of the Lean model (struct + slices); used by the oracle on the implementation's own dump."""
    if len(b) < 44 or b[:4] != b"TZif":
        return ("invalid", "no TZif header")
    c1 = struct.unpack(">6l", b[20:44])
    if min(c1) < 0:
        return ("unknown", "negative counter in the first header")
    use64 = b[4:5] == b"2"
    if use64:
        isut, isstd, leap, timecnt, typecnt, charcnt = c1
        off = 44 + 4 * timecnt + timecnt + 6 * typecnt + charcnt + 8 * leap + isstd + isut
        if len(b) < off + 44 or b[off:off + 4] != b"TZif":
            return ("invalid", "no second header")
        cnt = struct.unpack(">6l", b[off + 20:off + 44])
        p, tsz = off + 44, 8
    else:
        cnt, p, tsz = c1, 44, 4
    if min(cnt) < 0:
        return ("unknown", "negative counter")
    isut, isstd, leap, timecnt, typecnt, charcnt = cnt
    if leap != 0:
        return ("invalid", "leap seconds")
    if charcnt == 0:
        return ("unknown", "charcnt = 0 (forbidden by RFC 8536; the reader declares `char buf[0]`, undefined)")
    if isut not in (0, typecnt) or isstd not in (0, typecnt):
        return ("invalid", "indicator counts")
    need = timecnt * tsz + timecnt + 6 * typecnt + charcnt
    if len(b) < p + need:
        return ("invalid", "data block cut short")
    u = list(struct.unpack(">%d%s" % (timecnt, "l" if tsz == 4 else "q"), b[p:p + timecnt * tsz]))
    p += timecnt * tsz
    idx = list(b[p:p + timecnt])
    p += timecnt
    types = [struct.unpack(">lBB", b[p + 6 * i:p + 6 * i + 6]) for i in range(typecnt)]
    p += 6 * typecnt
    if any(i >= typecnt for i in idx):
        return ("invalid", "type index out of range")
    chars = b[p:p + charcnt]
    p += charcnt
    footer = b[p + isstd + isut:] if use64 else b""
    return ("ok", {"trans": [(t, t + types[i][0], i) for t, i in zip(u, idx)],
                   "types": [(o, 1 if d else 0, a) for o, d, a in types], "chars": chars, "footer": footer,
                   "needed": p})


def tzif_block(times, idxs, types, chars=b"", isstd=b"", isut=b"", leaps=()):
    return {"times": list(times), "idxs": list(idxs), "types": list(types), "chars": bytes(chars), "isstd": bytes(isstd),
            "isut": bytes(isut), "leaps": list(leaps)}


def mk_tzif(version, b1, b2=None, footer=b"", counts1=None, counts2=None, magic2=b"TZif"):
    """RFC 8536 encoder (the Python twin of `TzFile.serialize`, plus leap records and forged counters for damaged files).
    `counts*`: override the six counters written (isut, isstd, leap, time, type, char)"""
    def enc(blk, tsz, counts):
        c = counts or (len(blk["isut"]), len(blk["isstd"]), len(blk["leaps"]), len(blk["times"]), len(blk["types"]), len(blk["chars"]))
        fmt = ">l" if tsz == 4 else ">q"
        body = b"".join(struct.pack(fmt, t) for t in blk["times"]) + bytes(blk["idxs"])
        body += b"".join(struct.pack(">lBB", o, d, a) for o, d, a in blk["types"]) + blk["chars"]
        body += b"".join(struct.pack(fmt, t) + struct.pack(">l", c_) for t, c_ in blk["leaps"]) + blk["isstd"] + blk["isut"]
        return struct.pack(">6l", *c), body
    c, body = enc(b1, 4, counts1)
    out = b"TZif" + version + b"\0" * 15 + c + body
    if b2 is not None:
        c, body = enc(b2, 8, counts2)
        out += magic2 + version + b"\0" * 15 + c + body + footer
    return out


def zone_files():
    """every distinct TZif file under /usr/share/zoneinfo: (without leap seconds, with leap seconds)"""
    seen, plain, leap = set(), [], []
    for root, dirs, files in os.walk(ZONEINFO):
        dirs.sort()
        for f in sorted(files):
            p = os.path.join(root, f)
            try:
                with open(p, "rb") as fh:
                    b = fh.read()
            except OSError:
                continue
            if b[:4] != b"TZif":
                continue
            h = hashlib.sha256(b).digest()
            if h in seen:
                continue
            seen.add(h)
            z = Tz(b)
            if getattr(z, "leap", 0):
                leap.append(p)
            else:
                plain.append(p)
    return plain, leap


QUICK_ZONES = ["Africa/Sao_Tome", "Africa/Tunis", "America/New_York", "America/Los_Angeles", "Europe/London", "Europe/Dublin",
               "Europe/Berlin", "Australia/Lord_Howe", "Australia/Sydney", "Asia/Kathmandu", "Asia/Kolkata", "Asia/Shanghai",
               "Asia/Tehran", "Asia/Gaza", "Pacific/Apia", "Pacific/Kiritimati", "Pacific/Chatham", "America/Godthab",
               "America/St_Johns", "America/Caracas", "America/Sao_Paulo", "Africa/Casablanca", "Africa/Freetown",
               "Africa/Monrovia", "Antarctica/Troll", "Chile/Continental", "Israel", "Etc/GMT+5", "EST", "UTC"]


# ----------------------------------------------------------------------------- the oracle
def fields(line):
    return line.split()


def unq(s):
    """the |...| quoted parts of a line"""
    parts = s.split("|")
    return parts[1::2]


class Prop:
    id = "C20"
    lean_module = "MuduoVerif.Props.C20"
    gen_engines = ["Calendar", "Zone", "SysSkel", "TzFileSkel", "TsText"]
    drivers = ["calendar"]
    technique = ("Lean 4 theorems over the calendar functions translated from /repo's AST (400-year periodicity + one full cycle by "
                 "kernel evaluation) and over the zone look-ups built from extracted guards (binary-search correctness + case analysis "
                 "under a decidable well-formedness of the zone data) + differential run of the real Date/TimeZone/Timestamp/InetAddress/"
                 "Endian code against the Lean driver on every day 1900..2500 and every TZif file, with Python and glibc as oracles; the zone-FILE "
                 "READER (File::readInt32/64/UInt8/readBytes/skip, readDataBlock, readTimeZoneFile, addLocalTime/addTransition) is a Lean "
                 "function over the bytes whose widths, signedness, lengths, tests, reader choices and skips are extracted from the AST "
                 "(Generated/TzFileSkel.lean) and whose statement order is tied by skeleton equality; theorems against an independent "
                 "RFC 8536 encoder; the loaded table is dumped entry by entry and compared with the model and with a Python RFC 8536 reader")
    level_text = ("Kernel-checked theorems for ALL inputs: day number <-> civil date round trips for every date from -4800-03-01 on, "
                  "successor/monotonicity/weekday, BreakTime = proleptic Gregorian day counting and fromUtcTime(BreakTime t) = t; the UTC "
                  "zone look-up returns the record of the last transition <= t; fromLocalTime(toLocalTime t) = t on the right side of a "
                  "repeated period (including the ones of the LAST and of the FIRST transition, and for instants before the first "
                  "transition), the other side gives the other instant, skipped local "
                  "times resolve by the requested side - for every zone table satisfying the decidable predicate WF, which the check "
                  "evaluates on every zone file present; the zone-file reader inverts the RFC 8536 encoder for every well-formed zone "
                  "description (any number of transitions/types, signed 32/64-bit times, with or without the second block, any version "
                  "byte), sign-extends transition times, never needs a byte beyond the designations of the block it takes, refuses every "
                  "prefix that cuts into that part and reads the same table from any longer file, and every table it loads satisfies the "
                  "first clause of WF; Timestamp::toString / toFormattedString (formats extracted from the source) read back to the instant "
                  "they were printed from; IPv4 text and big-endian helpers round-trip for all values. The integer "
                  "functions, every guard of the look-ups and every parameter + the statement skeletons of the reader are re-translated "
                  "from /repo on every run; search loop and branch structure of the look-ups are tied by the differential run; agreement "
                  "with glibc is tested, not proved")
    level_note = ("Trusted: Lean kernel, vlib/extract.py + vlib/gen/{calendar,zone,tzfileskel}.py, the hand-written parts of Model/Zone.lean "
                  "(libstdc++ search loops, branch order of findLocalTime), the control structure of Model/TzFile.lean (tied by skeleton "
                  "equality + the table dump) and Model/Inet.lean (glibc inet_ntop/inet_pton "
                  "IPv4 rules) as far as the differential run exercises them; integer widths are not modelled.")
    rule = ("calendar: every day 1900-01-01..2500-12-31 by range digests (3-way: code, model, Python datetime) + individual days "
            "(thorough: every day; quick: stride + month/leap/century boundaries) + random days of the int range; instants: boundary "
            "values and random seconds in +-2^35, dense in 1970..2037. zones: every distinct TZif file without leap seconds under "
            "/usr/share/zoneinfo (quick: ~40, fixed list + seed-chosen), probes at every transition +-3 s, at both edges of every "
            "repeated/skipped period +-2 s, on a grid 1970..2037 and beyond the last transition, fromLocalTime of skipped local times; "
            "damaged/truncated files; leap-second files (must be rejected). zone-file reader: the table loadZoneFile builds is dumped "
            "(transitions: utc, shifted local, type; types: utoff, isdst, desigidx; designations; footer; or the kind of failure) for "
            "EVERY platform file (+ leap-second files) and for synthesized files: 32-bit block only, second block, version bytes "
            "2/3/4/1/9/0/ff, no transitions, no types, times before 1901 / after 2038 / with the top bit set, 256 types x 300 "
            "transitions, indicator bytes, isdst bytes other than 0/1, leap records in the first block only, random blocks; damaged: "
            "leap seconds, indicator counts, type index out of range, negative / oversized counters in either header, damaged magic "
            "(each byte, both headers); EVERY truncation point of two platform files and two synthesized ones. inet: boundary-dense addresses x ports, malformed texts, "
            "IPv6 textual compressions, byte-order boundary values. non-trivial = the case has at least one accepted conversion; "
            "distinct = distinct result traces")
    trusted_base = [
        "Lean 4.33.0 kernel; axioms allowed: propext, Classical.choice, Quot.sound",
        "vlib/extract.py with vlib/gen/calendar.py (getJulianDayNumber, getYearMonthDay, weekDay, fillHMS, BreakTime, fromUtcTime, the "
        "constants) and vlib/gen/zone.py (both comparators, the choice of std::upper_bound and its arguments, every guard and the "
        "prior_second / shifted-epoch / offset arithmetic of the two findLocalTime overloads, toLocalTime, fromLocalTime)",
        "hand-written Model/Zone.lean: the loops of libstdc++ std::upper_bound/lower_bound, the "
        "order of the tests in findLocalTime and the record each branch returns - tied by the differential run over all zone files",
        "vlib/gen/tzfileskel.py (clang-14 JSON AST -> Generated/TzFileSkel.lean): parameters of the zone-file reader (bytes / byte swap / "
        "return type / exception text of File::readInt32, readInt64, readUInt8; readBytes; skip; magic, version test, lengths, reader + type "
        "+ order of the six counters, first-block size with every implicit conversion, skips, reader of a transition time and the "
        "conversions on its way into std::vector<int64_t>, ttinfo reads -> addLocalTime parameters) which Model/TzFile.lean calls, and the "
        "statement skeletons of the twelve functions of the reader (tzfile_reader_tied); hand-written: the control structure of "
        "Model/TzFile.lean (what fread/fseek/std::vector::reserve/at do: short read, seek beyond the end, negative seek, length_error, "
        "out_of_range), the reference encoder TzFile.serialize (RFC 8536), harness/calendar_drv.cc compiling /repo's TimeZone.cc itself "
        "to read TimeZone::Data through the friend TimeZoneTestPeer, the Python RFC 8536 reader `tzif_read` of this plug-in",
        "hand-written Model/Inet.lean (glibc inet_ntop/inet_pton for AF_INET, snprintf %u, bswap), what `%[0][width]d` prints "
        "(Calendar.fmtInt / renderGo) and the formats of Date::toIsoString / DateTime::toIsoString in Model/Calendar.lean - tied by the "
        "differential run; vlib/gen/tstext.py (Timestamp::toString / toFormattedString: the split of the microsecond count, the three "
        "snprintf formats, buffers, arguments, the gmtime_r call, the showMicroseconds test -> Generated/TsText.lean, which the model "
        "renders: timestamp_text_tied)",
        "vlib/gen/sysskel.py (clang-14 JSON AST -> Generated/SysSkel.lean: statement skeletons of every function of SocketsOps.cc, Socket.cc/.h, InetAddress.cc/.h, Endian.h, Poller.cc, poller/DefaultPoller.cc, the poller constructors/destructors, Channel::tie, createEventfd, createTimerfd; what it leaves out is listed in the generated header) and the reading Model/SysSkelDecl.lean of what the "
        "models assume of each primitive (one system call, arguments passed through, result returned unchanged, failures only logged - or exactly the declared extra work); C20 depends on inet_text_conversions_tied (InetAddress::toIpPort/toIp/port, the constructors, sockets::toIpPort/toIp/fromIpPort, the six Endian.h helpers): the code delegates to inet_ntop/inet_pton/snprintf/__bswap_* as Model/Inet.lean assumes; WHAT those compute stays the hand-written model, tied by the differential run; still trusted: the kernel's / glibc's behaviour behind each system call",
        "compiled evaluation of the decidable predicate WF by the Lean driver on each zone file (cross-checked by the Python parser)",
        "glibc (gmtime_r, timegm, localtime_r under TZ=:<file>, strftime, inet_ntop, inet_pton, htobe*) and Python (datetime, socket, "
        "ipaddress) in the role of TEST ORACLES only",
    ]
    assumptions = [
        "no intermediate leaves `int`: |4*(day number+32044)+3| < 2^31 (years up to about +-1.4 million); the theorems are over unbounded integers",
        "zone theorems hold for tables satisfying WF (first clause: what addTransition stores - holds for every table the reader loads: theorem tzfile_table_wf; second: the gap "
        "between consecutive transitions exceeds the two adjacent offset changes together); evaluated on every file, violations are listed in the evidence",
        "before a table's first transition the first local time type (localtimes.front()) is in force - an era like the others: the "
        "first transition repeats / skips local times too (zone_roundtrip with k = 0, zone_roundtrip_before, zone_skipped_first; the "
        "gap rule of WF counts the first transition's offset change); after the last one the code uses the last record (FIXME in "
        "TimeZone.cc); agreement with glibc's localtime_r is claimed and tested only between first and last transition (glibc cannot be "
        "asked for a side of a repeated period: both copies have isdst = 0)",
        "IPv6 text is glibc's: only muduo's `[..]:port` wrapper is modelled; the compressions are tested to round-trip, not proved",
        "version-3 TZif files (7 on this image) are read through their 32-bit block because the reader tests version == \"2\" "
        "(ZoneDesc.selected in the theorems, `tzif_read` in the oracle say the same)",
        "zone-file reader: counters below 2^27 in the theorems (the code multiplies them in `int`; overflow is undefined), charcnt "
        "<= 0 (`char buf[n]` needs a positive size; RFC 8536 forbids charcnt = 0; g++'s sanitizer stops there) and allocation failure of `reserve` for huge positive counters are outside the model; "
        "a file with typecnt = 0 and timecnt = 0 loads as a valid zone without any local time type (every conversion on it reads "
        "localtimes.front() of an empty vector): RFC 8536 forbids such files, the check only dumps them",
    ]
    partial_theorems = []

    def signature(self, case, kind, desc):
        return kind

    # ------------------------------------------------------------------ zone table cache (independent parser)
    def __init__(self):
        self.tz_cache = {}
        self.rfc_cache = {}
        self.tables_compared = 0

    def tz(self, path=None, data=None):
        key = path or hashlib.sha256(data).hexdigest()
        if key not in self.tz_cache:
            if data is None:
                try:
                    with open(path, "rb") as f:
                        data = f.read()
                except OSError:
                    data = b""
            self.tz_cache[key] = Tz(data)
        return self.tz_cache[key]

    # ------------------------------------------------------------------ the loaded table against the RFC 8536 reader
    def file_bytes(self, path):
        try:
            with open(path, "rb") as f:
                return f.read()
        except OSError:
            return b""

    def table_check(self, raw, obs):
        """obs: the implementation's block of a `zone` / `zonebytes` line (`zone ok`, `tab ..`, `tr ..`, `lt ..`, `abbr`, `tz`
        or `zone invalid`, `err ..`).  -> None | (kind, text)"""
        key = hashlib.sha256(raw).digest()
        if key not in self.rfc_cache:
            self.rfc_cache[key] = tzif_read(raw)
        verdict, tab = self.rfc_cache[key]
        if verdict == "unknown":
            return None
        ok = obs[0] == "zone ok"
        if ok != (verdict == "ok"):
            return ("zone-load", "%s, the reader written from RFC 8536 says %s%s" % (
                obs[0], verdict, "" if verdict == "ok" else " (%s)" % tab))
        if not ok:
            return None
        tr, lt, abbr, tzs, head = [], [], None, None, None
        for l in obs[1:]:
            f = l.split()
            if f[0] == "tab":
                head = (int(f[2]), int(f[4]))
            elif f[0] == "tr":
                tr.append((int(f[2]), int(f[3]), int(f[4])))
            elif f[0] == "lt":
                lt.append((int(f[2]), int(f[3]), int(f[4])))
            elif f[0] == "abbr":
                abbr = bytes.fromhex(unq(l)[0])
            elif f[0] == "tz":
                tzs = bytes.fromhex(unq(l)[0])
        if head != (len(tab["trans"]), len(tab["types"])) or head != (len(tr), len(lt)):
            return ("zone-table", "table has %s transitions/types (%d/%d lines), the file describes %d/%d" % (
                head, len(tr), len(lt), len(tab["trans"]), len(tab["types"])))
        for k, (got, exp) in enumerate(zip(tr, tab["trans"])):
            if got != exp:
                return ("zone-table", "transition %d is (utc %d, shifted %d, type %d), the file says (utc %d, shifted %d, type %d)" % ((k,) + got + exp))
        for k, (got, exp) in enumerate(zip(lt, tab["types"])):
            if got != exp:
                return ("zone-table", "local time type %d is (utoff %d, isdst %d, desigidx %d), the file says (%d, %d, %d)" % ((k,) + got + exp))
        if abbr != tab["chars"]:
            return ("zone-table", "designations %r, the file says %r" % (abbr, tab["chars"]))
        if tzs != tab["footer"]:
            return ("zone-table", "footer %r, the file says %r" % (tzs, tab["footer"]))
        self.tables_compared += 1
        return None

    # ------------------------------------------------------------------ oracle on the implementation's own output
    def oracle(self, ops, blocks):
        """returns [(step, kind, description)]; never looks at the model"""
        fails = []
        zone = None       # Tz of the loaded zone (or ("fixed", off)), None if none/invalid
        zone_path = None

        def fail(i, kind, msg):
            fails.append((i, kind, "step %d `%s`: %s" % (i, ops[i][:80], msg)))

        for i, op in enumerate(ops):
            if i >= len(blocks):
                fail(i, "trace", "no output")
                break
            blk = blocks[i]
            crash = [l for l in blk if l.startswith("<<")]
            if crash:
                fail(i, "crash", crash[0])
                break
            obs = [l for l in blk if not l.startswith("<") and not l.startswith("#")]
            gl = [l[8:] for l in blk if l.startswith("# glibc ")]
            w = op.split()
            name = w[0]
            if not obs:
                fail(i, "trace", "empty block")
                continue
            res = obs[0]
            if res == "bad-op":
                fail(i, "trace", "the harness did not understand the line")
                continue
            r = res.split()
            if name == "jdn":
                y, m, d = int(w[1]), int(w[2]), int(w[3])
                j = days_from_civil(y, m, d) + JDN_EPOCH
                if 1 <= y <= 9999:
                    dt = datetime.date(y, m, d)
                    if dt.toordinal() + 1721425 != j:
                        fail(i, "oracle-self", "the two Python day counts differ")
                # weekDay() is specified for valid dates only (day number > 0; C's % truncates below)
                if int(r[1]) != j or (j >= 0 and int(r[3]) != (j + 1) % 7):
                    fail(i, "jdn", "Date(%d,%d,%d): day number %s weekday %s, calendar says %d and %d" % (y, m, d, r[1], r[3], j, (j + 1) % 7))
                elif gl and 1902 <= y <= 2500 and gl[0].split() != [str(j), str((j + 1) % 7)]:
                    fail(i, "glibc-jdn", "timegm gives %s, muduo %s" % (gl[0], res))
            elif name == "ymd":
                j = int(w[1])
                y, m, d, wd = py_ymd(j)
                iso = "%4d-%02d-%02d" % (y, m, d)
                got = (int(r[1]), int(r[2]), int(r[3]), int(r[5]))
                if j < 0:
                    got = got[:3] + (wd,)
                if got != (y, m, d, wd) or unq(res) != [iso]:
                    fail(i, "ymd", "Date(%d): %s, calendar says %s %s" % (j, res, (y, m, d, wd), iso))
                elif gl and [int(x) for x in gl[0].split()] != [y, m, d, wd]:
                    fail(i, "glibc-ymd", "gmtime_r gives %s, muduo %s" % (gl[0], res))
            elif name == "days":
                j0, j1 = int(w[1]), int(w[2])
                if int(r[1]) != j1 - j0 or int(r[2]) != days_digest(j0, j1):
                    # locate the first wrong day for the report (individual `ymd`/`jdn` lines are the replay)
                    fail(i, "days", "digest of days %d..%d differs from Python's calendar" % (j0, j1))
            elif name == "break":
                t = int(w[1])
                exp = break_py(t)
                got = tuple(int(x) for x in r[1:7])
                iso = "%04d-%02d-%02d %02d:%02d:%02d" % exp
                if got != exp or int(r[8]) != t or unq(res) != [iso]:
                    fail(i, "break", "toUtcTime(%d) = %s, expected %s back %d `%s`" % (t, res, exp, t, iso))
                elif gl and tuple(int(x) for x in gl[0].split()) != exp:
                    fail(i, "glibc-break", "gmtime_r gives %s, muduo %s" % (gl[0], res))
            elif name == "unbreak":
                y, mo, d, h, mi, s = [int(x) for x in w[1:7]]
                exp = days_from_civil(y, mo, d) * 86400 + h * 3600 + mi * 60 + s
                if int(r[1]) != exp:
                    fail(i, "unbreak", "fromUtcTime = %s, expected %d" % (r[1], exp))
                elif gl and int(gl[0]) != exp:
                    fail(i, "glibc-unbreak", "timegm gives %s, muduo %s" % (gl[0], r[1]))
            elif name == "ts":
                us = int(w[1])
                sec, mic = tdiv(us, 1000000), tmod(us, 1000000)
                b = break_py(sec)
                base = "%4d%02d%02d %02d:%02d:%02d" % b
                exp = ["%d.%06d" % (sec, mic), base + ".%06d" % mic, base]
                if unq(res) != exp:
                    fail(i, "timestamp-text", "Timestamp(%d): %s, expected %s" % (us, unq(res), exp))
                elif gl and 1000 <= b[0] <= 9999 and unq("x" + gl[0]) != [base]:
                    fail(i, "glibc-strftime", "strftime gives %s, muduo `%s`" % (gl[0], base))
            elif name in ("zone", "zonebytes", "fixedzone"):
                zone, zone_path = None, None
                if name == "fixedzone":
                    zone = ("fixed", int(w[1]))
                    continue
                if name == "zone":
                    z = self.tz(path=w[1])
                    zone_path = w[1]
                else:
                    z = self.tz(data=bytes.fromhex(w[1] if len(w) > 1 else ""))
                if res == "zone unreadable":
                    continue
                # the table loadZoneFile built (dumped entry by entry) against the reader written from RFC 8536
                raw = self.file_bytes(w[1]) if name == "zone" else bytes.fromhex(w[1] if len(w) > 1 else "")
                bad = self.table_check(raw, obs)
                if bad:
                    fail(i, bad[0], "loadZoneFile(%s): %s" % (w[1] if name == "zone" else "%d bytes" % len(raw), bad[1]))
                if (res == "zone ok") != z.ok and name == "zone":
                    fail(i, "zone-load", "loadZoneFile: %s, the independent parser says %s" % (res, "valid" if z.ok else "not loadable (leap seconds / damaged)"))
                if res == "zone ok" and z.ok:
                    zone = z
                elif res == "zone ok":
                    zone = "unknown"
            elif name == "probe":
                if zone is None:
                    if res != "nozone":
                        fail(i, "zone-load", "conversion without a valid zone answered %s" % res)
                    continue
                if zone == "unknown" or res == "nozone":
                    continue
                t = int(w[1])
                got_lt = tuple(int(x) for x in r[1:7])
                off, f0, f1 = int(r[8]), int(r[10]), int(r[12])
                if isinstance(zone, tuple):
                    eo = zone[1]
                    if off != eo or got_lt != break_py(t + eo) or f0 != t or f1 != t:
                        fail(i, "zone-fixed", "fixed offset %d: %s" % (eo, res))
                    continue
                z = zone
                if not z.u:
                    # no transitions: the first record
                    eo = z.types[0][0]
                    if off != eo or got_lt != break_py(t + eo):
                        fail(i, "zone-lookup", "zone without transitions: %s, first record has offset %d" % (res, eo))
                    elif f0 != t or f1 != t:
                        fail(i, "zone-roundtrip", "zone without transitions: fromLocalTime(toLocalTime(%d)) = %d / %d" % (t, f0, f1))
                    continue
                # before the first transition the first local time type is in force (what the code and glibc do): an era like
                # the others - the first transition, too, repeats or skips local times
                eo = z.offset_at(t)
                if off != eo or got_lt != break_py(t + eo):
                    fail(i, "zone-lookup", "toLocalTime(%d) = %s, the table says offset %d local %s" % (t, res, eo, break_py(t + eo)))
                    continue
                S = z.instants_of_local(t + eo)
                if t not in S:
                    fail(i, "oracle-self", "specification does not contain t")
                    continue
                if len(S) > 2:
                    continue   # local time occurs three times: outside the property (WF excludes it)
                exp0, exp1 = S[0], S[-1]
                if (f0, f1) != (exp0, exp1):
                    side = "repeated period, t is the %s instant" % ("earlier" if t == S[0] else "later") if len(S) == 2 else "unambiguous local time"
                    last = " (period repeated by the LAST transition)" if z.era(t) == len(z.u) - 1 or z.era(S[-1]) == len(z.u) - 1 else ""
                    if len(S) == 2 and z.era(S[0]) == -1:
                        last = " (period repeated by the FIRST transition)"
                    fails.append((i, "zone-roundtrip-first" if "FIRST" in last else "zone-roundtrip-last" if last and len(S) == 2 else "zone-roundtrip",
                                  "step %d `%s` in %s: %s%s: fromLocalTime(toLocalTime(t), false/true) = %d / %d, expected %d / %d" % (
                                      i, ops[i], zone_path, side, last, f0, f1, exp0, exp1)))
                    continue
                if gl and z.u[0] <= t <= z.u[-1] + 3:
                    g = [int(x) for x in gl[0].split()]
                    if tuple(g[:6]) != got_lt or g[6] != off:
                        fail(i, "glibc-localtime", "localtime_r under TZ=:%s gives %s, muduo %s" % (zone_path, gl[0], res))
            elif name == "fromlocal":
                if zone is None or zone == "unknown" or isinstance(zone, tuple) or res == "nozone":
                    continue
                y, mo, d, h, mi, s = [int(x) for x in w[1:7]]
                L = days_from_civil(y, mo, d) * 86400 + h * 3600 + mi * 60 + s
                f0, f1 = int(r[1]), int(r[2])
                z = zone
                if not z.u:
                    continue
                S = z.instants_of_local(L)
                if len(S) == 0:
                    k = z.skipped_by(L)
                    if k is None:
                        continue
                    exp = (L - z.prev_offset(k), L - z.o[k])
                    what = "skipped local time (transition %d)" % k
                elif len(S) <= 2:
                    exp = (S[0], S[-1])
                    what = "repeated local time" if len(S) == 2 else "unambiguous local time"
                else:
                    continue
                if (f0, f1) != exp:
                    fail(i, "zone-fromlocal-first" if (len(S) == 0 and k == 0) or (len(S) == 2 and z.era(S[0]) == -1) else "zone-fromlocal", "%s in %s: fromLocalTime(false/true) = %d / %d, expected %d / %d" % (what, zone_path, f0, f1, exp[0], exp[1]))
            elif name == "ip4":
                a, p = int(w[1]) % (1 << 32), int(w[2]) % (1 << 16)
                text = str(ipaddress.IPv4Address(a))
                q = unq(res)
                tail = res.split("|")[-1].split()
                exp_tail = ["port", str(p), "back", str(a), str(p), "net", str(a), str(p)]
                if q != [text, "%s:%d" % (text, p)] or tail != exp_tail:
                    fail(i, "ipv4", "address %d port %d: %s, expected |%s| |%s:%d| %s" % (a, p, res, text, text, p, " ".join(exp_tail)))
                elif gl and (unq(gl[0]) != [text] or gl[0].split("|")[-1].split() != ["1", str(a)]):
                    fail(i, "glibc-inet", "inet_ntop/inet_pton give %s, muduo %s" % (gl[0], res))
            elif name == "parse4":
                text, p = w[1], int(w[2]) % (1 << 16)
                if ":" in text:
                    continue
                parts = text.split(".")
                ok = len(parts) == 4 and all(x.isascii() and x.isdigit() and len(x) <= 3 and (x == "0" or x[0] != "0") and int(x) <= 255 for x in parts)
                a = int(ipaddress.IPv4Address(text)) if ok else 0
                exp = "parse %d %d |%s:%d|" % (a, p, ipaddress.IPv4Address(a), p)
                if res != exp:
                    fail(i, "ipv4-parse", "`%s`: %s, expected %s" % (text, res, exp))
                elif gl and gl[0].split() != [("1" if ok else "0"), str(a)]:
                    fail(i, "glibc-inet", "inet_pton(`%s`) gives %s, strict dotted-quad rule says %s %d" % (text, gl[0], int(ok), a))
            elif name == "ip6":
                text, p = w[1], int(w[2]) % (1 << 16)
                q = unq(res)
                try:
                    want = ipaddress.IPv6Address(text)
                except ValueError:
                    want = ipaddress.IPv6Address(0)   # fromIpPort only logs; the address stays zero
                try:
                    got = ipaddress.IPv6Address(q[0])
                except ValueError:
                    got = None
                if got != want or q[1] != "[%s]:%d" % (q[0], p) or res.split("|")[-1].split() != ["port", str(p)]:
                    fail(i, "ipv6", "`%s` port %d: %s" % (text, p, res))
            elif name == "be":
                bits, x = int(w[1]), int(w[2]) % (1 << int(w[1]))
                nb = bits // 8
                be = x.to_bytes(nb, "big")
                n = int.from_bytes(be, "little")
                exp = "be %d %d mem %s" % (n, x, be.hex())
                if res != exp:
                    fail(i, "byte-order", "%d bits %d: %s, expected %s" % (bits, x, res, exp))
                elif gl and int(gl[0]) != n:
                    fail(i, "glibc-endian", "htobe%d gives %s, muduo %d" % (bits, gl[0], n))
            else:
                fail(i, "trace", "unknown operation")
        return fails

    # ------------------------------------------------------------------ generators
    def calendar_lines(self, ctx):
        rng = ctx.rng
        lines = []
        # every day of 1900-01-01 .. 2500-12-31, by digest
        for j in range(JDN_1900, JDN_2501, 4096):
            lines.append("days %d %d" % (j, min(j + 4096, JDN_2501)))
        if ctx.quick() and not ctx.search_mode:
            js = set(range(JDN_1900 + rng.randrange(97), JDN_2501, 97))
            for y in list(range(1900, 2501, 25)) + [1999, 2000, 2001, 2023, 2024, 2100, 2400]:
                for (m, d) in ((1, 1), (2, 28), (3, 1), (12, 31), (6, 30), (7, 1)):
                    j = days_from_civil(y, m, d) + JDN_EPOCH
                    js.update((j - 1, j, j + 1))
        else:
            js = set(range(JDN_1900, JDN_2501))
        # outside the window: the start of the proved range, year 0/1, far future, random
        extra = [-32044, -32043, 0, 1, 1721060, 1721425, 1721426, 2299160, 2299161, 2440587, 2440588, 5373484, 5373485,
                 100000000, 536000000]
        extra += [rng.randrange(-32044, 6000000) for _ in range(300)] + [rng.randrange(6000000, 536000000) for _ in range(50)]
        for j in sorted(js) + extra:
            lines.append("ymd %d" % j)
            y, m, d, _ = py_ymd(j)
            lines.append("jdn %d %d %d" % (y, m, d))
        ctx.extra["days_1900_2500"] = {"by_digest": JDN_2501 - JDN_1900, "individually": len(js), "outside_window": len(extra)}
        # instants
        ts = [0, -1, 1, 59, 60, 3599, 3600, 86399, 86400, 86401, -86399, -86400, -86401, 2 ** 31 - 1, 2 ** 31, -2 ** 31, -2 ** 31 - 1,
              951782400, 951868799, 951868800, 4107542399, 4107542400, 253402300799, 253402300800, -62135596800, -62135596801,
              -62167219200, T_MIN, T_MIN + 1, T_MIN + 86399, 2 ** 35, -2 ** 35, 32503680000, 16725225600]
        n = 400 if ctx.quick() and not ctx.search_mode else 20000
        ts += [rng.randrange(0, 2145916800) for _ in range(n)] + [rng.randrange(-2 ** 35, 2 ** 35) for _ in range(n // 2)]
        ts += [rng.randrange(T_MIN, 2 ** 42) for _ in range(n // 8)]
        step = (1 << 22) if ctx.quick() else (1 << 17)
        ts += list(range(rng.randrange(step), 2145916800, step))
        for t in ts:
            lines.append("break %d" % t)
        for t in ts[:len(ts) // 3]:
            b = break_py(t)
            lines.append("unbreak %d %d %d %d %d %d" % b)
            if abs(t) < 2 ** 36:
                for mic in (0, 1, 999999, rng.randrange(1000000)):
                    lines.append("ts %d" % (t * 1000000 + (mic if t >= 0 else -mic)))
        for us in (-1, -999999, -1000000, -1000001, 1, 999999, 1000000):
            lines.append("ts %d" % us)
        return lines

    def inet_lines(self, ctx):
        rng = ctx.rng
        lines = []
        octs = [0, 1, 9, 10, 99, 100, 127, 128, 199, 200, 249, 250, 255]
        ports = [0, 1, 9, 10, 99, 100, 255, 256, 999, 1000, 9999, 10000, 32767, 32768, 65534, 65535]
        addrs = [0, 1, 255, 256, 65535, 65536, 2 ** 24 - 1, 2 ** 24, 2 ** 31 - 1, 2 ** 31, 2 ** 32 - 1, 0x7f000001, 0xc0a80101, 0x01020304]
        for pos in range(4):
            for o in octs:
                addrs.append((o << (8 * pos)) | (rng.randrange(1 << 32) & ~(255 << (8 * pos))))
        n = 300 if ctx.quick() and not ctx.search_mode else 20000
        addrs += [rng.randrange(1 << 32) for _ in range(n)]
        addrs += [sum(rng.choice(octs) << (8 * k) for k in range(4)) for _ in range(n)]
        for k, a in enumerate(addrs):
            p = ports[k % len(ports)] if k % 3 else rng.randrange(1 << 16)
            lines.append("ip4 %d %d" % (a, p))
        for p in ports:
            lines.append("ip4 %d %d" % (rng.randrange(1 << 32), p))
        bad = ["1.2.3", "1.2.3.4.5", "1.2.3.", ".1.2.3", "1..2.3", "256.1.1.1", "1.256.1.1", "1.1.1.256", "01.2.3.4", "1.02.3.4", "1.2.3.04",
               "00.0.0.0", "0.0.0.0", "0.0.0.00", "1.2.3.4a", "a.b.c.d", "1.2.3.-4", "+1.2.3.4", "0x1.2.3.4", "1.2.3.0x4", "1e1.2.3.4", "1234.1.1.1",
               "999.999.999.999", "255.255.255.255", "1.2.3.4.", "1,2,3,4", "1.2.3.4/8", "127.1", "2130706433", "", "...", "1.2.3.4\\0",
               "192.168.001.1", "192.168.1.1", "300.1.1.1", "1.2.3.٤"]
        for t in bad:
            if t and " " not in t:
                lines.append("parse4 %s %d" % (t, rng.choice(ports)))
        for _ in range(n // 3):
            parts = [rng.choice(["0", "1", "00", "01", "9", "10", "99", "100", "255", "256", "260", "1000", "", "a", str(rng.randrange(256)), str(rng.randrange(256))])
                     for _ in range(rng.choice([3, 4, 4, 4, 4, 4, 5]))]
            lines.append("parse4 %s %d" % (".".join(parts) or "x", rng.randrange(1 << 16)))
        # IPv6 in all textual compressions
        v6 = ["::", "::1", "1::", "fe80::1", "2001:db8::8:800:200c:417a", "2001:0db8:0000:0000:0000:0000:0000:0001", "::ffff:1.2.3.4",
              "::1.2.3.4", "1:2:3:4:5:6:7:8", "1:0:0:2:0:0:0:3", "0:0:1::", "1::2:0:0:3", "FE80::ABCD", "ff02::1:ff00:0", "0:0:0:0:0:0:0:0",
              "1:0:0:0:0:0:0:0", "0:0:0:0:0:0:0:1", "1:2:3:4:5:6:7::", "::2:3:4:5:6:7:8", "1::3:4:5:6:7:8", "12345::1", "1:::2", "g::1", "1.2.3.4",
              "64:ff9b::192.0.2.33", "2001:db8:0:0:1:0:0:1", "2001:db8:0:1:1:1:1:1", "ffff:ffff:ffff:ffff:ffff:ffff:ffff:ffff"]
        for _ in range(60 if ctx.quick() else 2000):
            g = [rng.choice([0, 0, 0, 1, 0xffff, rng.randrange(1 << 16)]) for _ in range(8)]
            full = ["%x" % x for x in g]
            forms = [":".join(full), ":".join("%04X" % x for x in g), str(ipaddress.IPv6Address(":".join(full)))]
            # compress some other zero run
            runs = [k for k in range(8) if g[k] == 0]
            if runs:
                k = rng.choice(runs)
                e = k
                while e + 1 < 8 and g[e + 1] == 0 and rng.random() < 0.7:
                    e += 1
                forms.append(":".join(full[:k]) + "::" + ":".join(full[e + 1:]))
            v6 += forms
        for t in v6:
            lines.append("ip6 %s %d" % (t, rng.choice(ports)))
            if rng.random() < 0.3:
                # the same address with a scope id (link-local peers, setScopeId): the text forms must not change
                lines.append("ip6 %s %d %d" % (t, rng.choice(ports), rng.choice([1, 2, 3, 7, 65535, 4294967295])))
        for bits in (16, 32, 64):
            vals = [0, 1, 255, 256, 0x0102, 0x01020304, 0x0102030405060708, (1 << bits) - 1, 1 << (bits - 1), (1 << (bits - 1)) - 1, 0xff00, 0x00ff]
            vals += [rng.randrange(1 << bits) for _ in range(n // 4)] + [1 << k for k in range(bits)]
            for v in vals:
                lines.append("be %d %d" % (bits, v % (1 << bits)))
        return lines

    def zone_probe_lines(self, ctx, path, z, grid_step):
        rng = ctx.rng
        lines = ["zone " + path]
        if not z.ok:
            lines.append("probe 0")
            return lines
        ts = set()
        n = len(z.u)
        for k in range(n):
            u = z.u[k]
            for dlt in range(-3, 4):
                ts.add(u + dlt)
            ch = abs(z.o[k] - (z.o[k - 1] if k else z.types[0][0]))
            if ch:
                for e in (u + ch, u - ch):
                    for dlt in range(-2, 3):
                        ts.add(e + dlt)
                ts.add(u + ch // 2)
                ts.add(u - ch // 2)
        lo, hi = 0, 2145916800     # 1970 .. 2038
        ts.update(range(lo + rng.randrange(grid_step), hi, grid_step))
        if n:
            ts.update(z.u[-1] + x for x in (3600, 7200, 86400, 40000000, rng.randrange(1, 10 ** 8)))
            ts.update(rng.randrange(z.u[0], z.u[-1] + 1) for _ in range(40))
            ts.add(z.u[0] - 86400)
        ts.update((0, -1, 2 ** 31 - 1, -2 ** 31, rng.randrange(-2 ** 33, 2 ** 33)))
        for t in sorted(ts):
            if -2 ** 36 < t < 2 ** 36:
                lines.append("probe %d" % t)
        # local times around every gap (skipped) and every overlap (repeated), from the civil side
        for k in range(0, n):
            a, b = z.u[k] + z.prev_offset(k), z.u[k] + z.o[k]
            for L in {a - 1, a, a + 1, (a + b) // 2, b - 1, b, b + 1}:
                if -2 ** 36 < L < 2 ** 36:
                    lines.append("fromlocal %d %d %d %d %d %d" % break_py(L))
        return lines

    def damaged_zone_lines(self, ctx, paths):
        """truncated / altered copies of real files: only model == implementation is judged (plus whatever loads)"""
        rng = ctx.rng
        lines = []
        for p in paths:
            with open(p, "rb") as f:
                b = f.read()
            z = Tz(b)
            cuts = {0, 3, 4, 5, 19, 20, 43, 44, len(b) - 1, len(b) // 2, rng.randrange(len(b))}
            if z.ok or getattr(z, "blocks", None):
                e1 = z.blocks["v1"]["end"]
                cuts.update((e1 - 1, e1, e1 + 4, e1 + 20, e1 + 43, e1 + 44, e1 + 45))
                if "v2" in z.blocks:
                    e2 = z.blocks["v2"]["end"]
                    cuts.update((e2 - 30, e2 - 1, e2, e2 + 1))
            for c in sorted(x for x in cuts if 1 <= x < len(b)):
                lines.append("zonebytes " + b[:c].hex())
                lines.append("probe 1000000000")
            for ver in (b"\0", b"3", b"4", b"1"):
                lines.append("zonebytes " + (b[:4] + ver + b[5:]).hex())
                lines += ["probe %d" % t for t in (0, 1000000000, 1546304399, rng.randrange(2 ** 31))]
            # counters: leapcnt / isstdcnt / isutccnt of the block that is read
            off = 20 if b[4:5] != b"2" else z.blocks["v1"]["end"] + 20 if getattr(z, "blocks", None) else 20
            for field, val in ((2, 1), (1, 1), (0, 1), (1, 0), (0, 0)):
                m = bytearray(b)
                m[off + 4 * field:off + 4 * field + 4] = struct.pack(">l", val)
                lines.append("zonebytes " + bytes(m).hex())
                lines.append("probe 1000000000")
            # a transition that points past the last type
            if z.ok and z.u:
                blk = z.blocks["v2" if b[4:5] == b"2" else "v1"]
                tsz = 8 if b[4:5] == b"2" else 4
                base = (z.blocks["v1"]["end"] if b[4:5] == b"2" else 0) + 44 + tsz * len(blk["u"])
                m = bytearray(b)
                m[base + rng.randrange(len(blk["u"]))] = len(blk["types"])
                lines.append("zonebytes " + bytes(m).hex())
                lines.append("probe 1000000000")
        return lines

    def tzfile_lines(self, ctx, plain, leap):
        """the zone-FILE READER: every platform file dumped; synthesized files (32-bit only, second block, version bytes,
        no transitions, times before 1901 / after 2038 / with the top bit set, many types, indicator bytes, odd counters);
        every truncation point of small files; damaged magic.  Judged: table against the RFC 8536 reader (oracle), and
        model = implementation including the kind of failure"""
        rng = ctx.rng
        lines = []
        stat = {"platform_files": 0, "synthesized": 0, "truncations": 0, "damaged": 0}
        files = plain + (leap[:10] if ctx.quick() else leap[::5])
        for p in files:
            lines.append("zone " + p)
        stat["platform_files"] = len(files)

        def add(b, probes=()):
            lines.append("zonebytes " + b.hex())
            for t in probes:
                lines.append("probe %d" % t)

        gmt, bst = (0, 0, 0), (3600, 1, 4)
        chars = b"GMT\0BST\0"
        b1 = tzif_block([-1000000000, -86400, 0, 1000000000, 2 ** 31 - 1], [1, 0, 1, 0, 1], [gmt, bst], chars)
        b2 = tzif_block([-2 ** 59, -3000000000, -2 ** 31 - 1, -1000000000, 1000000000, 2 ** 31, 5000000000, 2 ** 40],
                        [0, 1, 0, 1, 0, 1, 0, 1], [gmt, bst], chars, isstd=b"\0\1", isut=b"\0\0")
        synth = []
        synth.append(mk_tzif(b"\0", b1))                                                     # version 1: first block only
        synth.append(mk_tzif(b"\0", tzif_block([-2 ** 31, -2 ** 31 + 1, -86400], [0, 1, 0], [gmt, bst], chars)))
        for ver in (b"2", b"3", b"4", b"1", b"9", b"\0", b"\xff"):
            synth.append(mk_tzif(ver, b1, b2, b"\nGMT0BST,M3.5.0/1,M10.5.0\n"))
        synth.append(mk_tzif(b"2", tzif_block([], [], [gmt], b"GMT\0"), tzif_block([], [], [gmt], b"GMT\0"), b"\nGMT0\n"))  # no transitions
        synth.append(mk_tzif(b"2", tzif_block([], [], [gmt], b"GMT\0"), b2, b""))                                          # slim first block
        synth.append(mk_tzif(b"2", b1, tzif_block([5], [0], [(-43200, 0, 0)], b"\0"), b"\n"))                               # one empty designation
        synth.append(mk_tzif(b"2", b1, tzif_block([], [], [], b"\0"), b"\n"))                                              # no types at all
        many = [(rng.randrange(-50400, 50401), rng.randrange(2), rng.randrange(256)) for _ in range(256)]
        synth.append(mk_tzif(b"2", b1, tzif_block(sorted(rng.randrange(-2 ** 40, 2 ** 40) for _ in range(300)),
                                                  [rng.randrange(256) for _ in range(300)], many, bytes(range(256)),
                                                  isstd=bytes(256), isut=bytes(256)), b"\nX\n"))
        synth.append(mk_tzif(b"\0", tzif_block(sorted(rng.randrange(-2 ** 31, 2 ** 31) for _ in range(300)),
                                               [rng.randrange(256) for _ in range(300)], many, bytes(range(256)))))
        synth.append(mk_tzif(b"2", b1, tzif_block([1, 2], [0, 1], [(0, 2, 0), (1, 255, 255)], b"A\0")))                     # isdst bytes other than 0/1
        # leap-second records in the FIRST block only: skipped with it (4 + 4 bytes each), the second block is taken
        synth.append(mk_tzif(b"2", tzif_block([5], [0], [gmt], b"GMT\0", leaps=[(78796800, 1), (94694401, 2)]), b2, b"\nX\n"))
        synth.append(mk_tzif(b"2", tzif_block([5], [0], [gmt], b"GMT\0", isstd=b"\1", isut=b"\1", leaps=[(78796800, 1)]), b2, b"\nX\n"))
        for _ in range(20 if ctx.quick() and not ctx.search_mode else 300):
            def blk(tsz):
                nty = rng.choice([1, 1, 2, 3, 7, 40])
                ntr = rng.choice([0, 1, 2, 5, 30])
                lim = 2 ** 31 if tsz == 4 else rng.choice([2 ** 31, 2 ** 33, 2 ** 50, 2 ** 62])
                return tzif_block(sorted(rng.randrange(-lim, lim) for _ in range(ntr)), [rng.randrange(nty) for _ in range(ntr)],
                                  [(rng.randrange(-2 ** 31, 2 ** 31) if rng.random() < 0.2 else rng.randrange(-50400, 50401),
                                    rng.choice([0, 1, 1, 2, 128, 255]), rng.randrange(256)) for _ in range(nty)],
                                  bytes(rng.randrange(256) for _ in range(rng.choice([1, 1, 4, 9, 60]))),
                                  isstd=bytes(rng.randrange(2) for _ in range(rng.choice([0, nty]))),
                                  isut=bytes(rng.randrange(2) for _ in range(rng.choice([0, nty]))))
            ver = rng.choice([b"2", b"2", b"2", b"3", b"\0", b"4"])
            synth.append(mk_tzif(ver, blk(4), None if ver == b"\0" and rng.random() < 0.7 else blk(8),
                                 bytes(rng.randrange(256) for _ in range(rng.choice([0, 2, 12])))))
        for b in synth:
            verdict, tab = tzif_read(b)
            pr = []
            zt = Tz(b)
            # conversions are claimed for well-formed tables only (gap rule): probe those
            if verdict == "ok" and tab["types"] and zt.ok and zt.wellformed()[0] and all(abs(o) <= 93600 for o, _, _ in tab["types"]):
                for (t, _, _) in tab["trans"][:6]:
                    pr += [x for x in (t - 1, t, t + 1) if -2 ** 36 < x < 2 ** 36]
            add(b, pr[:12])
        stat["synthesized"] = len(synth)
        # refused: leap seconds, indicator counts that fit nothing, a type index past the last type, odd counters
        lp = tzif_block([5], [0], [gmt], b"GMT\0", leaps=[(78796800, 1)])
        damaged = [mk_tzif(b"\0", lp), mk_tzif(b"2", b1, lp),
                   mk_tzif(b"2", b1, tzif_block([5], [0], [gmt, bst], chars, isstd=b"\0")),
                   mk_tzif(b"2", b1, tzif_block([5], [0], [gmt, bst], chars, isut=b"\0\0\0")),
                   mk_tzif(b"2", b1, tzif_block([5, 6], [0, 2], [gmt, bst], chars)),
                   mk_tzif(b"\0", tzif_block([5, 6], [0, 200], [gmt, bst], chars)),
                   mk_tzif(b"\0", tzif_block([5], [0], [], b"")),
                   mk_tzif(b"2", b1, b2, b"x", magic2=b"TZiF"), mk_tzif(b"2", b1, b2, b"x", magic2=b"\0\0\0\0")]
        # counters: negative / larger than the file (charcnt stays >= 0: `char buf[n]` with n < 0 is undefined)
        full = mk_tzif(b"2", b1, b2, b"\nX\n")
        for (isut, isstd, leapc, tc, yc, cc) in ((0, 0, 0, -1, 2, 8), (0, 0, 0, 5, -1, 8), (0, 0, 0, -2 ** 31, 2, 8), (0, 0, 0, 5, 2, 4000),
                                                 (0, 0, 0, 70000, 2, 8), (0, 0, 0, 5, 70000, 8), (2, 2, 0, 5, 2, 8), (-1, 0, 0, 5, 2, 8),
                                                 (0, -2, 0, 5, 2, 8), (0, 0, -1, 5, 2, 8), (0, 0, 3, 5, 2, 8)):
            damaged.append(mk_tzif(b"\0", b1, counts1=(isut, isstd, leapc, tc, yc, cc)))
            damaged.append(mk_tzif(b"2", b1, b2, b"\nX\n", counts2=(isut, isstd, leapc, tc, yc, cc)))
            damaged.append(mk_tzif(b"2", b1, b2, b"\nX\n", counts1=(isut, isstd, leapc, tc, yc, cc)))    # the skip over block 1 goes astray
        for c1 in ((0, 0, 0, -1000000, 0, 0), (0, 0, 0, 0, -100000, 0), (-7, 0, 0, 0, 0, 0), (0, 0, 0, 1000000, 2, 8)):
            damaged.append(mk_tzif(b"2", b1, b2, b"\nX\n", counts1=c1))
        for k in range(4):
            m = bytearray(full)
            m[k] ^= 0x20
            damaged.append(bytes(m))
        for b in damaged:
            add(b)
        stat["damaged"] = len(damaged)
        # every truncation point of two small platform files and two synthesized ones
        small = sorted((os.path.getsize(p), p) for p in plain)
        picks = [p for _, p in small[:1]] + [p for sz, p in small if sz > 230][:1]
        for b in [self.file_bytes(p) for p in picks] + [synth[0], synth[2]]:
            for c in range(len(b)):
                add(b[:c])
                stat["truncations"] += 1
        ctx.extra["zone_file_reader"] = stat
        return lines

    # ------------------------------------------------------------------ running
    def minimal(self, ops, i):
        """the smallest case that reproduces step i: the zone line in force + the line itself"""
        if ops[i].split()[0] in ("probe", "fromlocal"):
            for k in range(i - 1, -1, -1):
                if ops[k].split()[0] in ("zone", "zonebytes", "fixedzone"):
                    return [ops[k], ops[i]]
        return [ops[i]]

    def run_batch(self, ctx, exe, lines, origin, nontrivial_ops=("probe", "ymd", "jdn", "break", "ip4", "be", "days")):
        ops = [l for l in lines if l.strip()]
        if not ops:
            return
        case = Case("calendar", ops, origin)
        impl, err = ctx.run_impl(exe, case, timeout=1800)
        fails = self.oracle(ops, impl)
        model = ctx.run_model(case, impl, timeout=1800) if ctx.model_ok else None
        mismatch = ctx.compare(case, impl, model) if model is not None else None
        for l in ops:
            ctx.count("op:" + l.split()[0])
        # counting: one evaluation per conversion; distinct by result line
        for l, b in zip(ops, impl):
            o = ctx.observable(b)
            ctx.evaluations += 1
            if o and o[0] not in ("bad-op", "nozone", "zone invalid", "zone unreadable"):
                ctx.distinct.add(hashlib.sha256((l + "\n" + o[0]).encode()).hexdigest()[:16])
        if len(ctx.samples) < 3 and impl:
            k = min(len(ops) - 1, 1)
            ctx.samples.append({"origin": origin, "op": ops[k], "result": (ctx.observable(impl[k]) or ["?"])[0][:200]})
        # well-formedness verdicts computed by the Lean side, cross-checked with the Python parser
        if model is not None:
            for l, b in zip(ops, model):
                if l.startswith("zone "):
                    wf = [x for x in b if x.startswith("# wf ")]
                    if wf:
                        f = wf[0].split()
                        z = self.tz(path=l.split()[1])
                        ok, bad = z.wellformed() if z.ok else (None, [])
                        rec = ctx.extra.setdefault("zone_wellformedness", {"files": 0, "wellformed": 0, "not_wellformed": [], "transitions": 0,
                                                                           "read_via_32bit_block": []})
                        rec["files"] += 1
                        rec["transitions"] += int(f[4])
                        if f[2] == "1":
                            rec["wellformed"] += 1
                        else:
                            rec["not_wellformed"].append({"file": l.split()[1], "transitions_violating_gap_rule": bad[:5]})
                        if z.ok and z.which == "32-bit" and l.split()[1] not in rec["read_via_32bit_block"]:
                            rec["read_via_32bit_block"].append(l.split()[1])
                        if z.ok and ((f[2] == "1") != ok or int(f[4]) != len(z.u) or int(f[6]) != len(z.types)):
                            ctx.mismatches.append((Case("calendar", [l], origin),
                                                   "parsed table differs: Lean reader says %s, independent parser: wf=%s n=%d types=%d" % (
                                                       wf[0], ok, len(z.u), len(z.types))))
        if fails:
            # glibc disagreements and property violations alike are reported with a minimal replay; one per kind
            seen = set()
            for i, kind, desc in fails:
                if kind in seen:
                    continue
                seen.add(kind)
                small = self.minimal(ops, i)
                c = Case("calendar", small, origin)
                b, _ = ctx.run_impl(exe, c, timeout=120)
                f = self.oracle(small, b)
                if f:
                    ctx.oracle_failures.append((c, f[0][1], f[0][2]))
                else:
                    ctx.oracle_failures.append((Case("calendar", ops[:i + 1], origin), kind, desc))
                if len(seen) >= 3:
                    break
        elif mismatch:
            import re
            m = re.search(r"step (\d+)", mismatch)
            i = int(m.group(1)) if m else 0
            small = self.minimal(ops, min(i, len(ops) - 1))
            c = Case("calendar", small, origin)
            b, _ = ctx.run_impl(exe, c, timeout=120)
            mo = ctx.run_model(c, b, timeout=120)
            d = ctx.compare(c, b, mo)
            ctx.mismatches.append((c, d) if d else (Case("calendar", ops[:i + 1], origin), mismatch))

    @staticmethod
    def read_case(path):
        with open(path) as f:
            return [l.rstrip("\n") for l in f if l.strip() and not l.startswith("#") and not l.startswith("engine=")]

    def correspondence(self, ctx, replay=None):
        flavours = ["dbg"] if ctx.quick() else ["dbg", "asan-ndebug"]
        ctx.extra["flavours"] = flavours
        ctx.extra["glibc_role"] = "third-party test oracle (`# glibc` lines of the harness); never an input of the model or of a theorem"
        if replay:
            lines = self.read_case(replay)
            exe = ctx.exe("calendar_drv", "dbg")
            case = Case("calendar", lines, "replay")
            impl, err = ctx.run_impl(exe, case)
            model = ctx.run_model(case, impl)
            for l, a, b in zip(lines, impl, model):
                print("op   : %s\nimpl : %s\nmodel: %s" % (l[:200], [x[:200] for x in a if not x.startswith("<")], ctx.observable(b)))
            self.run_batch(ctx, exe, lines, "replay")
            return
        plain, leap = zone_files()
        ctx.extra["zone_files_present"] = {"without_leap_seconds": len(plain), "with_leap_seconds": len(leap)}
        for fi, fl in enumerate(flavours):
            exe = ctx.exe("calendar_drv", fl)
            for p in sorted(glob.glob(os.path.join(CORPUS, "C20", "*.case"))):
                self.run_batch(ctx, exe, self.read_case(p), "corpus:" + os.path.basename(p))
                ctx.count("corpus_cases")
            if ctx.stop():
                return
            self.run_batch(ctx, exe, self.tzfile_lines(ctx, plain, leap), "zone-file-reader" + ("" if fi == 0 else "-" + fl))
            ctx.extra.setdefault("zone_file_reader", {})["tables_equal_to_rfc8536_reader"] = self.tables_compared
            if ctx.stop():
                return
            if fi > 0:
                # the sanitizer build repeats the zone part on a sample and the text forms (pointer work lives there)
                sample = [os.path.join(ZONEINFO, z) for z in QUICK_ZONES]
                for p in sample:
                    self.run_batch(ctx, exe, self.zone_probe_lines(ctx, p, self.tz(path=p), 1 << 24), "zones-" + fl)
                self.run_batch(ctx, exe, self.damaged_zone_lines(ctx, sample[:6]), "damaged-" + fl)
                self.run_batch(ctx, exe, self.inet_lines(ctx)[:20000], "inet-" + fl)
                continue
            self.run_batch(ctx, exe, self.calendar_lines(ctx), "calendar")
            if ctx.stop():
                return
            self.run_batch(ctx, exe, self.inet_lines(ctx), "inet")
            if ctx.stop():
                return
            # zones
            if ctx.quick() and not ctx.search_mode:
                chosen = [os.path.join(ZONEINFO, z) for z in QUICK_ZONES if os.path.join(ZONEINFO, z) in plain or os.path.exists(os.path.join(ZONEINFO, z))]
                rest = [p for p in plain if p not in chosen]
                chosen += ctx.rng.sample(rest, min(12, len(rest)))
                grid = 1 << 22
            else:
                chosen = list(plain)
                grid = 1 << 20
            ctx.extra["zones_run"] = len(chosen)
            batch = []
            for p in chosen:
                batch += self.zone_probe_lines(ctx, p, self.tz(path=p), grid)
                if len(batch) > 150000:
                    self.run_batch(ctx, exe, batch, "zones")
                    batch = []
                    if ctx.stop():
                        return
            # leap-second files must be refused (the reader returns false for leapcnt != 0)
            for p in (leap[:3] if ctx.quick() else leap[::15]):
                batch += ["zone " + p, "probe 0"]
            batch += ["fixedzone %d" % o for o in (0,)] + ["probe %d" % t for t in (0, -1, 1700000000)]
            for o in (28800, -18000, 20700, -34200):
                batch += ["fixedzone %d" % o] + ["probe %d" % t for t in (0, -1, 86399, 1700000000, ctx.rng.randrange(-2 ** 33, 2 ** 33))]
            self.run_batch(ctx, exe, batch, "zones")
            if ctx.stop():
                return
            dm = [os.path.join(ZONEINFO, z) for z in ("Africa/Sao_Tome", "America/New_York", "Asia/Gaza", "Etc/GMT+5")]
            dm += ctx.rng.sample(plain, 3 if ctx.quick() else 25)
            self.run_batch(ctx, exe, self.damaged_zone_lines(ctx, dm), "damaged-zone-files")
            if ctx.stop():
                return


PROP = Prop()
