"""C12 — TcpClient/Connector: one established connection per connect() cycle, back-off
0.5 s, 1 s, 2 s … <= 30 s, stop()/disconnect() obeyed, every socket handed over xor closed once,
safe destruction.

Theorems: lean/MuduoVerif/Props/C12.lean over Model/Client.lean (which uses the T1 definitions of
Generated/Client.lean).  Correspondence: harness/client_drv.cc (real TcpClient + Connector in a real
EventLoop, stepped; connect()/SO_ERROR/self-connect scripted or recorded by link-level interposition,
virtual clock) against the native Lean driver `drv_client`.  The oracle below evaluates the property on
the implementation's own trace and never consults the model."""
import glob
import os
import re

from ..common import CORPUS
from ..runner import Case, ddmin, split_blocks

PROCEED = {"ok", "EINPROGRESS", "EINTR", "EISCONN", "real"}
RETRY = {"EAGAIN", "EADDRINUSE", "EADDRNOTAVAIL", "ECONNREFUSED", "ENETUNREACH"}
GIVEUP = {"EACCES", "EPERM", "EAFNOSUPPORT", "EALREADY", "EBADF", "EFAULT", "ENOTSOCK", "ETIMEDOUT", "EHOSTUNREACH"}
ERRNO = {"EAGAIN": 11, "EADDRINUSE": 98, "EADDRNOTAVAIL": 99, "ECONNREFUSED": 111, "ENETUNREACH": 101, "EACCES": 13,
         "EPERM": 1, "EAFNOSUPPORT": 97, "EALREADY": 114, "EBADF": 9, "EFAULT": 14, "ENOTSOCK": 88, "ETIMEDOUT": 110,
         "EHOSTUNREACH": 113, "EINPROGRESS": 115, "EINTR": 4, "EISCONN": 106}
# the interposition layer knows only some names; the others are passed as E<number>
KNOWN_NAMES = {"EAGAIN", "EINTR", "ECONNREFUSED", "ENETUNREACH", "EINPROGRESS", "EBADF"}


def tok(name):
    return name if name in KNOWN_NAMES or name in ("ok", "real") else "E%d" % ERRNO[name]


def spec_delay_ms(i):
    """the property's schedule: i-th consecutive retry of a cycle"""
    return min(500 * 2 ** i, 30000)


# --------------------------------------------------------------------------------------- generator
class Sim:
    """what the generator expects to be outstanding (used only to keep generated histories inside the
    property's quantifier: connect() only when no attempt, connection or retry timer is outstanding)"""

    def __init__(self):
        self.now = 0
        self.phase = "idle"          # idle | connecting | wait
        self.deadline = 0
        self.delay = 500
        self.cconnect, self.tconnect, self.retry, self.alive = False, True, False, True
        self.conn = None             # None | "C" | "X"
        self.peer_closed = False
        self.force_close = False
        self.q = []
        self.cscript, self.soerr, self.selfs = [], [], []
        self.pollerr = False
        self.user_ref = False
        self.old_conns = 0           # connection objects kept only by the user
        self.hooks_up, self.hooks_down = [], []   # operations the connection callback will perform (one per report)

    def hook(self, cb):
        """the user's callback: the first operation registered for this report, unless the client is gone"""
        if not self.alive:
            return
        hs = self.hooks_up if cb == "up" else self.hooks_down
        if not hs:
            return
        o = hs.pop(0)
        if o == "disconnect":
            self.tconnect = False
            if cb == "up" and self.conn == "C":
                self.conn = "X"
        elif o == "stop":
            self.tconnect = self.cconnect = False
            self.q.append("stop")
        elif o == "connect":
            self.tconnect = self.cconnect = True
            self.start_cycle()

    def quiet(self):
        return self.alive and self.phase == "idle" and self.conn is None and "start" not in self.q

    def attempt(self):
        t = self.cscript.pop(0) if self.cscript else "EINPROGRESS"
        if t in PROCEED:
            self.phase = "connecting"
        elif t in RETRY:
            self.fail()
        else:
            self.phase = "idle"

    def fail(self):
        self.phase = "idle"
        if self.cconnect:
            self.phase, self.deadline = "wait", self.now + self.delay * 1000
            self.delay = min(self.delay * 2, 30000)

    def start_in_loop(self):
        if self.cconnect:
            self.attempt()

    def start_cycle(self):
        self.delay = 500
        self.start_in_loop()

    def op(self, line):
        w = line.split()
        o = w[0]
        if o == "connect":
            self.tconnect = self.cconnect = True
            if w[1] == "L":
                self.start_cycle()
            else:
                self.q.append("start")
        elif o == "stop":
            self.tconnect = self.cconnect = False
            self.q.append("stop")
        elif o == "disconnect":
            self.tconnect = False
            if self.conn == "C":
                self.conn = "X"
        elif o == "enableRetry":
            self.retry = True
        elif o == "hook":
            (self.hooks_up if w[1] == "up" else self.hooks_down).append(w[2])
        elif o == "destroy":
            self.alive = False
            if self.conn:
                if not self.user_ref and self.conn == "C":
                    self.force_close = True
                elif not self.user_ref and self.conn == "X" and False:
                    pass
            else:
                self.cconnect = False
                self.q.append("stop")
        elif o == "holdRef":
            if self.conn:
                self.user_ref = True
        elif o == "dropRef":
            self.user_ref = False
        elif o == "advance":
            self.now += int(w[1])
        elif o == "script":
            {"connect": self.cscript, "soerr": self.soerr, "self": self.selfs}[w[1]].extend(w[2:])
        elif o == "peer":
            if self.conn:
                self.peer_closed = True
        elif o == "pollerr":
            if self.phase == "connecting":
                self.pollerr = True
        elif o == "iter":
            was_connecting = self.phase == "connecting"
            had_conn = self.conn is not None
            if self.phase == "wait" and self.now >= self.deadline:
                self.phase = "idle"
                self.start_in_loop()
            elif was_connecting:
                if self.pollerr:
                    self.pollerr = False
                    if self.soerr:
                        self.soerr.pop(0)
                    self.fail()
                else:
                    e = self.soerr.pop(0) if self.soerr else "0"
                    if e != "0":
                        self.fail()
                    else:
                        s = self.selfs.pop(0) if self.selfs else "0"
                        if s != "0":
                            self.fail()
                        else:
                            self.phase = "idle"
                            if self.cconnect:
                                self.conn = "C"
                                self.peer_closed = False
                                self.hook("up")
            if had_conn and self.conn and self.peer_closed:
                self.conn, self.peer_closed, self.force_close = None, False, False
                self.user_ref = self.user_ref
                self.hook("down")
                if self.alive and self.retry and self.tconnect and self.phase == "idle":
                    self.delay, self.cconnect = 500, True
                    self.start_in_loop()
            q, self.q = self.q, []
            for f in q:
                if f == "start":
                    self.start_cycle()
                elif f == "stop" and self.phase == "connecting":
                    self.fail()
            if self.force_close and self.conn:
                self.conn, self.force_close, self.peer_closed = None, False, False


def connect_script(rng, n):
    toks = []
    for _ in range(n):
        r = rng.random()
        if r < 0.45:
            toks.append(rng.choice(["ECONNREFUSED", "ECONNREFUSED", "ENETUNREACH", "EAGAIN", "EADDRNOTAVAIL", "EADDRINUSE"]))
        elif r < 0.9:
            toks.append(rng.choice(["ok", "EINPROGRESS", "EINPROGRESS", "EINTR", "EISCONN"]))
        else:
            toks.append(rng.choice(["EACCES", "EPERM", "EBADF", "EALREADY", "ETIMEDOUT", "EHOSTUNREACH", "ENOTSOCK"]))
    return toks


UP_OPS = ["disconnect", "disconnect", "stop", "query", "query"]
DOWN_OPS = ["connect", "connect", "query", "disconnect", "stop"]


def hook_line(rng, sim):
    """an operation for the connection callback, inside the property's quantifier: never connect() from the UP
    callback (a connection is outstanding), connect() from the DOWN callback only without retry"""
    if rng.random() < 0.55:
        return "hook up " + rng.choice(UP_OPS)
    op = rng.choice(DOWN_OPS)
    if op == "connect" and sim.retry:
        op = rng.choice(["query", "disconnect", "stop"])
    return "hook down " + op


def random_case(rng, maxlen=60, destroy=True, foreign_destroy_safe_only=True, hooks=0.0):
    """a history inside the property's quantifier (scripted attempts only); `hooks`: how eagerly operations are
    registered for the connection callback"""
    sim = Sim()
    lines = []

    def do(l):
        # the simulator works with names, the driver with names it knows / numbers
        sim.op(l)
        w = l.split()
        if w[0] == "script" and w[1] == "connect":
            l = "script connect " + " ".join(tok(t) for t in w[2:])
        lines.append(l)

    if rng.random() < 0.4:
        do("enableRetry")
    if hooks:
        for _ in range(rng.randrange(1, 4)):
            do(hook_line(rng, sim))
    n = rng.randrange(5, maxlen)
    for _ in range(n):
        if sim.alive and hooks and rng.random() < hooks * 0.12:
            do(hook_line(rng, sim))
            continue
        if not sim.alive:
            k = rng.random()
            if k < 0.5:
                do("iter")
            elif k < 0.7:
                do("advance %d" % rng.choice([1, 500000, 1000000, 999999, 30000000]))
            elif k < 0.8:
                do("peer close")
            elif k < 0.9 and sim.user_ref and sim.conn is None:
                do("dropRef")
            else:
                do("iter")
            continue
        k = rng.random()
        who = "F" if rng.random() < 0.3 else "L"
        if sim.quiet() and k < 0.5:
            if rng.random() < 0.8:
                do("script connect " + " ".join(connect_script(rng, rng.randrange(1, 6))))
            do("connect " + who)
        elif sim.phase == "wait" and k < 0.45:
            rem = max(sim.deadline - sim.now, 0)
            do("advance %d" % rng.choice([rem, rem, rem, max(rem - 1, 0), rem + 1, rem // 2, rem + 5000000]))
            do("iter")
        elif sim.phase == "connecting" and k < 0.12:
            do("script soerr " + rng.choice(["ECONNREFUSED", "E110", "ECONNREFUSED 0", "E113"]))
        elif sim.phase == "connecting" and k < 0.18:
            do("script self 1")
        elif sim.phase == "connecting" and k < 0.24:
            do("pollerr")
        elif k < 0.55:
            do("iter")
        elif k < 0.62:
            do("stop " + who)
        elif k < 0.68:
            do("disconnect " + who)
        elif k < 0.74 and sim.conn:
            do("peer close")
        elif k < 0.78:
            if "connect" not in sim.hooks_down:
                do("enableRetry")
            else:
                do("iter")
        elif k < 0.82 and sim.conn:
            do("holdRef")
        elif k < 0.85 and sim.user_ref and sim.conn is None:
            do("dropRef")
        elif k < 0.89:
            do("advance %d" % rng.choice([1, 1000, 499999, 500000, 1000000, 7000000, 30000000]))
        elif k < 0.93 and destroy:
            # foreign-thread destruction with a live connection is F11 (known finding): only the safe cases
            w2 = who
            if w2 == "F" and sim.conn and foreign_destroy_safe_only:
                w2 = "L"
            do("destroy " + w2)
        else:
            do("iter")
    # settle: everything that is outstanding gets its chance
    do("peer close")
    for _ in range(3):
        do("iter")
    do("advance 31000000")
    do("iter")
    do("iter")
    return lines


def hook_cycle_case(rng):
    """connect / established / peer closes, several times over, with operations registered for the UP and DOWN
    callbacks: `hook up disconnect|stop|query`, `hook down connect` (manual reconnect) or retry-enabled automatic
    reconnects with `hook down query|disconnect|stop`"""
    sim = Sim()
    lines = []

    def do(l):
        sim.op(l)
        lines.append(l)

    retry = rng.random() < 0.5
    if retry:
        do("enableRetry")
    for cyc in range(rng.randrange(1, 4)):
        if not sim.alive:
            break
        for _ in range(rng.randrange(0, 3)):
            do(hook_line(rng, sim))
        if rng.random() < 0.6:
            do("hook up " + rng.choice(["disconnect", "stop", "query", "disconnect"]))
        if rng.random() < 0.6:
            do("hook down " + (rng.choice(["query", "disconnect", "stop"]) if sim.retry else rng.choice(["connect", "connect", "query"])))
        if sim.quiet():
            do("script connect " + rng.choice(["ok", "EINPROGRESS", "ECONNREFUSED ok", "EINPROGRESS"]))
            do("connect " + ("F" if rng.random() < 0.25 else "L"))
        for _ in range(4):
            if sim.conn:
                break
            if sim.phase == "wait":
                do("advance %d" % max(sim.deadline - sim.now, 0))
            do("iter")
        k = rng.random()
        if k < 0.25:
            do("iter")
        elif k < 0.4:
            do("holdRef")
        elif k < 0.5:
            do("disconnect L")
        if rng.random() < 0.1 and sim.alive:
            do("destroy L")
        do("peer close")
        do("iter")
        do("iter")
        if sim.user_ref and sim.conn is None:
            do("dropRef")
    do("peer close")
    for _ in range(3):
        do("iter")
    do("advance 31000000")
    do("iter")
    do("iter")
    return lines


def f33_case(rng):
    """stop() during the back-off wait, then connect() again, then the clock passes the stale deadline (F33) - all
    variants: how many refused attempts before stop(), stop()/connect() from the loop thread, another thread or the
    DOWN callback's thread, the loop running stop()'s functor before the second connect() or not, the server
    reachable / refusing / unreachable at the second connect(), retry enabled or not, how far the clock moves"""
    lines = []
    if rng.random() < 0.4:
        lines.append("enableRetry")
    nref = rng.choice([1, 1, 1, 2, 3])
    second = rng.choice(["ok", "EINPROGRESS", "ECONNREFUSED", "ENETUNREACH", "EINPROGRESS"])
    lines.append("script connect " + " ".join(["ECONNREFUSED"] * nref + [second] + ["EINPROGRESS"] * 3))
    lines += ["connect " + rng.choice("LF"), "iter"]
    delay = 500000
    for _ in range(nref - 1):
        lines += ["advance %d" % delay, "iter"]
        delay *= 2
    part = rng.choice([0, 1, delay // 2, delay - 1])
    if part:
        lines.append("advance %d" % part)
    lines.append("stop " + rng.choice("LF"))
    if rng.random() < 0.6:
        lines.append("iter")
    if rng.random() < 0.3:
        lines.append("advance %d" % rng.choice([1, 100, (delay - part) // 2]))
    lines.append("connect " + rng.choice("LLF"))
    if rng.random() < 0.8:
        lines.append("iter")
    # past the stale deadline, exactly or generously; then let the attempt of the new cycle complete
    lines.append("advance %d" % rng.choice([delay - part, delay - part + 1, delay, 2 * delay]))
    lines += ["iter", "iter"]
    if rng.random() < 0.5:
        lines += ["advance 500000", "iter", "iter"]
    if rng.random() < 0.5:
        lines += ["stop " + rng.choice("LF"), "iter"]
    lines += ["advance 31000000", "iter", "iter"]
    if rng.random() < 0.4:
        lines += ["destroy L", "iter", "advance 31000000", "iter", "iter"]
    return lines


def real_case(rng):
    """attempts against the raw listening socket: up / down / comes up later / closes immediately"""
    lines = []
    kind = rng.choice(["up", "down-then-up", "close-immediately", "down"])
    if rng.random() < 0.5:
        lines.append("enableRetry")
    if kind == "up":
        lines += ["server up", "script connect real", "connect %s" % rng.choice("LF"), "iter", "iter"]
    elif kind == "down":
        n = rng.randrange(1, 5)
        lines += ["script connect " + " ".join(["real"] * (n + 1)), "connect L", "iter"]
        for i in range(n):
            lines += ["advance %d" % (spec_delay_ms(i) * 1000), "iter", "iter"]
        lines += ["stop L", "iter"]
    elif kind == "down-then-up":
        n = rng.randrange(1, 4)
        lines += ["script connect " + " ".join(["real"] * (n + 1)), "connect L", "iter"]
        for i in range(n):
            if i == n - 1:
                lines.append("server up")
            lines += ["advance %d" % (spec_delay_ms(i) * 1000), "iter", "iter"]
        lines += ["iter"]
    else:
        lines += ["server up", "server closeNext", "script connect real real", "connect L", "iter", "iter", "iter"]
    lines += [rng.choice(["disconnect L", "stop L", "iter", "destroy L"]), "iter", "peer close", "iter", "iter",
              "advance 31000000", "iter", "iter"]
    return lines


# --------------------------------------------------------------------------------------- oracle
class Trace:
    def __init__(self, lines, blocks):
        self.ops = [l for l in lines if l.strip()]
        self.blocks = blocks
        self.crash = None
        self.steps = []   # per step: dict(op, events, env, st)
        for i, b in enumerate(blocks):
            ev, env, st = [], [], None
            for l in b:
                if l.startswith("<<"):
                    self.crash = (i, l)
                elif l.startswith("< "):
                    env.append(l[2:])
                elif l.startswith("st "):
                    st = dict(kv.split("=", 1) for kv in l.split()[1:])
                elif l.startswith("# hook "):
                    ev.append(l[2:])     # `hook <up|down> <op> <k>`: the callback performs <op> now (oracle only)
                elif not l.startswith("#"):
                    ev.append(l)
            self.steps.append({"op": self.ops[i] if i < len(self.ops) else "?", "events": ev, "env": env, "st": st})


def oracle(tr):
    """the property C12 evaluated on what the implementation did; returns [(kind, description)]"""
    fails = []
    now = 0
    want = True            # TcpClient::connect_ as the user set it
    retry_enabled = False
    alive = True
    stop_req = False
    in_scope = True
    socks = {}             # k -> "open" | "closed" | "handed" | "connclosed"
    failed_socks = set()   # attempts whose SO_ERROR was read as non-zero
    up, down = set(), set()
    cycle_ups = 0
    cycle_retry = 0        # retries scheduled so far in this cycle
    expect_deadline = None  # (deadline, step of failure)
    pending_start = False
    current = None         # k of the current connection
    fired_pending = False
    user_ref = False
    destroyed_with_ref = False
    disconnect_pending = None   # (k, step)
    expect_down = None          # (k, step of `peer close`, iterations since)

    def fail(kind, i, text):
        fails.append((kind, "step %d `%s`: %s" % (i, tr.steps[i]["op"], text)))

    for i, s in enumerate(tr.steps):
        w = s["op"].split()
        o = w[0]
        evs = s["events"]
        st = s["st"]
        for e in evs:
            if e.startswith("abort "):
                if in_scope:
                    fail("abort:" + e[6:], i, "assertion failed: " + e[6:])
                return fails
        if o == "advance":
            now += int(w[1])
        prev = tr.steps[i - 1]["st"] if i > 0 else None
        if o == "connect":
            open_attempt = [k for k, v in socks.items() if v == "open"]
            # a back-off timer still armed is an overlapping connect - unless stop() ended that cycle: its timer must be
            # cancelled (F33), the retry it stood for is void
            timer_out = expect_deadline is not None and not stop_req
            if not alive or open_attempt or current is not None or timer_out or pending_start:
                in_scope = False     # overlapping connect: the client defines no behaviour
            if stop_req:
                expect_deadline = None
            want, stop_req = True, False
            cycle_ups, cycle_retry = 0, 0
            if w[1] == "F":
                pending_start = True
        elif o == "stop":
            want, stop_req = False, True
        elif o == "disconnect":
            want = False
            if prev and prev.get("conn") == "C" and current is not None:
                disconnect_pending = (current, i)
        elif o == "enableRetry":
            retry_enabled = True
        elif o == "destroy":
            alive = False
            destroyed_with_ref = user_ref
        elif o == "holdRef":
            if current is not None:
                user_ref = True
        elif o == "dropRef":
            user_ref = False
        elif o == "peer" and current is not None and expect_down is None:
            expect_down = (current, i, 0)
        if not in_scope:
            continue
        if o == "iter":
            pending_start = False
        # ---- events of this step
        attempts_here = 0
        # SO_ERROR read for the attempt in progress (`< soerr v`: what getsockopt returned): a non-zero value means the
        # attempt failed - that socket must be closed (and retried), never reported as a connection, however often and by
        # whichever handler the value is read (reading SO_ERROR clears it: a second read of the same socket returns 0)
        for x in s["env"]:
            xw = x.split()
            if xw[:1] == ["soerr"] and len(xw) > 1 and xw[1] not in ("0",):
                for j, v in socks.items():
                    if v == "open":
                        failed_socks.add(j)
        for e in evs:
            t = e.split()
            if e.startswith("sock created"):
                k = int(t[2])
                if k in socks:
                    fail("socket-created-twice", i, e)
                if [j for j, v in socks.items() if v == "open"]:
                    fail("two-attempts", i, "socket %d created while socket %s is still in progress" % (k, [j for j, v in socks.items() if v == "open"]))
                socks[k] = "open"
            elif e.startswith("attempt "):
                k, at = int(t[1]), int(t[3])
                attempts_here += 1
                if not alive:
                    fail("attempt-after-destroy", i, e)
                if at != now:
                    fail("clock", i, "attempt at %d but the virtual clock is %d" % (at, now))
                if expect_deadline is not None:
                    d, fstep = expect_deadline
                    if now < d:
                        fail("retry-early", i, "retry at %d µs, due at %d µs (failure at step %d, retry #%d of the cycle: %d ms)"
                             % (now, d, fstep, cycle_retry - 1, spec_delay_ms(cycle_retry - 1)))
                    else:
                        late = [j for j in range(fstep + 1, i) if tr.steps[j]["op"] == "iter" and tr.steps[j]["_now"] >= d]
                        if late:
                            fail("retry-late", i, "retry at %d µs, was due at %d µs (iteration at step %d was already past it)" % (now, d, late[0]))
                    expect_deadline = None
                if stop_req:
                    fail("attempt-after-stop", i, "a connection attempt after stop()")
            elif e.startswith("sock closed"):
                k = int(t[2])
                if socks.get(k) != "open":
                    fail("socket-closed-%s" % socks.get(k, "unknown"), i, e)
                socks[k] = "closed"
            elif e.startswith("sock handedOver"):
                k = int(t[2])
                if socks.get(k) != "open":
                    fail("socket-handed-over-%s" % socks.get(k, "unknown"), i, e)
                if k in failed_socks:
                    fail("failed-attempt-handed-over", i, "socket %d, whose SO_ERROR said the attempt had failed, is handed over as an "
                         "established connection (and no retry is scheduled)" % k)
                socks[k] = "handed"
            elif e.startswith("conn closed"):
                k = int(t[2])
                if socks.get(k) != "handed":
                    fail("connection-closed-%s" % socks.get(k, "unknown"), i, e)
                elif k in up and k not in down:
                    fail("closed-without-down", i, "connection %d destroyed without a DOWN callback" % k)
                socks[k] = "connclosed"
            elif e.startswith("cb UP"):
                k = int(t[2])
                if stop_req:
                    fail("up-after-stop", i, "UP reported after stop()")
                if not alive:
                    fail("up-after-destroy", i, "UP reported after the client was destroyed")
                if k in up:
                    fail("double-up", i, e)
                if socks.get(k) != "handed":
                    fail("up-on-%s-socket" % socks.get(k, "unknown"), i, e)
                cycle_ups += 1
                if cycle_ups > 1:
                    fail("two-ups-in-cycle", i, "second established connection in one connect() cycle")
                up.add(k)
                current = k
            elif e.startswith("cb DOWN"):
                k = int(t[2])
                if k not in up or k in down:
                    fail("down-without-up" if k not in up else "double-down", i, e)
                down.add(k)
                if expect_down and expect_down[0] == k:
                    expect_down = None
                if k == current:
                    current = None
                    if alive:
                        # the user's callback runs first: what it does to the client counts for the decision
                        pos = evs.index(e)
                        rest = evs[pos + 1:]
                        hop = rest[0].split() if rest and rest[0].startswith("hook down ") else None
                        w_now, by_user = want, False
                        if hop:
                            if hop[2] in ("disconnect", "stop"):
                                w_now = False
                            elif hop[2] == "connect":
                                w_now, by_user = True, True
                        again = any(x.startswith("attempt ") for x in rest)
                        if by_user:
                            if retry_enabled:
                                in_scope = False     # connect() from the DOWN callback of a client that reconnects by itself
                            elif not again:
                                fail("connect-in-callback-ignored", i, "connect() from the DOWN callback started no attempt")
                        elif again != (retry_enabled and w_now):
                            fail("retry-policy", i, "connection went down with retry=%s connect=%s: %s"
                                 % (retry_enabled, w_now, "a new attempt started" if again else "no new attempt"))
                        if again:
                            cycle_ups, cycle_retry = 0, 0
            elif e.startswith("hook "):
                # `hook <cb> <op> <k>`: the user's callback, reporting connection k, performs <op> on the client now
                cb, hop, k = t[1], t[2], int(t[3])
                if not alive:
                    fail("callback-into-destroyed-client", i, e)
                if hop == "disconnect":
                    want = False
                    if cb == "up" and k in up and k not in down:
                        # disconnect() while connection k is being reported: it must be shut down
                        disconnect_pending = (k, i)
                elif hop == "stop":
                    want, stop_req = False, True
                elif hop == "connect":
                    if cb == "up" or [j for j, v in socks.items() if v == "open"] or expect_deadline is not None or pending_start:
                        in_scope = False
                    want, stop_req = True, False
                    cycle_ups, cycle_retry = 0, 0
                elif hop == "query":
                    nxt = evs[evs.index(e) + 1] if evs.index(e) + 1 < len(evs) else ""
                    if nxt != "cb QUERY self":
                        fail("connection-not-visible-in-callback", i,
                             "inside the %s callback of connection %d client.connection() is %s"
                             % (cb.upper(), k, {"cb QUERY none": "null", "cb QUERY other": "another connection"}.get(nxt, "not reported (%r)" % nxt)))
            elif e.startswith("cb QUERY"):
                pass
            elif e.startswith("sys shutdownWr"):
                k = int(t[2])
                if disconnect_pending and disconnect_pending[0] == k:
                    disconnect_pending = None
        s["_now"] = now
        # a failed attempt whose socket was closed in this step: is a retry scheduled, and when?
        closed_here = [e for e in evs if e.startswith("sock closed")]
        armed = [e for e in s["env"] if e.startswith("arm ") and e != "arm off"]
        if st is not None:
            alarm = st.get("alarm")
            n_open = sum(1 for v in socks.values() if v in ("open", "handed"))
            if int(st.get("fds", "0")) != n_open:
                fail("fd-population", i, "%s client descriptors are open, the events account for %d" % (st.get("fds"), n_open))
            # (an attempt after the close in the same step: a new cycle began right there and cancelled what was armed -
            # connect() queued behind a stale timer's attempt; the descriptor may still be armed for the cancelled timer)
            restarted = closed_here and any(e.startswith("attempt") for e in evs[evs.index(closed_here[-1]):])
            if closed_here and alive and alarm not in (None, "-") and not stop_req and not restarted:
                d = int(alarm)
                exp = now + spec_delay_ms(cycle_retry) * 1000
                if d != exp:
                    fail("backoff", i, "retry #%d of the cycle scheduled %d µs after the failure, the schedule says %d ms"
                         % (cycle_retry, d - now, spec_delay_ms(cycle_retry)))
                expect_deadline = (d, i)
                cycle_retry += 1
            elif closed_here and alive and not stop_req and alarm == "-" and not any(e.startswith("attempt") for e in evs[evs.index(closed_here[-1]):]):
                # closed, wanted, and neither a timer nor a new attempt: only legitimate for a give-up errno
                res = [e for e in s["env"] if e.startswith("connect ")]
                gave_up = res and int(res[-1].split()[1]) not in (0, 115, 4, 106, 11, 98, 99, 111, 101)
                if not gave_up:
                    fail("no-retry-scheduled", i, "the attempt failed, the user wants a connection, but no retry timer is armed")
        # the retry must happen: an iteration at or past the deadline of the armed back-off timer makes the attempt
        # (unless stop() or the destructor ended the cycle) - F33b: a stale stopInLoop() cancelled the new cycle's timer
        if o == "iter" and expect_deadline is not None and alive and not stop_req and now >= expect_deadline[0]:
            fail("retry-missed", i, "the back-off timer armed at step %d was due at %d µs; this iteration at %d µs made no attempt"
                 % (expect_deadline[1], expect_deadline[0], now))
            expect_deadline = None
        if o == "iter" and disconnect_pending and disconnect_pending[1] < i:
            k, j = disconnect_pending
            if k not in down:
                fail("disconnect-not-graceful", i, "disconnect() at step %d (`%s`) was not followed by shutdown(SHUT_WR) on connection %d"
                     % (j, tr.steps[j]["op"], k))
            disconnect_pending = None
        if o == "iter" and expect_down:
            k, j, n = expect_down
            expect_down = (k, j, n + 1)
            if n + 1 >= 2:
                if socks.get(k) == "handed":
                    fail("no-down-after-peer-close", i, "the peer of connection %d closed at step %d, two iterations later no DOWN" % (k, j))
                expect_down = None
        # handleWrite's success path must hand over (or close when stopped) in the same step
        if any(e == "self 0" for e in s["env"]):
            if not any(x.startswith("cb UP") or x.startswith("sock closed") for x in evs):
                fail("established-not-reported", i, "the attempt succeeded but neither UP nor close followed")
            if not stop_req and alive and not any(x.startswith("cb UP") for x in evs):
                fail("established-not-reported", i, "the attempt succeeded, the user wants the connection, no UP")
    # ---- end of history
    if tr.crash:
        fails.append(("crash", "step %d `%s`: %s" % (tr.crash[0], tr.ops[tr.crash[0]] if tr.crash[0] < len(tr.ops) else "?", tr.crash[1])))
        return fails
    if in_scope and tr.steps:
        n = len(tr.steps) - 1
        open_ = [k for k, v in socks.items() if v == "open"]
        if len(open_) > 1:
            fail("socket-leak", n, "sockets %s were neither handed over nor closed" % open_)
        last = tr.steps[-1]
        settled = len(tr.ops) >= 5 and tr.ops[-5:] == ["iter", "advance 31000000", "iter", "iter"][-4:] and False
        if not alive and not user_ref and not destroyed_with_ref and tr.ops[-2:] == ["iter", "iter"] and "advance 31000000" in tr.ops[-4:]:
            live = [k for k, v in socks.items() if v in ("open", "handed")]
            # a connection the user disconnected gracefully stays until the peer closes; the settle sequence closes the peer
            if live and last["st"] is not None:
                fail("leak-after-destroy", n, "descriptors of sockets %s are still open after the client was destroyed and the loop drained" % live)
    return fails


# --------------------------------------------------------------------------------------- plug-in
def read_case(path):
    with open(path) as f:
        raw = [l.rstrip("\n") for l in f]
    meta = {}
    lines = []
    for l in raw:
        if not l.strip() or l.startswith("#"):
            continue
        if l.startswith("engine="):
            for kv in l.split():
                k, v = kv.split("=", 1)
                meta[k] = v
            continue
        lines.append(l)
    return lines, meta


class Prop:
    id = "C12"
    lean_module = "MuduoVerif.Props.C12"
    gen_engines = ["Client", "ClientSkel"]
    drivers = ["client"]
    technique = ("Lean 4 invariant proofs over a model of Connector+TcpClient whose constants, delay update, errno table, "
                 "state tests and destructor branches are re-extracted from /repo (T1) + differential run of the real "
                 "TcpClient in a stepped EventLoop under a virtual clock with scripted/recorded socket results (T2)")
    level_text = ("Kernel-checked theorems (Props/C12.lean; lemmas Proofs/Client*.lean) over ALL histories inside the scope "
                  "guard `Guarded` (a decidable predicate on histories) - user operations between iterations AND operations "
                  "performed by the user's connection callback from inside the UP / DOWN report (`hookUp/hookDown op`, op in "
                  "disconnect, stop, connect, query connection(); executed where connectEstablished() / handleClose() call the "
                  "callback) -, all poller reports, all connect()/SO_ERROR/"
                  "self-connect/readv results, both build flavours: an invariant `Mid` of the model is preserved by every "
                  "function, loop iteration and user operation (`reach_bnd`); it says that the event trace is accepted by a "
                  "model-independent specification automaton (`scan`) whose summary matches the state. Unfolded: `no_abort` "
                  "(no assertion failure, no use of a destroyed object, never dead); `socket_once` + `no_leak_quiescent` + "
                  "`no_conn_leak` (every socket created once, handed over xor closed exactly once except the one attempt in "
                  "progress; ~TcpConnection closes a descriptor at most once and only after DOWN after UP after hand-over; "
                  "after an iteration every live connection object is still referred to); `backoff` + "
                  "`backoff_cycle_starts_at_500` + `backoff_timer` (i-th retry of a cycle: min(500*2^i,30000) ms, timer armed "
                  "at failure+delay, not fired before due; every cycle starts at 500 ms); `one_up_per_cycle`; `retry_policy` "
                  "(function-level, for every invariant state: new cycle+attempt in the same dispatch iff retry_&&connect_); "
                  "`stop_silences` (from the moment stop() returns until the next connect(): no attempt, no UP, no retry timer) "
                  "and `destroyed_silent`; `disconnect_graceful` (connect_ cleared, half-close queued, and performed by the "
                  "next iteration whatever it dispatches); callbacks: `connection_visible_in_callback` (whenever the callback "
                  "reporting connection k reads connection(), it is k), `connection_visible_in_up_callback` + "
                  "`disconnect_in_up_callback` (function level, any state: newConnection publishes connection_ before the UP "
                  "callback - generated `publishBeforeEstablish` - so disconnect() inside it clears connect_, makes k "
                  "kDisconnecting and queues its half-close), `disconnect_in_callback_graceful` (any guarded history, any poll "
                  "result: the iteration in which the UP callback runs `disconnect()` reports k UP and then performs "
                  "shutdown(SHUT_WR) on k), `up_runs_callback`, `callback_disconnect_then_down` / "
                  "`down_callback_disconnect_no_reconnect` (DOWN follows the peer's close, no reconnect), `retry_policy` now with "
                  "the state in which the DOWN callback returned (`retry_policy_plain`: callback without operation); `destroy_safe_inloop_sockets` (after ~TcpClient on the loop thread, "
                  "one iteration later no attempt socket is open) and `destroy_safe_inloop_connection` (a connection nobody "
                  "else holds goes DOWN and is destroyed within two iterations; depends on the generated fact "
                  "Gen.Conn.shutdownHold = weak, F26). The model is tied to the code by T1 (generated constants, guards, errno "
                  "table, dispatch choices; `statement_order_tied`: the statement skeleton - significant actions, their order and "
                  "nesting - of 21 Connector/TcpClient functions extracted from the AST equals the one the model implements) and by a differential run of the real TcpClient in two build flavours; an "
                  "independent oracle evaluates the property on the implementation's own traces")
    level_note = ("Scope guard (explicit, decidable, `okIn`): connect() only on a live client with no attempt, connection, "
                  "pending retry timer or queued connect() outstanding - except (F33, relaxed in this round) the retry timer "
                  "of a cycle that stop() has ended: connect() on the loop thread while that timer is still armed is INSIDE "
                  "(`connectOk`: nRetry = 0 or (w = loop and connect_ = false)), and after the loop ran stop()'s functor the "
                  "timer is gone anyway (`stale_timer_cancelled`; the cancellations are the generated `stopCancelsRetryTimer`, "
                  "`cycleStartCancelsRetryTimer`, `retryTimerStored`; `stale_timer_fires_without_cancel` is the negation "
                  "witness for the shape before a9261b3). STILL OUTSIDE the theorems, covered by the oracle and the "
                  "model/implementation comparison only: connect() from ANOTHER thread in the window in which stop()'s functor "
                  "is still queued and the stopped cycle's timer still armed (the timer may fire before the queued functors "
                  "run; invariant `Mid.a9` does not cover an attempt with a connect() queued behind it). The model's "
                  "`cancelRetry` removes every pending back-off timer where the code cancels the one `retryTimer_` names: the "
                  "same thing in every guarded history (`Mid.a8`: at most one is pending). "
                  "disconnect/stop/enableRetry only on a live client; "
                  "from inside the UP callback never connect() (a connection is outstanding), from inside the DOWN callback "
                  "connect() only when retry is off (`enableRetry` and a registered `hookDown connect` exclude each other: both "
                  "would start an attempt; the model and the code then fail `!channel_`, example in Props/C12.lean); a callback "
                  "that finds its client destroyed does nothing; "
                  "~TcpClient on the loop thread; the user drops a connection reference only if the connection is down or "
                  "somebody else holds it (TcpConnection's own contract). Destruction from a foreign thread is outside: "
                  "`destroy_safe_full` (any thread) is stated as a Prop and refuted on the model (`destroy_safe_full_false`, "
                  "witness `f11Witness`: connect L; iter; destroy F; iter with the peer's hang-up -> the model's "
                  "`uaf TcpClient::removeConnection`, because the foreign destructor only queues setCloseCallback): F11, the "
                  "code's own FIXME, known limitation; the generator keeps foreign destroys to the states where the code is safe. "
                  "Two ghost additions to the model in this round (not printed by the driver): `Ev.ghost` marks "
                  "(cycle start, connect(), stop(), ~TcpClient) and, in dispatchConn, a connection whose descriptor is still the "
                  "connector's channel's (`chan = some k`, until the queued resetChannel) cannot be reported by the poller in the "
                  "same iteration. `retry_policy`, `backoff_timer` are function-level statements with the invariant as hypothesis.")
    rule = ("histories over {connect, disconnect, stop, enableRetry, destroy, holdRef, dropRef} from the loop thread or a "
            "(joined) foreign thread and {hook up|down disconnect|stop|connect|query} (performed by the client's connection "
            "callback on the next UP / DOWN report; two random cases in five carry them, plus a family of connect / "
            "established / peer-close cycles with callbacks, with and without retry), interleaved with loop iterations, virtual-clock advances chosen around the retry "
            "deadlines, scripted connect() results from all three classes, SO_ERROR, self-connect, POLLERR injection, peer "
            "close; plus real-loopback scenarios (server up / down / comes up later / closes immediately); a case is "
            "non-trivial when at least one attempt was made; distinct = distinct observation traces")
    trusted_base = [
        "Lean 4.33.0 kernel; axioms allowed: propext, Classical.choice, Quot.sound",
        "vlib/extract.py + vlib/gen/client.py, vlib/gen/clientskel.py (clang-14 JSON AST -> Generated/Client.lean, Generated/ClientSkel.lean)",
        "hand-written Model/Client.lean, tied by the differential run (harness/client_drv.cc vs drv_client)",
        "harness/interpose.h (link-level interposition of socket/connect/getsockopt/getsockname/close/timerfd/clock), harness/loopstep.h",
        "EventLoop, TimerQueue, Channel, pollers, TcpConnection as far as the client uses them (properties C02-C07, C09)",
    ]
    assumptions = [
        "connect() is issued only while no attempt, connection, pending retry timer (other than the timer of a cycle stop() has ended, on the loop thread) or queued start of that client is outstanding (the property's quantifier)",
        "user operations happen between loop iterations (on the loop thread, or on a foreign thread that is joined before the loop continues) or inside the client's connection callback on UP / DOWN (disconnect, stop, connect, reading connection()); the callback does not destroy the client and does nothing when it finds the client destroyed; message / write-complete callbacks do not operate on the client",
        "connect() from inside the UP callback and connect() from inside the DOWN callback of a retry-enabled client are outside the property's quantifier (overlapping connects)",
        "the user does not drop the last reference to a connection that is still up after destroying the client",
        "foreign-thread destruction concurrent with loop activity: F11, known finding",
    ]
    partial_theorems = [
        {"theorem": "destroy_safe_inloop_sockets / destroy_safe_inloop_connection / no_abort",
         "hypothesis": "the destructor runs on the loop thread (scope guard `okIn (.destroy w)`: w = Who.loop)",
         "finding": "F11: ~TcpClient on a foreign thread only queues setCloseCallback; a close event dispatched before that "
                    "functor calls TcpClient::removeConnection on the destroyed client (model: destroy_safe_full_false, "
                    "witness f11Witness); the code's own FIXME, known limitation, not generated by the correspondence run"},
    ]

    def signature(self, case, kind, desc):
        if kind == "crash" and case.meta.get("f11"):
            return "uaf-foreign-destroy-connection-callback"
        return kind

    # -------------------------------------------------------------------------------- running
    def run_one(self, ctx, exe, flavour, lines, origin, argv=(), shrink=True):
        margs = (["ndebug"] if "ndebug" in flavour else []) + list(argv)
        case = Case("client", lines, origin, meta={"argv": list(argv)})
        impl, err = ctx.run_impl(exe, case, timeout=120)
        tr = Trace(lines, impl)
        fails = oracle(tr)
        mismatch = None
        if ctx.model_ok:
            from .. import leanside
            rc, out, e2 = leanside.run_driver("client", ctx.model_input(case, impl), timeout=300, args=margs)
            model = split_blocks(out)
            if rc != 0:
                model.append(["<<driver exit %d>> %s" % (rc, e2.strip()[:200])])
            mismatch = ctx.compare(case, impl, model)
        for s in tr.steps:
            ctx.count("op:" + s["op"].split()[0])
            for e in s["events"]:
                ctx.count("ev:" + " ".join(e.split()[:3 if e.startswith("hook ") else 2]))
            for e in s["env"]:
                if e.startswith("connect "):
                    ctx.count("connect-result:" + e.split()[1])
        attempts = sum(1 for s in tr.steps for e in s["events"] if e.startswith("attempt"))
        ctx.record(case, impl, nontrivial=attempts > 0,
                   sample={"ops": lines[:14], "events": [e for s in tr.steps for e in s["events"]][:14], "flavour": flavour})
        if fails:
            kind = fails[0][0]
            small = lines
            if shrink:
                def still(ls):
                    b, _ = ctx.run_impl(exe, Case("client", ls, meta={"argv": list(argv)}), timeout=60)
                    f = oracle(Trace(ls, b))
                    return bool(f) and f[0][0] == kind
                small = ddmin(lines, still)
            b, _ = ctx.run_impl(exe, Case("client", small, meta={"argv": list(argv)}), timeout=60)
            f = oracle(Trace(small, b)) or fails
            c = Case("client", ["# flavour=%s argv=%s" % (flavour, " ".join(argv))] + small, origin, meta=dict(case.meta))
            ctx.oracle_failures.append((c, f[0][0], f[0][1] + " [flavour %s]" % flavour))
        elif mismatch:
            small = lines
            if shrink:
                def still2(ls):
                    c = Case("client", ls, meta={"argv": list(argv)})
                    b, _ = ctx.run_impl(exe, c, timeout=60)
                    from .. import leanside
                    rc, out, e2 = leanside.run_driver("client", ctx.model_input(c, b), timeout=120, args=margs)
                    return ctx.compare(c, b, split_blocks(out)) is not None
                small = ddmin(lines, still2)
            c = Case("client", small, meta={"argv": list(argv)})
            b, _ = ctx.run_impl(exe, c, timeout=60)
            from .. import leanside
            rc, out, e2 = leanside.run_driver("client", ctx.model_input(c, b), timeout=120, args=margs)
            ctx.mismatches.append((Case("client", ["# flavour=%s" % flavour] + small, origin), (ctx.compare(c, b, split_blocks(out)) or mismatch) + " [flavour %s]" % flavour))
        return fails, mismatch

    def correspondence(self, ctx, replay=None):
        flavours = ["dbg", "ndebug"] if ctx.quick() else ["dbg", "ndebug", "asan"]
        if ctx.quick() and ctx.search_mode:
            # an obligation or tie broke: look for a concrete failing input under the sanitizer first (lifetime slips
            # - a raw pointer where a reference was held - are silent without it)
            flavours = ["asan", "dbg", "ndebug"]
        ctx.extra["flavours"] = flavours
        ctx.extra["pollers"] = ["epoll"] if ctx.quick() else ["epoll", "poll"]
        if replay:
            lines, meta = read_case(replay)
            for fl in flavours:
                exe = ctx.exe("client_drv", fl)
                case = Case("client", lines, "replay")
                impl, _ = ctx.run_impl(exe, case)
                for op, b in zip([l for l in lines if l.strip()], impl):
                    print("[%s] %-28s %s" % (fl, op, " | ".join(b)))
                self.run_one(ctx, exe, fl, lines, "replay", shrink=False)
            return
        corpus = sorted(glob.glob(os.path.join(CORPUS, "C12", "*.case")))
        for fl in flavours:
            exe = ctx.exe("client_drv", fl)
            for p in corpus:
                lines, meta = read_case(p)
                only = meta.get("flavours")
                if only and fl not in only.split(","):
                    continue
                self.run_one(ctx, exe, fl, lines, "corpus:" + os.path.basename(p), shrink=False)
                ctx.count("corpus_cases")
            if ctx.stop():
                return
        nrand = 150 if ctx.quick() else 1500
        if ctx.search_mode:
            nrand = max(nrand, 1500)
        nreal = 12 if ctx.quick() else 60
        for fl in flavours:
            exe = ctx.exe("client_drv", fl)
            pollers = [()] if ctx.quick() else [(), ("poll",)]
            for argv in pollers:
                n = nrand if not argv else nrand // 3
                if fl == "asan":
                    n = n // 3
                for i in range(n):
                    # two cases in five register operations for the connection callback (hook up|down <op>)
                    lines = random_case(ctx.rng, 25 if i % 4 else 70, hooks=1.0 if i % 5 in (1, 3) else 0.0)
                    self.run_one(ctx, exe, fl, lines, "random", argv=argv)
                    if ctx.stop():
                        return
                for i in range(max(n // 4, 10)):
                    self.run_one(ctx, exe, fl, hook_cycle_case(ctx.rng), "hook-cycles", argv=argv)
                    if ctx.stop():
                        return
                for i in range(max(n // 5, 12)):
                    self.run_one(ctx, exe, fl, f33_case(ctx.rng), "stop-during-backoff", argv=argv)
                    ctx.count("f33_cases")
                    if ctx.stop():
                        return
                for i in range(nreal if fl != "asan" else nreal // 3):
                    self.run_one(ctx, exe, fl, real_case(ctx.rng), "real-loopback", argv=argv)
                    if ctx.stop():
                        return


PROP = Prop()
