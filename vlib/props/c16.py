"""C16 — every log record handed to the back-end is written exactly once, whole, in order.

Sequential half (T2): the real LogFile / AppendFile under a scripted `time()` and scripted
`fwrite_unlocked` results, files read back from a per-run scratch directory, compared line by line
with the Lean model (Model/LogFile.lean) and judged by an independent oracle on the implementation's
own output.  Concurrent half (T3): the real AsyncLogging under a deterministic schedule, replayed step
by step on the Lean transition system (Model/AsyncLog.lean) and judged by an independent oracle on the
files the implementation wrote."""
import glob
import os
import re

from .. import asynclog_common as ac
from ..common import CORPUS
from ..runner import Case, ddmin

MASK = (1 << 64) - 1


def gen_bytes(seed, n):
    x = seed & MASK
    out = bytearray()
    for _ in range(n):
        x = (x * 6364136223846793005 + 1442695040888963407) & MASK
        out.append(x >> 56)
    return bytes(out)


def parse_bytes(tok):
    if tok.startswith("h:"):
        return bytes.fromhex(tok[2:])
    _, seed, n = tok.split(":")
    return gen_bytes(int(seed), int(n))


def fnv64(b):
    h = 14695981039346656037
    for c in b:
        h = ((h ^ c) * 1099511628211) & MASK
    return h


def read_case(path):
    engine = "logfile"
    lines = []
    with open(path) as f:
        for l in f:
            l = l.rstrip("\n")
            if not l.strip() or l.startswith("#"):
                continue
            if l.startswith("engine="):
                engine = l.split()[0].split("=", 1)[1]
                continue
            lines.append(l)
    return engine, lines


class Prop:
    id = "C16"
    lean_module = "MuduoVerif.Props.C16"
    gen_engines = ["LogFile", "LogFileSkel", "AsyncLog", "ThreadSkel"]
    drivers = ["logfile", "asynclog"]
    technique = ("Lean 4 invariant proofs over a pure-function model of LogFile/AppendFile and a thread-indexed transition "
                 "system of AsyncLogging + T1 extraction of every guard/constant + differential runs (T2 scripted clock and "
                 "fwrite results; T3 deterministic schedules) + independent file-content oracle")
    level_text = ("Kernel-checked theorems for all record sequences, clock sequences, fwrite split patterns, thread counts "
                  "and schedules: files concatenated in creation order are the appended records, whole and in order; a new "
                  "file at most once per second and exactly when the guards say; AppendFile::append writes every byte in "
                  "order unless the stream reports an error; the AsyncLogging invariant disk ++ inFlight ++ queued ++ "
                  "current = appended (minus announced drops) over whole records; drops only with the announcement; "
                  "stop() returns only after everything appended before it is flushed.  Guards and constants of the models "
                  "are re-extracted from /repo on every run; the hand-written rest is tied to the real classes by "
                  "differential runs, and an independent oracle judges the files the implementation wrote")
    level_note = ("Trusted: Lean kernel (axioms propext, Classical.choice, Quot.sound only), vlib/extract.py, the "
                  "hand-written parts of Model/LogFile.lean and Model/AsyncLog.lean as far as the differential runs "
                  "exercise them, stdio/pthreads/libstdc++ as documented, the interposition headers and the scheduler.")
    rule = ("LogFile: sequences of new/append/flush/roll/destroy/files with roll sizes 0..1000, checkEveryN 1..1024, "
            "flush intervals 0..3, clock steps from {0,1,2,5,a day,backwards}, records 0..70000 bytes, scripted "
            "short/zero/error fwrite results; a case is non-trivial when at least one file was rolled or one scripted "
            "fwrite result was consumed.  AsyncLogging (real 4 MB buffers): T0 = [appends] start [appends] [stop] [appends], "
            "then joins the appenders and destroys the object; 0..3 appending threads with 1..6 records each; record lengths "
            "from {1,2,23,24,25,100,4000, size/4, size/3, size/2 -1/0/+1, size-2, size-1} and lengths steered to avail()==len "
            "and avail()==len+1; 4% of the cases queue 25..28 full buffers between two back-end cycles (announced drop); "
            "30% offer spurious wake-ups; schedules of 0..50 decisions (dense and sparse) over the yield points (every "
            "mutex acquisition, the timed wait incl. its time-out, threadFunc:swapped, threadFunc:beforeRetest, start, stop, "
            "destruction, joins, thread exits); a run is non-trivial when a buffer switch happened or the scheduler had a "
            "real decision.  distinct = distinct observation traces.")
    trusted_base = [
        "Lean 4.33.0 kernel; axioms allowed: propext, Classical.choice, Quot.sound",
        "vlib/extract.py + vlib/gen/logfile.py, vlib/gen/asynclog.py (clang-14 JSON AST -> Generated/LogFile.lean, "
        "Generated/AsyncLog.lean: guards, constants, and the statement sequence of every critical section / phase of AsyncLogging)",
        "vlib/gen/logfileskel.py + vlib/logskel_common.py (same AST -> Generated/LogFileSkel.lean: statement skeletons of 11 "
        "functions of LogFile.cc / FileUtil.cc) and the hand-written reading Model/LogFileSkelDecl.lean of Model/LogFile.lean "
        "(which model term stands for which statement)",
        "vlib/gen/threadskel.py + vlib/logskel_common.py (same AST -> Generated/ThreadSkel.lean: statement skeletons of MutexLock / MutexLockGuard, Condition::notify / waitForSeconds, CountDownLatch::wait / countDown, Thread::start / join, ThreadData::runInThread, and the deadline arithmetic of Condition::waitForSeconds translated into Lean) and the hand-written reading Model/ThreadSkelDecl.lean: that the code calls pthread in the modelled order is tied by decide; what the pthread / libc functions do stays trusted (POSIX)",
        "hand-written Model/LogFile.lean and Model/AsyncLog.lean (meaning of one statement shape, control skeleton of "
        "threadFunc, FixedBuffer::append), tied by the differential runs",
        "harness/interpose.h, harness/stdio_interpose.h (link-level interposition of time/fopen/fwrite_unlocked/fflush/ferror/fclose)",
        "harness/sched/detsched.h (link-level interposition of pthread mutex/cond/create/join; one thread runs at a time) and "
        "the atomicity argument at the head of Model/AsyncLog.lean (shared buffers only under mutex_, running_ atomic)",
        "harness/asynclog_drv.cc: record contents are self-describing; the files are read back from disk and parsed by the harness",
        "glibc stdio: the bytes fwrite_unlocked accepts are the first bytes of the request and reach the file in order; fclose flushes",
    ]
    assumptions = [
        "time() > 0 when a LogFile is constructed (otherwise no file is opened; the harness rejects such a construction)",
        "fwrite_unlocked never reports more than the request; an endless sequence of zero-length results without the "
        "error flag (the loop would not terminate) is outside the model (a finite script is followed by full writes)",
        "records are shorter than the 4 MB AsyncLogging buffer (explicit hypothesis `r.len < cap`; the excluded branch is the "
        "theorem oversize_dropped: such a record is ignored by FixedBuffer::append without announcement)",
        "start() once, stop() at most once and after start() returned (else the destructor stops); appends may race with both; "
        "records appended after stop() was called are promised nothing",
        "AsyncLogging is constructed with flushInterval >= 0: the code checks nothing, and a negative interval hands pthread_cond_timedwait an invalid timespec (theorem flush_wait_deadline; measured on the real code: EINVAL at once, waitForSeconds returns false, the back-end thread spins - 9 million timed waits per second)",
        "AsyncLogging's steps are atomic between two scheduling points; data races below that granularity are the subject of C08",
    ]
    partial_theorems = []

    def signature(self, case, kind, desc):
        return kind

    # ================================================================== LogFile (T2)
    def logfile_oracle(self, lines, blocks):
        """the property evaluated on what the implementation did (no model involved)"""
        fails = []
        ops = [l for l in lines if l.strip()]
        inst = None   # state of the current instance

        def fresh():
            return {"opens": [], "delivered": [], "per_file": {}, "alive": True, "recs": 0}
        for i, op in enumerate(ops):
            if i >= len(blocks):
                fails.append(("trace", "no output for step %d `%s`" % (i, op)))
                break
            blk = blocks[i]
            crash = [l for l in blk if l.startswith("<<")]
            if crash:
                fails.append(("crash", "step %d `%s`: %s" % (i, op[:60], crash[0])))
                break
            obs = [l for l in blk if not l.startswith("<") and not l.startswith("#")]
            env = [l for l in blk if l.startswith("< ")]
            w = op.split()
            if obs and obs[0] in ("reject", "bad-op"):
                if w[0] == "new":
                    inst = None
                continue
            if w[0] == "new":
                inst = fresh()
            if inst is None:
                continue
            # events of this block
            calls = []
            for l in obs:
                t = l.split()
                if t[0] == "open":
                    sec = int(t[1])
                    if inst["opens"] and sec <= max(inst["opens"]):
                        fails.append(("roll_rate", "step %d `%s`: file for second %d opened after the file for second %d"
                                      % (i, op[:60], sec, max(inst["opens"]))))
                    inst["opens"].append(sec)
                    inst["per_file"].setdefault(sec, 0)
                elif t[0] == "fw":
                    sec, off, req, ret = int(t[1]), int(t[2]), int(t[3]), int(t[4])
                    if not inst["opens"] or sec != inst["opens"][-1]:
                        fails.append(("files_concat", "step %d `%s`: bytes written to the file of second %d which is not the current one (%s)"
                                      % (i, op[:60], sec, inst["opens"][-1:] or "none")))
                    calls.append((sec, off, req, ret))
                    inst["per_file"][sec] = inst["per_file"].get(sec, 0) + ret
                elif t[0] in ("flush", "close"):
                    sec, size = int(t[1]), int(t[2])
                    if inst["per_file"].get(sec) != size:
                        fails.append(("flush", "step %d `%s`: after %s the file of second %d holds %d bytes on disk, %s were handed to the stream"
                                      % (i, op[:60], t[0], sec, size, inst["per_file"].get(sec))))
            if w[0] == "append":
                rec = parse_bytes(w[1])
                errs = [int(l.split()[3]) for l in env if l.startswith("< fw ")]
                pos = 0
                out = b""
                # the file that is current when the append starts takes the whole record
                target = None
                for (sec, off, req, ret) in calls:
                    if target is None:
                        target = sec
                    if sec != target:
                        fails.append(("split-record", "step %d `%s`: one record written to the files of seconds %d and %d" % (i, op[:60], target, sec)))
                    if off != pos or req != len(rec) - pos or ret > req:
                        fails.append(("append_all", "step %d `%s`: write request (offset %d, length %d) after %d of %d bytes were accepted"
                                      % (i, op[:60], off, req, pos, len(rec))))
                        break
                    out += rec[off:off + ret]
                    pos += ret
                if not any(errs) and pos != len(rec) and not fails:
                    fails.append(("append_all", "step %d `%s`: %d of %d bytes handed to the stream although it reported no error"
                                  % (i, op[:60], pos, len(rec))))
                inst["delivered"].append(out)
            elif w[0] == "files":
                files = [(int(t[1]), int(t[2]), int(t[3])) for t in (l.split() for l in obs) if t[0] == "file"]
                if [f[0] for f in files] != sorted(inst["opens"]):
                    fails.append(("roll_rate", "step %d: files on disk %s, files opened %s" % (i, [f[0] for f in files], inst["opens"])))
                whole = b"".join(inst["delivered"])
                bounds = {0}
                acc = 0
                for d in inst["delivered"]:
                    acc += len(d)
                    bounds.add(acc)
                pos = 0
                for sec, ln, h in files:
                    piece = whole[pos:pos + ln]
                    if len(piece) != ln or fnv64(piece) != h:
                        fails.append(("files_concat", "step %d: the file of second %d (%d bytes at offset %d) is not the next part of the appended records"
                                      % (i, sec, ln, pos)))
                        break
                    pos += ln
                    if pos not in bounds:
                        fails.append(("split-record", "step %d: the file of second %d ends inside a record (offset %d)" % (i, sec, pos)))
                        break
                else:
                    if pos != len(whole):
                        fails.append(("files_concat", "step %d: %d bytes on disk, %d bytes were handed to the stream" % (i, pos, len(whole))))
            if fails:
                break
        return fails

    SIZES = [0, 1, 2, 3, 5, 8, 10, 20, 50, 100, 300]

    def logfile_sequence(self, rng, maxops):
        roll = rng.choice([0, 1, 5, 20, 20, 50, 50, 200, 1000, 100000])
        lines = []
        t = rng.choice([1, 100, 86399, 86400 * rng.randrange(1, 20000) - rng.randrange(0, 4), rng.randrange(1, 2000000000)])
        lines.append("times %d" % t)
        lines.append("new %d %d %d %d" % (roll, rng.choice([0, 1, 3, 3]), rng.choice([1, 1, 2, 3, 5, 1024]), rng.randrange(2)))
        big_left = 1
        for _ in range(rng.randrange(1, maxops)):
            if rng.random() < 0.45:
                n = rng.choice([1, 1, 2, 3])
                vals = []
                for _ in range(n):
                    t += rng.choice([0, 0, 0, 1, 1, 1, 2, 5, 86400, 86399, -1, -100, 3, 4])
                    vals.append(max(t, -5))
                lines.append("times " + " ".join(str(v) for v in vals))
            k = rng.random()
            if k < 0.8:
                r = rng.random()
                if r < 0.9 or big_left <= 0:
                    n = rng.choice(self.SIZES)
                else:
                    big_left -= 1
                    n = rng.choice([65536, 70000, 131073])
                if rng.random() < 0.3:
                    res = []
                    for _ in range(rng.randrange(1, 5)):
                        v = rng.choice(["0", "1", "2", str(max(n - 1, 0)), str(n), "full", str(rng.randrange(0, n + 2))])
                        if rng.random() < 0.15:
                            v += "!"
                        res.append(v)
                    lines.append("script " + " ".join(res))
                lines.append("append g:%d:%d" % (rng.randrange(1 << 30), n))
            elif k < 0.9:
                lines.append("flush")
            else:
                lines.append("roll")
        lines += ["destroy", "files"]
        return lines

    def split_sequences(self, ops):
        """cut a batch back into its `new`-delimited sequences (a sequence starts at the `times` line before `new`)"""
        seqs, cur, start = [], [], 0
        for i, l in enumerate(ops):
            if l.startswith("new ") and any(x.startswith("new ") for x in cur):
                # the `times` line preceding this `new` belongs to the new sequence
                carry = []
                while cur and cur[-1].startswith("times "):
                    carry.insert(0, cur.pop())
                seqs.append((start, cur))
                start = i - len(carry)
                cur = carry
            cur.append(l)
        if cur:
            seqs.append((start, cur))
        return seqs

    @staticmethod
    def well_formed(ls):
        """a complete script of ONE instance: `times`.. `new` <operations> `destroy` [`files` | `times`].., every `script`
        line directly in front of the `append` it scripts.  (A script without `destroy` ends with the driver's exit-time
        destructor, which prints outside every step: model and implementation then 'differ' for a reason that has
        nothing to do with the failure being minimised.)"""
        ops = [l.split()[0] for l in ls if l.strip()]
        if ops.count("new") != 1 or ops.count("destroy") != 1:
            return False
        n, d = ops.index("new"), ops.index("destroy")
        if n == 0 or n > d or any(o != "times" for o in ops[:n]):
            return False
        if any(o not in ("append", "flush", "roll", "times", "script") for o in ops[n + 1:d]):
            return False
        if any(o not in ("files", "times") for o in ops[d + 1:]):
            return False
        return all(ops[i + 1] == "append" for i, o in enumerate(ops[:-1]) if o == "script") and ops[-1] != "script"

    @staticmethod
    def mismatch_kind(ctx, case, impl, model):
        """structural kind of the first difference between implementation and model: (operation of that step, kinds of
        the events only the implementation has, kinds of the events only the model has); None when they agree"""
        ops = [l for l in case.lines if l.strip()]
        for i in range(max(len(impl), len(model))):
            a = ctx.observable(impl[i]) if i < len(impl) else ["<<missing>>"]
            b = ctx.observable(model[i]) if i < len(model) else ["<<missing>>"]
            if a != b:
                return (ops[i].split()[0] if i < len(ops) else "?",
                        tuple(sorted(set(x.split()[0] for x in a if x not in b))),
                        tuple(sorted(set(x.split()[0] for x in b if x not in a))))
        return None

    def logfile_batch(self, ctx, exe, lines, origin):
        case = Case("logfile", lines, origin)
        impl, err = ctx.run_impl(exe, case, timeout=600)
        fails = self.logfile_oracle(lines, impl)
        model = ctx.run_model(case, impl, timeout=900) if ctx.model_ok else None
        mismatch = ctx.compare(case, impl, model) if model is not None else None
        ops = [l for l in lines if l.strip()]
        seqs = self.split_sequences(ops)
        for start, seq in seqs:
            blocks = impl[start:start + len(seq)]
            flat = [l for b in blocks for l in b]
            rolled = sum(1 for l in flat if l.startswith("open ")) > 1
            scripted = any(l.startswith("script ") for l in seq)
            for l in seq:
                ctx.count("op:" + l.split()[0])
            for l in flat:
                if l.startswith("open "):
                    ctx.count("files_opened")
                elif l.startswith("flush "):
                    ctx.count("flushes")
                elif l.startswith("< fw ") and l.endswith(" 1"):
                    ctx.count("fwrite_error_flag")
            ctx.record(Case("logfile", seq), blocks, nontrivial=rolled or scripted,
                       sample={"ops": seq[:10], "files": [l for l in flat if l.startswith("file ")][:6]})

        def locate(step):
            for start, seq in seqs:
                if start <= step < start + len(seq):
                    return seq
            return ops

        def shrink(seq, still):
            if not still(seq):
                return seq
            return ddmin(seq, still, keep_prefix=0)

        if fails:
            kind, desc = fails[0]
            m = re.search(r"step (\d+)", desc)
            seq = locate(int(m.group(1))) if m else ops

            strict = self.well_formed(seq)      # a corpus case may be a fragment on purpose: then only `new` is required

            def still(ls):
                if not any(l.startswith("new ") for l in ls) or (strict and not self.well_formed(ls)):
                    return False
                b, _ = ctx.run_impl(exe, Case("logfile", ls), timeout=60)
                f = self.logfile_oracle(ls, b)
                return bool(f) and f[0][0] == kind
            small = shrink(seq, still)
            b, _ = ctx.run_impl(exe, Case("logfile", small), timeout=60)
            f = self.logfile_oracle(small, b)
            ctx.oracle_failures.append((Case("logfile", small, origin), kind, f[0][1] if f else desc))
        elif mismatch:
            m = re.search(r"step (\d+)", mismatch)
            seq = locate(int(m.group(1))) if m else ops

            strict = self.well_formed(seq)
            # the kind of THIS mismatch, re-judged on the isolated sequence (the batch index of the step is gone there)
            c0 = Case("logfile", seq)
            b0, _ = ctx.run_impl(exe, c0, timeout=60)
            kind0 = self.mismatch_kind(ctx, c0, b0, ctx.run_model(c0, b0, timeout=120))

            def still(ls):
                if not any(l.startswith("new ") for l in ls) or (strict and not self.well_formed(ls)):
                    return False
                c = Case("logfile", ls)
                b, _ = ctx.run_impl(exe, c, timeout=60)
                mo = ctx.run_model(c, b, timeout=120)
                k = self.mismatch_kind(ctx, c, b, mo)
                return k is not None and k == kind0     # the same difference, not just any difference
            small = shrink(seq, still) if kind0 is not None else seq
            c = Case("logfile", small, origin)
            b, _ = ctx.run_impl(exe, c, timeout=60)
            mo = ctx.run_model(c, b, timeout=120)
            ctx.mismatches.append((c, ctx.compare(c, b, mo) or mismatch))

    def logfile_part(self, ctx, flavours):
        for fl in flavours:
            exe = ctx.exe("logfile_drv", fl)
            for p in sorted(glob.glob(os.path.join(CORPUS, "C16", "*.case"))):
                engine, lines = read_case(p)
                if engine != "logfile":
                    continue
                self.logfile_batch(ctx, exe, lines, "corpus:" + os.path.basename(p))
                ctx.count("corpus_cases")
                if ctx.stop():
                    return
            nseq = 250 if ctx.quick() else 3000
            if ctx.search_mode:
                nseq = 3000
            batch = []
            for i in range(nseq):
                batch += self.logfile_sequence(ctx.rng, 25 if i % 8 else 120)
                if len(batch) > 4000:
                    self.logfile_batch(ctx, exe, batch, "random")
                    batch = []
                    if ctx.stop():
                        return
            if batch:
                self.logfile_batch(ctx, exe, batch, "random")
            if ctx.stop():
                return

    # ================================================================== AsyncLogging (T3)
    def asynclog_part(self, ctx, flavours):
        cap = ac.buffer_size()
        r = ac.Runner(ctx, cap)
        heavy = ctx.search_mode or not ctx.quick()
        for fl in flavours:
            exe = ctx.exe("asynclog_drv", fl)
            cases = ac.corpus_cases()
            r.judge(exe, cases)
            ctx.count("corpus_cases", len(cases))
            if ctx.stop():
                return
            ncases = (1500 if fl == "dbg" else 300) if heavy else 260
            batch = []
            for i in range(ncases):
                batch.append(ac.gen_case(ctx.rng, cap, 5 if heavy else 3, heavy))
                if len(batch) >= 40:
                    r.judge(exe, batch)
                    batch = []
                    if ctx.stop():
                        return
            if batch:
                r.judge(exe, batch)
            if ctx.stop():
                return

    # ================================================================== driver
    def correspondence(self, ctx, replay=None):
        flavours = ["dbg"] if ctx.quick() else ["dbg", "asan-ndebug"]
        ctx.extra["flavours"] = flavours
        if replay:
            engine, lines = read_case(replay)
            if engine == "logfile":
                for fl in flavours:
                    exe = ctx.exe("logfile_drv", fl)
                    case = Case("logfile", lines, "replay")
                    impl, err = ctx.run_impl(exe, case)
                    model = ctx.run_model(case, impl)
                    for a, b in zip(impl, model):
                        print("impl : %s\nmodel: %s" % (ctx.observable(a), ctx.observable(b)))
                    self.logfile_batch(ctx, exe, lines, "replay")
            elif engine == "asynclog":
                cap = ac.buffer_size()
                r = ac.Runner(ctx, cap)
                exe = ctx.exe("asynclog_drv", "dbg")
                cases = ac.read_case_file(replay)
                for c, (ib, mb) in zip(cases, r.run(exe, cases)):
                    print("\n".join(c.lines()[:c.header_len()]))
                    for i, blk in enumerate(ib or []):
                        print("schedule %s" % " ".join(map(str, c.schedules[i])))
                        for l in blk:
                            print("  impl : %s" % l)
                        for l in (mb[i] if mb and i < len(mb) else []):
                            print("  model: %s" % l)
                        print("  oracle: %s" % (ac.oracle(c, blk, cap) or "ok"))
                r.judge(exe, cases)
            return
        self.logfile_part(ctx, flavours)
        if ctx.stop():
            return
        self.logfile_mt_part(ctx)
        if ctx.stop():
            return
        self.asynclog_part(ctx, flavours)

    def logfile_mt_part(self, ctx):
        """free-running, oracle only: a thread-safe LogFile written by several threads while another one flushes
        (the locking of the public wrappers is a T1 fact, `threadsafe_paths_locked`; this turns a broken tie into a
        concrete failing input)"""
        import shutil
        import tempfile
        from ..common import BUILD, sh
        from ..runner import Case
        exe = ctx.exe("logfile_mt", "plain")
        rounds = 3 if ctx.quick() and not ctx.search_mode else 12
        n = 40000 if ctx.quick() and not ctx.search_mode else 150000
        for r in range(rounds):
            d = tempfile.mkdtemp(prefix="lfmt-", dir=BUILD)
            try:
                argv = [exe, d, "2", str(n), "1"]
                rc, out, err = sh(argv, timeout=300)
            finally:
                shutil.rmtree(d, ignore_errors=True)
            ctx.count("logfile_mt:runs")
            case = Case("logfile_mt", ["logfile_mt <dir> 2 %d 1   # 2 appenders x %d records, 1 flusher, threadSafe=true" % (n, n)], "generated")
            ctx.record(case, [[out.strip()[:80]]], nontrivial=True)
            if rc != 0:
                ctx.oracle_failures.append((case, "mt-lost-or-torn", "thread-safe LogFile, 2 appenders + 1 flusher (free-running, round %d): %s"
                                            % (r, (out.strip() or err.strip())[:300])))
                return


PROP = Prop()
